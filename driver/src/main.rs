// rrss-factgen: a rustc_private driver that dumps type-checked facts (items, ADTs, traits,
// impls, MIR with resolved callees, and a monomorphic call graph) for the crate under
// analysis as one JSON document per (crate kind, profile).
//
// Used as RUSTC_WORKSPACE_WRAPPER: argv = [driver, rustc, args...].
// Environment: RRSS_FACTS_DIR (output directory), RRSS_PROFILE (label "dev" | "rel"),
//              RRSS_CRATE (crate name to dump, default "rrss").
#![feature(rustc_private)]
#![allow(clippy::all)]

extern crate rustc_abi;
extern crate rustc_data_structures;
extern crate rustc_driver;
extern crate rustc_hir;
extern crate rustc_interface;
extern crate rustc_middle;
extern crate rustc_session;
extern crate rustc_span;

use std::collections::{BTreeMap, HashMap, HashSet};
use std::fmt::Write as _;

use rustc_driver::{Callbacks, Compilation};
use rustc_hir::def::DefKind;
use rustc_hir::def_id::{DefId, LOCAL_CRATE};
use rustc_interface::interface::Compiler;
use rustc_middle::mir::{
    self, AggregateKind, AssertKind, BinOp, Body, CastKind, Operand, Place, ProjectionElem,
    Rvalue, StatementKind, TerminatorKind, UnOp,
};
use rustc_middle::ty::adjustment::PointerCoercion;
use rustc_middle::ty::print::with_no_trimmed_paths;
use rustc_middle::ty::{
    self, EarlyBinder, GenericArgsRef, Instance, InstanceKind, Ty, TyCtxt, TypeVisitableExt, TypingEnv,
};
use rustc_span::{ExpnKind, Span};

const DRIVER_VERSION: &str = "rrss-factgen-7";

// ------------------------------------------------------------------------------------------
// tiny JSON helpers

fn jstr(s: &str) -> String {
    let mut o = String::with_capacity(s.len() + 2);
    o.push('"');
    for c in s.chars() {
        match c {
            '"' => o.push_str("\\\""),
            '\\' => o.push_str("\\\\"),
            '\n' => o.push_str("\\n"),
            '\r' => o.push_str("\\r"),
            '\t' => o.push_str("\\t"),
            c if (c as u32) < 0x20 => {
                let _ = write!(o, "\\u{:04x}", c as u32);
            }
            c => o.push(c),
        }
    }
    o.push('"');
    o
}

fn jarr(items: impl IntoIterator<Item = String>) -> String {
    let mut o = String::from("[");
    let mut first = true;
    for i in items {
        if !first {
            o.push(',');
        }
        first = false;
        o.push_str(&i);
    }
    o.push(']');
    o
}

fn jobj(items: Vec<(&str, String)>) -> String {
    let mut o = String::from("{");
    let mut first = true;
    for (k, v) in items {
        if !first {
            o.push(',');
        }
        first = false;
        o.push_str(&jstr(k));
        o.push(':');
        o.push_str(&v);
    }
    o.push('}');
    o
}

fn jbool(b: bool) -> String {
    if b { "true".into() } else { "false".into() }
}

fn jopt(o: Option<String>) -> String {
    o.unwrap_or_else(|| "null".into())
}

// ------------------------------------------------------------------------------------------

struct Ctx<'tcx> {
    tcx: TyCtxt<'tcx>,
    tys: Vec<String>,
    ty_ids: HashMap<Ty<'tcx>, usize>,
    file_cache: HashMap<String, String>,
}

impl<'tcx> Ctx<'tcx> {
    fn path(&self, d: DefId) -> String {
        with_no_trimmed_paths!(self.tcx.def_path_str(d))
    }

    fn path_args(&self, d: DefId, args: GenericArgsRef<'tcx>) -> String {
        with_no_trimmed_paths!(self.tcx.def_path_str_with_args(d, args))
    }

    fn ty_str(&self, t: Ty<'tcx>) -> String {
        with_no_trimmed_paths!(t.to_string())
    }

    fn ty(&mut self, t: Ty<'tcx>) -> usize {
        if let Some(&i) = self.ty_ids.get(&t) {
            return i;
        }
        // reserve the slot first so recursive types terminate
        let idx = self.tys.len();
        self.tys.push(String::new());
        self.ty_ids.insert(t, idx);
        let s = self.ty_str(t);
        let mut items: Vec<(&str, String)> = Vec::new();
        match *t.kind() {
            ty::Bool | ty::Char | ty::Int(_) | ty::Uint(_) | ty::Float(_) | ty::Str | ty::Never => {
                items.push(("prim", jstr(&s)));
            }
            ty::Adt(def, args) => {
                items.push(("adt", jstr(&self.path(def.did()))));
                let a: Vec<String> = args.types().map(|x| self.ty(x).to_string()).collect();
                items.push(("args", jarr(a)));
                items.push(("local", jbool(def.did().is_local())));
            }
            ty::Ref(_, inner, m) => {
                items.push(("ref", self.ty(inner).to_string()));
                items.push(("mut", jbool(m.is_mut())));
            }
            ty::RawPtr(inner, m) => {
                items.push(("ptr", self.ty(inner).to_string()));
                items.push(("mut", jbool(m.is_mut())));
            }
            ty::Tuple(ts) => {
                let a: Vec<String> = ts.iter().map(|x| self.ty(x).to_string()).collect();
                items.push(("tuple", jarr(a)));
            }
            ty::Slice(inner) => {
                items.push(("slice", self.ty(inner).to_string()));
            }
            ty::Array(inner, n) => {
                items.push(("array", self.ty(inner).to_string()));
                items.push(("len", jstr(&with_no_trimmed_paths!(n.to_string()))));
            }
            ty::Closure(def, args) => {
                items.push(("closure", jstr(&self.path(def))));
                let ups: Vec<String> = args
                    .as_closure()
                    .upvar_tys()
                    .iter()
                    .map(|x| self.ty(x).to_string())
                    .collect();
                items.push(("upvars", jarr(ups)));
                items.push(("local", jbool(def.is_local())));
            }
            ty::FnDef(def, args) => {
                items.push(("fndef", jstr(&self.path(def))));
                let a: Vec<String> = args.types().map(|x| self.ty(x).to_string()).collect();
                items.push(("args", jarr(a)));
                items.push(("local", jbool(def.is_local())));
            }
            ty::FnPtr(..) => {
                items.push(("fnptr", jstr(&s)));
            }
            ty::Param(p) => {
                items.push(("param", jstr(p.name.as_str())));
            }
            ty::Dynamic(preds, ..) => {
                let mut v = Vec::new();
                if let Some(p) = preds.principal_def_id() {
                    v.push(jstr(&self.path(p)));
                }
                for d in preds.auto_traits() {
                    v.push(jstr(&self.path(d)));
                }
                items.push(("dyn", jarr(v)));
            }
            ty::Alias(..) => {
                items.push(("alias", jstr(&s)));
            }
            _ => {
                items.push(("other", jstr(&s)));
            }
        }
        items.push(("s", jstr(&s)));
        self.tys[idx] = jobj(items);
        idx
    }

    // (file, line) of the user-visible position of a span, plus macro backtrace names
    fn span_info(&mut self, sp: Span) -> (String, usize, usize, Vec<String>) {
        let mut macros = Vec::new();
        let mut cur = sp;
        let mut guard = 0;
        while cur.from_expansion() && guard < 32 {
            let data = cur.ctxt().outer_expn_data();
            match data.kind {
                ExpnKind::Macro(_, name) => macros.push(name.to_string()),
                ExpnKind::Desugaring(k) => macros.push(format!("desugar:{:?}", k)),
                ExpnKind::AstPass(k) => macros.push(format!("astpass:{:?}", k)),
                ExpnKind::Root => {}
            }
            cur = data.call_site;
            guard += 1;
        }
        let sm = self.tcx.sess.source_map();
        let lo = sm.lookup_char_pos(cur.lo());
        let hi = sm.lookup_char_pos(cur.hi());
        let file = format!("{}", lo.file.name.prefer_local_unconditionally());
        (file, lo.line, hi.line, macros)
    }

    fn line_of(&mut self, sp: Span) -> (usize, Vec<String>, String) {
        let (f, lo, _, m) = self.span_info(sp);
        (lo, m, f)
    }
}

// ------------------------------------------------------------------------------------------
// MIR dumping

struct BodyDump<'a, 'tcx> {
    cx: &'a mut Ctx<'tcx>,
    body: &'a Body<'tcx>,
    owner: DefId,
    env: TypingEnv<'tcx>,
}

impl<'a, 'tcx> BodyDump<'a, 'tcx> {
    fn place(&mut self, p: &Place<'tcx>) -> String {
        let tcx = self.cx.tcx;
        let mut pty = mir::PlaceTy::from_ty(self.body.local_decls[p.local].ty);
        let mut elems = Vec::new();
        for elem in p.projection.iter() {
            let e = match elem {
                ProjectionElem::Deref => jstr("deref"),
                ProjectionElem::Field(f, fty) => {
                    let mut items: Vec<(&str, String)> = vec![("f", f.index().to_string())];
                    match *pty.ty.kind() {
                        ty::Adt(def, _) => {
                            items.push(("of", jstr(&self.cx.path(def.did()))));
                            let vidx = pty.variant_index.unwrap_or(rustc_abi::FIRST_VARIANT);
                            if vidx.index() < def.variants().len() {
                                let v = def.variant(vidx);
                                if def.is_enum() {
                                    items.push(("v", jstr(v.name.as_str())));
                                }
                                if f.index() < v.fields.len() {
                                    items.push(("name", jstr(v.fields[f].name.as_str())));
                                }
                            }
                        }
                        ty::Tuple(_) => items.push(("of", jstr("tuple"))),
                        ty::Closure(d, _) => {
                            items.push(("of", jstr("closure")));
                            items.push(("closure", jstr(&self.cx.path(d))));
                        }
                        _ => items.push(("of", jstr("other"))),
                    }
                    items.push(("ty", self.cx.ty(fty).to_string()));
                    jobj(items)
                }
                ProjectionElem::Index(l) => jobj(vec![("idx", l.index().to_string())]),
                ProjectionElem::ConstantIndex { offset, min_length, from_end } => jobj(vec![
                    ("cidx", offset.to_string()),
                    ("min", min_length.to_string()),
                    ("from_end", jbool(from_end)),
                ]),
                ProjectionElem::Subslice { from, to, from_end } => jobj(vec![
                    ("sub_from", from.to_string()),
                    ("sub_to", to.to_string()),
                    ("from_end", jbool(from_end)),
                ]),
                ProjectionElem::Downcast(name, vidx) => {
                    let n = match name {
                        Some(s) => s.to_string(),
                        None => match *pty.ty.kind() {
                            ty::Adt(def, _) if vidx.index() < def.variants().len() => {
                                def.variant(vidx).name.to_string()
                            }
                            _ => format!("#{}", vidx.index()),
                        },
                    };
                    jobj(vec![("dc", jstr(&n)), ("vi", vidx.index().to_string())])
                }
                ProjectionElem::OpaqueCast(_) => jstr("opaque_cast"),
                ProjectionElem::UnwrapUnsafeBinder(_) => jstr("unwrap_binder"),
            };
            elems.push(e);
            pty = pty.projection_ty(tcx, elem);
        }
        jobj(vec![("l", p.local.index().to_string()), ("p", jarr(elems))])
    }

    fn constant(&mut self, c: &mir::ConstOperand<'tcx>) -> String {
        let tcx = self.cx.tcx;
        let cty = c.const_.ty();
        let mut items: Vec<(&str, String)> = vec![("ty", self.cx.ty(cty).to_string())];
        let printed = with_no_trimmed_paths!(format!("{}", c.const_));
        items.push(("v", jstr(&printed)));
        if let ty::FnDef(d, args) = *cty.kind() {
            items.push(("fn", jstr(&self.cx.path(d))));
            items.push(("fn_inst", jstr(&self.cx.path_args(d, args))));
        }
        match c.const_ {
            mir::Const::Val(cv, t) => {
                if let Some(si) = cv.try_to_scalar_int() {
                    let bits: u128 = si.to_bits_unchecked();
                    items.push(("bits", jstr(&bits.to_string())));
                    match *t.kind() {
                        ty::Float(ty::FloatTy::F64) => {
                            let f = f64::from_bits(bits as u64);
                            items.push(("f64", jstr(&format!("{:?}", f))));
                        }
                        ty::Char => {
                            if let Some(ch) = char::from_u32(bits as u32) {
                                items.push(("char", jstr(&ch.to_string())));
                            }
                        }
                        ty::Int(_) => {
                            let size = si.size();
                            let v = size.sign_extend(bits);
                            items.push(("int", jstr(&v.to_string())));
                        }
                        ty::Uint(_) | ty::Bool => {
                            items.push(("int", jstr(&bits.to_string())));
                        }
                        _ => {}
                    }
                } else if matches!(cv, mir::ConstValue::Slice { .. }) {
                    if let Some(bytes) = cv.try_get_slice_bytes_for_diagnostics(tcx) {
                        if let Ok(s) = std::str::from_utf8(bytes) {
                            items.push(("str", jstr(s)));
                        }
                    }
                }
            }
            mir::Const::Unevaluated(uv, _) => {
                items.push(("uneval", jstr(&self.cx.path(uv.def))));
                if let Some(p) = uv.promoted {
                    items.push(("promoted", p.index().to_string()));
                }
            }
            mir::Const::Ty(..) => {}
        }
        jobj(vec![("const", jobj(items))])
    }

    fn operand(&mut self, o: &Operand<'tcx>) -> String {
        match o {
            Operand::Copy(p) => jobj(vec![("copy", self.place(p))]),
            Operand::Move(p) => jobj(vec![("move", self.place(p))]),
            Operand::Constant(c) => self.constant(c),
            _ => jobj(vec![("runtime_checks", jstr(&format!("{:?}", o)))]),
        }
    }

    fn binop(op: BinOp) -> (&'static str, bool) {
        match op {
            BinOp::Add => ("add", false),
            BinOp::AddUnchecked => ("add", false),
            BinOp::AddWithOverflow => ("add", true),
            BinOp::Sub => ("sub", false),
            BinOp::SubUnchecked => ("sub", false),
            BinOp::SubWithOverflow => ("sub", true),
            BinOp::Mul => ("mul", false),
            BinOp::MulUnchecked => ("mul", false),
            BinOp::MulWithOverflow => ("mul", true),
            BinOp::Div => ("div", false),
            BinOp::Rem => ("rem", false),
            BinOp::BitXor => ("bitxor", false),
            BinOp::BitAnd => ("bitand", false),
            BinOp::BitOr => ("bitor", false),
            BinOp::Shl | BinOp::ShlUnchecked => ("shl", false),
            BinOp::Shr | BinOp::ShrUnchecked => ("shr", false),
            BinOp::Eq => ("eq", false),
            BinOp::Lt => ("lt", false),
            BinOp::Le => ("le", false),
            BinOp::Ne => ("ne", false),
            BinOp::Ge => ("ge", false),
            BinOp::Gt => ("gt", false),
            BinOp::Cmp => ("cmp", false),
            BinOp::Offset => ("offset", false),
        }
    }

    fn rvalue(&mut self, rv: &Rvalue<'tcx>) -> String {
        match rv {
            Rvalue::Use(o, ..) => jobj(vec![("use", self.operand(o))]),
            Rvalue::Repeat(o, n) => jobj(vec![
                ("repeat", self.operand(o)),
                ("n", jstr(&with_no_trimmed_paths!(n.to_string()))),
            ]),
            Rvalue::Ref(_, bk, p) => {
                let m = matches!(bk, mir::BorrowKind::Mut { .. });
                let fake = matches!(bk, mir::BorrowKind::Fake(_));
                jobj(vec![("ref", self.place(p)), ("mut", jbool(m)), ("fake", jbool(fake))])
            }
            Rvalue::ThreadLocalRef(d) => jobj(vec![("tls", jstr(&self.cx.path(*d)))]),
            Rvalue::RawPtr(k, p) => jobj(vec![
                ("rawptr", self.place(p)),
                ("mut", jbool(matches!(k, mir::RawPtrKind::Mut))),
            ]),
            Rvalue::Cast(kind, o, t) => {
                let k = match kind {
                    CastKind::PointerCoercion(pc, _) => match pc {
                        PointerCoercion::Unsize => "unsize".to_string(),
                        PointerCoercion::ReifyFnPointer(_) => "reify_fn".to_string(),
                        PointerCoercion::ClosureFnPointer(_) => "closure_fn".to_string(),
                        PointerCoercion::UnsafeFnPointer => "unsafe_fn".to_string(),
                        PointerCoercion::MutToConstPointer => "mut_to_const".to_string(),
                        PointerCoercion::ArrayToPointer => "array_to_ptr".to_string(),
                    },
                    other => format!("{:?}", other),
                };
                let from = o.ty(self.body, self.cx.tcx);
                jobj(vec![
                    ("cast", jstr(&k)),
                    ("a", self.operand(o)),
                    ("from", self.cx.ty(from).to_string()),
                    ("to", self.cx.ty(*t).to_string()),
                ])
            }
            Rvalue::BinaryOp(op, ab) => {
                let (name, checked) = Self::binop(*op);
                let t = ab.0.ty(self.body, self.cx.tcx);
                jobj(vec![
                    ("bin", jstr(name)),
                    ("checked", jbool(checked)),
                    ("a", self.operand(&ab.0)),
                    ("b", self.operand(&ab.1)),
                    ("opty", self.cx.ty(t).to_string()),
                ])
            }
            Rvalue::UnaryOp(op, o) => {
                let name = match op {
                    UnOp::Not => "not",
                    UnOp::Neg => "neg",
                    UnOp::PtrMetadata => "ptr_metadata",
                };
                let t = o.ty(self.body, self.cx.tcx);
                jobj(vec![
                    ("un", jstr(name)),
                    ("a", self.operand(o)),
                    ("opty", self.cx.ty(t).to_string()),
                ])
            }
            Rvalue::Discriminant(p) => {
                let t = p.ty(self.body, self.cx.tcx).ty;
                jobj(vec![("discr", self.place(p)), ("of", self.cx.ty(t).to_string())])
            }
            Rvalue::Aggregate(kind, ops) => {
                let k = match **kind {
                    AggregateKind::Array(t) => jobj(vec![("array", self.cx.ty(t).to_string())]),
                    AggregateKind::Tuple => jstr("tuple"),
                    AggregateKind::Adt(d, vidx, args, _, _) => {
                        let adt = self.cx.tcx.adt_def(d);
                        let v = adt.variant(vidx);
                        let targs: Vec<String> =
                            args.types().map(|x| self.cx.ty(x).to_string()).collect();
                        jobj(vec![
                            ("adt", jstr(&self.cx.path(d))),
                            ("variant", jstr(v.name.as_str())),
                            ("vi", vidx.index().to_string()),
                            ("args", jarr(targs)),
                        ])
                    }
                    AggregateKind::Closure(d, _) => jobj(vec![("closure", jstr(&self.cx.path(d)))]),
                    AggregateKind::Coroutine(d, _) | AggregateKind::CoroutineClosure(d, _) => {
                        jobj(vec![("coroutine", jstr(&self.cx.path(d)))])
                    }
                    AggregateKind::RawPtr(..) => jstr("rawptr"),
                };
                let o: Vec<String> = ops.iter().map(|x| self.operand(x)).collect();
                jobj(vec![("agg", k), ("ops", jarr(o))])
            }
            Rvalue::CopyForDeref(p) => jobj(vec![("use", jobj(vec![("copy", self.place(p))]))]),
            Rvalue::WrapUnsafeBinder(o, _) => jobj(vec![("use", self.operand(o))]),
        }
    }

    fn callee(&mut self, func: &Operand<'tcx>) -> String {
        let tcx = self.cx.tcx;
        let fty = func.ty(self.body, tcx);
        match *fty.kind() {
            ty::FnDef(d, args) => {
                let mut items: Vec<(&str, String)> = Vec::new();
                items.push(("def", jstr(&self.cx.path(d))));
                items.push(("inst", jstr(&self.cx.path_args(d, args))));
                let targs: Vec<String> = args.types().map(|x| self.cx.ty(x).to_string()).collect();
                items.push(("targs", jarr(targs)));
                items.push(("local", jbool(d.is_local())));
                let sig = tcx.fn_sig(d).skip_binder();
                items.push(("unsafe", jbool(sig.safety().is_unsafe())));
                if let Some(tr) = tcx.trait_of_assoc(d) {
                    items.push(("trait", jstr(&self.cx.path(tr))));
                }
                if let Some(imp) = tcx.impl_of_assoc(d) {
                    if let Some(tr) = tcx.impl_opt_trait_id(imp) {
                        items.push(("impl_trait", jstr(&self.cx.path(tr))));
                    }
                }
                items.push(("name", jstr(tcx.item_name(d).as_str())));
                if tcx.intrinsic(d).is_some() {
                    items.push(("intrinsic", jbool(true)));
                }
                // resolve in the (possibly polymorphic) environment of the body
                let resolved = if args.has_escaping_bound_vars() {
                    None
                } else {
                    match Instance::try_resolve(tcx, self.env, d, args) {
                        Ok(Some(inst)) => Some(inst),
                        _ => None,
                    }
                };
                match resolved {
                    Some(inst) => {
                        let rd = inst.def_id();
                        items.push(("resolved", jstr(&self.cx.path(rd))));
                        items.push(("resolved_inst", jstr(&self.cx.path_args(rd, inst.args))));
                        items.push(("resolved_kind", jstr(inst_kind_name(&inst.def))));
                        items.push(("resolved_local", jbool(rd.is_local())));
                    }
                    None => {
                        items.push(("resolved", "null".into()));
                    }
                }
                jobj(items)
            }
            _ => jobj(vec![
                ("indirect", self.operand(func)),
                ("fty", self.cx.ty(fty).to_string()),
            ]),
        }
    }

    fn dump(&mut self) -> String {
        let tcx = self.cx.tcx;
        let body = self.body;
        // locals
        let mut names: HashMap<usize, String> = HashMap::new();
        for vdi in body.var_debug_info.iter() {
            if let mir::VarDebugInfoContents::Place(p) = vdi.value {
                if p.projection.is_empty() {
                    names.entry(p.local.index()).or_insert_with(|| vdi.name.to_string());
                }
            }
        }
        let mut locals = Vec::new();
        for (l, decl) in body.local_decls.iter_enumerated() {
            let mut items: Vec<(&str, String)> = vec![("ty", self.cx.ty(decl.ty).to_string())];
            if let Some(n) = names.get(&l.index()) {
                items.push(("name", jstr(n)));
            }
            locals.push(jobj(items));
        }
        // upvar debug info (closures): name -> field index of _1
        let mut upvars = Vec::new();
        for vdi in body.var_debug_info.iter() {
            if let mir::VarDebugInfoContents::Place(p) = vdi.value {
                if !p.projection.is_empty() && p.local.index() == 1 {
                    let pl = self.place(&p);
                    upvars.push(jobj(vec![("name", jstr(vdi.name.as_str())), ("place", pl)]));
                }
            }
        }
        let mut blocks = Vec::new();
        for (_bb, data) in body.basic_blocks.iter_enumerated() {
            let mut stmts = Vec::new();
            for st in data.statements.iter() {
                match &st.kind {
                    StatementKind::Assign(b) => {
                        let (pl, rv) = &**b;
                        let (line, macros, _) = self.cx.line_of(st.source_info.span);
                        let mut items = vec![
                            ("k", jstr("assign")),
                            ("pl", self.place(pl)),
                            ("rv", self.rvalue(rv)),
                            ("line", line.to_string()),
                        ];
                        if !macros.is_empty() {
                            items.push(("mac", jarr(macros.iter().map(|m| jstr(m)))));
                        }
                        stmts.push(jobj(items));
                    }
                    StatementKind::SetDiscriminant { place, variant_index } => {
                        let t = place.ty(body, tcx).ty;
                        let vname = match *t.kind() {
                            ty::Adt(def, _) if variant_index.index() < def.variants().len() => {
                                def.variant(*variant_index).name.to_string()
                            }
                            _ => format!("#{}", variant_index.index()),
                        };
                        stmts.push(jobj(vec![
                            ("k", jstr("setdiscr")),
                            ("pl", self.place(place)),
                            ("variant", jstr(&vname)),
                        ]));
                    }
                    StatementKind::StorageDead(l) => {
                        stmts.push(jobj(vec![("k", jstr("dead")), ("l", l.index().to_string())]));
                    }
                    StatementKind::Intrinsic(i) => {
                        stmts.push(jobj(vec![
                            ("k", jstr("intrinsic")),
                            ("v", jstr(&format!("{:?}", i))),
                        ]));
                    }
                    _ => {}
                }
            }
            let term = data.terminator();
            let (line, macros, _) = self.cx.line_of(term.source_info.span);
            let mut t: Vec<(&str, String)> = Vec::new();
            match &term.kind {
                TerminatorKind::Goto { target } => {
                    t.push(("k", jstr("goto")));
                    t.push(("t", target.index().to_string()));
                }
                TerminatorKind::SwitchInt { discr, targets } => {
                    t.push(("k", jstr("switch")));
                    t.push(("on", self.operand(discr)));
                    let dty = discr.ty(body, tcx);
                    t.push(("onty", self.cx.ty(dty).to_string()));
                    let ts: Vec<String> = targets
                        .iter()
                        .map(|(v, bb)| jarr(vec![jstr(&v.to_string()), bb.index().to_string()]))
                        .collect();
                    t.push(("targets", jarr(ts)));
                    t.push(("otherwise", targets.otherwise().index().to_string()));
                }
                TerminatorKind::UnwindResume => t.push(("k", jstr("resume"))),
                TerminatorKind::UnwindTerminate(_) => t.push(("k", jstr("terminate"))),
                TerminatorKind::Return => t.push(("k", jstr("return"))),
                TerminatorKind::Unreachable => t.push(("k", jstr("unreachable"))),
                TerminatorKind::Drop { place, target, unwind, .. } => {
                    t.push(("k", jstr("drop")));
                    t.push(("pl", self.place(place)));
                    let pty = place.ty(body, tcx).ty;
                    t.push(("ty", self.cx.ty(pty).to_string()));
                    t.push(("t", target.index().to_string()));
                    if let mir::UnwindAction::Cleanup(bb) = unwind {
                        t.push(("unwind", bb.index().to_string()));
                    }
                }
                TerminatorKind::Call { func, args, destination, target, unwind, call_source, fn_span } => {
                    t.push(("k", jstr("call")));
                    t.push(("callee", self.callee(func)));
                    let a: Vec<String> = args.iter().map(|x| self.operand(&x.node)).collect();
                    t.push(("args", jarr(a)));
                    t.push(("dest", self.place(destination)));
                    t.push(("t", jopt(target.map(|b| b.index().to_string()))));
                    if let mir::UnwindAction::Cleanup(bb) = unwind {
                        t.push(("unwind", bb.index().to_string()));
                    }
                    t.push(("src", jstr(&format!("{:?}", call_source))));
                    let (fl, _, _) = self.cx.line_of(*fn_span);
                    t.push(("fn_line", fl.to_string()));
                }
                TerminatorKind::TailCall { func, args, .. } => {
                    t.push(("k", jstr("tailcall")));
                    t.push(("callee", self.callee(func)));
                    let a: Vec<String> = args.iter().map(|x| self.operand(&x.node)).collect();
                    t.push(("args", jarr(a)));
                }
                TerminatorKind::Assert { cond, expected, msg, target, unwind } => {
                    t.push(("k", jstr("assert")));
                    t.push(("cond", self.operand(cond)));
                    t.push(("expected", jbool(*expected)));
                    let (kind, ops): (String, Vec<String>) = match &**msg {
                        AssertKind::BoundsCheck { len, index } => {
                            ("bounds".into(), vec![self.operand(len), self.operand(index)])
                        }
                        AssertKind::Overflow(op, a, b) => (
                            format!("overflow_{}", Self::binop(*op).0),
                            vec![self.operand(a), self.operand(b)],
                        ),
                        AssertKind::OverflowNeg(a) => ("overflow_neg".into(), vec![self.operand(a)]),
                        AssertKind::DivisionByZero(a) => ("div_zero".into(), vec![self.operand(a)]),
                        AssertKind::RemainderByZero(a) => ("rem_zero".into(), vec![self.operand(a)]),
                        AssertKind::MisalignedPointerDereference { .. } => ("misaligned".into(), vec![]),
                        AssertKind::NullPointerDereference => ("null_deref".into(), vec![]),
                        other => (format!("other:{:?}", other), vec![]),
                    };
                    t.push(("msg", jstr(&kind)));
                    t.push(("ops", jarr(ops)));
                    t.push(("t", target.index().to_string()));
                    if let mir::UnwindAction::Cleanup(bb) = unwind {
                        t.push(("unwind", bb.index().to_string()));
                    }
                }
                TerminatorKind::FalseEdge { real_target, .. } => {
                    t.push(("k", jstr("goto")));
                    t.push(("t", real_target.index().to_string()));
                }
                TerminatorKind::FalseUnwind { real_target, .. } => {
                    t.push(("k", jstr("goto")));
                    t.push(("t", real_target.index().to_string()));
                }
                other => {
                    t.push(("k", jstr("other")));
                    t.push(("v", jstr(&format!("{:?}", other))));
                }
            }
            t.push(("line", line.to_string()));
            if !macros.is_empty() {
                t.push(("mac", jarr(macros.iter().map(|m| jstr(m)))));
            }
            blocks.push(jobj(vec![
                ("stmts", jarr(stmts)),
                ("term", jobj(t)),
                ("cleanup", jbool(data.is_cleanup)),
            ]));
        }
        let _ = self.owner;
        jobj(vec![
            ("argc", body.arg_count.to_string()),
            ("locals", jarr(locals)),
            ("upvars", jarr(upvars)),
            ("blocks", jarr(blocks)),
        ])
    }
}

fn inst_kind_name(k: &InstanceKind<'_>) -> &'static str {
    match k {
        InstanceKind::Item(_) => "item",
        InstanceKind::Intrinsic(_) => "intrinsic",
        InstanceKind::VTableShim(_) => "vtable_shim",
        InstanceKind::ReifyShim(..) => "reify_shim",
        InstanceKind::FnPtrShim(..) => "fnptr_shim",
        InstanceKind::Virtual(..) => "virtual",
        InstanceKind::ClosureOnceShim { .. } => "closure_once_shim",
        InstanceKind::ConstructCoroutineInClosureShim { .. } => "coroutine_closure_shim",
        InstanceKind::ThreadLocalShim(_) => "tls_shim",
        InstanceKind::DropGlue(..) => "drop_glue",
        InstanceKind::CloneShim(..) => "clone_shim",
        InstanceKind::FnPtrAddrShim(..) => "fnptr_addr_shim",
        InstanceKind::FutureDropPollShim(..) => "future_drop_poll_shim",
        InstanceKind::AsyncDropGlueCtorShim(..) => "async_drop_ctor_shim",
        InstanceKind::AsyncDropGlue(..) => "async_drop_glue",
    }
}

// ------------------------------------------------------------------------------------------
// monomorphic call graph

struct InstRec {
    key: String,
    def: String,
    kind: &'static str,
    local: bool,
    descended: bool,
    // (basic block, callee instance id, how)
    calls: Vec<(usize, usize, &'static str)>,
    // block -> textual reason for something unresolved
    unresolved: Vec<(usize, String)>,
}

struct Mono<'tcx> {
    tcx: TyCtxt<'tcx>,
    ids: HashMap<Instance<'tcx>, usize>,
    recs: Vec<InstRec>,
    insts: Vec<Instance<'tcx>>,
    work: Vec<usize>,
    follow_drops: bool,
}

fn ty_mentions_local<'tcx>(t: Ty<'tcx>) -> bool {
    for ga in t.walk() {
        if let Some(t) = ga.as_type() {
            match *t.kind() {
                ty::Adt(d, _) if d.did().is_local() => return true,
                ty::Closure(d, _) if d.is_local() => return true,
                ty::FnDef(d, _) if d.is_local() => return true,
                ty::Dynamic(preds, ..) => {
                    if let Some(p) = preds.principal_def_id() {
                        if p.is_local() {
                            return true;
                        }
                    }
                }
                _ => {}
            }
        }
    }
    false
}

fn args_mention_local<'tcx>(args: GenericArgsRef<'tcx>) -> bool {
    args.types().any(|t| ty_mentions_local(t))
}

impl<'tcx> Mono<'tcx> {
    fn key(&self, inst: Instance<'tcx>) -> String {
        let base = with_no_trimmed_paths!(self.tcx.def_path_str_with_args(inst.def_id(), inst.args));
        match inst.def {
            InstanceKind::Item(_) => base,
            other => {
                let extra = match other {
                    InstanceKind::DropGlue(_, Some(t)) => format!("<{}>", with_no_trimmed_paths!(t.to_string())),
                    InstanceKind::CloneShim(_, t) | InstanceKind::FnPtrShim(_, t) => {
                        format!("<{}>", with_no_trimmed_paths!(t.to_string()))
                    }
                    _ => String::new(),
                };
                format!("{} [{}{}]", base, inst_kind_name(&other), extra)
            }
        }
    }

    fn intern(&mut self, inst: Instance<'tcx>) -> usize {
        if let Some(&i) = self.ids.get(&inst) {
            return i;
        }
        let i = self.recs.len();
        let did = inst.def_id();
        let rec = InstRec {
            key: self.key(inst),
            def: with_no_trimmed_paths!(self.tcx.def_path_str(did)),
            kind: inst_kind_name(&inst.def),
            local: did.is_local(),
            descended: false,
            calls: Vec::new(),
            unresolved: Vec::new(),
        };
        self.recs.push(rec);
        self.insts.push(inst);
        self.ids.insert(inst, i);
        self.work.push(i);
        i
    }

    fn should_descend(&self, inst: Instance<'tcx>) -> bool {
        let did = inst.def_id();
        match inst.def {
            InstanceKind::Intrinsic(_) | InstanceKind::Virtual(..) => false,
            InstanceKind::Item(_) => {
                if did.is_local() {
                    matches!(self.tcx.def_kind(did), DefKind::Fn | DefKind::AssocFn | DefKind::Closure)
                } else {
                    args_mention_local(inst.args)
                        && matches!(self.tcx.def_kind(did), DefKind::Fn | DefKind::AssocFn | DefKind::Closure | DefKind::Ctor(..))
                        && self.tcx.is_mir_available(did)
                }
            }
            InstanceKind::DropGlue(_, None) => false,
            InstanceKind::DropGlue(_, Some(t)) => self.follow_drops && ty_mentions_local(t),
            _ => args_mention_local(inst.args) || did.is_local(),
        }
    }

    fn mono_ty(&self, inst: Instance<'tcx>, t: Ty<'tcx>) -> Option<Ty<'tcx>> {
        inst.try_instantiate_mir_and_normalize_erasing_regions(
            self.tcx,
            TypingEnv::fully_monomorphized(),
            EarlyBinder::bind(t),
        )
        .ok()
    }

    fn add_generic_arg_callees(&mut self, from: usize, bb: usize, args: GenericArgsRef<'tcx>) {
        // fallback when a callee with local closures / fn items in its generic arguments cannot
        // be descended into: treat those closures / fn items as called
        let mut found = Vec::new();
        for t in args.types() {
            for ga in t.walk() {
                if let Some(t) = ga.as_type() {
                    match *t.kind() {
                        ty::Closure(d, a) if d.is_local() => found.push(Instance::new_raw(d, a)),
                        ty::FnDef(d, a) if d.is_local() => {
                            if let Ok(Some(i)) = Instance::try_resolve(
                                self.tcx,
                                TypingEnv::fully_monomorphized(),
                                d,
                                a,
                            ) {
                                found.push(i)
                            }
                        }
                        _ => {}
                    }
                }
            }
        }
        for i in found {
            let id = self.intern(i);
            self.recs[from].calls.push((bb, id, "generic-arg"));
        }
    }

    fn unsize_edges(&mut self, from: usize, bb: usize, src: Ty<'tcx>, dst: Ty<'tcx>) {
        let tcx = self.tcx;
        fn pointee<'tcx>(t: Ty<'tcx>) -> Option<Ty<'tcx>> {
            if let Some(b) = t.boxed_ty() {
                return Some(b);
            }
            t.builtin_deref(true)
        }
        let (mut s, mut d) = (src, dst);
        // peel pointer layers; also peel single-field wrapper structs like Rc/Arc best-effort
        let mut guard = 0;
        loop {
            guard += 1;
            if guard > 8 {
                return;
            }
            match (pointee(s), pointee(d)) {
                (Some(a), Some(b)) => {
                    s = a;
                    d = b;
                    break;
                }
                _ => match (s.kind(), d.kind()) {
                    (ty::Adt(da, aa), ty::Adt(db, ab)) if da == db => {
                        // CoerceUnsized on a smart pointer: compare the first differing type arg
                        let mut found = None;
                        for (x, y) in aa.types().zip(ab.types()) {
                            if x != y {
                                found = Some((x, y));
                                break;
                            }
                        }
                        match found {
                            Some((x, y)) => {
                                s = x;
                                d = y;
                                break;
                            }
                            None => return,
                        }
                    }
                    _ => return,
                },
            }
        }
        if let ty::Dynamic(preds, ..) = d.kind() {
            if matches!(s.kind(), ty::Dynamic(..)) {
                return;
            }
            if let Some(principal) = preds.principal() {
                let trait_ref = tcx.instantiate_bound_regions_with_erased(principal.with_self_ty(tcx, s));
                let entries = tcx.vtable_entries(trait_ref);
                let mut methods = Vec::new();
                for e in entries.iter() {
                    if let ty::VtblEntry::Method(inst) = e {
                        methods.push(*inst);
                    }
                }
                for m in methods {
                    let id = self.intern(m);
                    self.recs[from].calls.push((bb, id, "vtable"));
                }
            }
        }
    }

    fn process(&mut self, idx: usize) {
        let tcx = self.tcx;
        let inst = self.insts[idx];
        if !self.should_descend(inst) {
            return;
        }
        self.recs[idx].descended = true;
        let body: &Body<'tcx> = tcx.instance_mir(inst.def);
        for (bb, data) in body.basic_blocks.iter_enumerated() {
            let bbi = bb.index();
            for st in data.statements.iter() {
                if let StatementKind::Assign(b) = &st.kind {
                    let (_, rv) = &**b;
                    if let Rvalue::Cast(CastKind::PointerCoercion(pc, _), op, target) = rv {
                        let src = op.ty(body, tcx);
                        let (Some(src), Some(dst)) = (self.mono_ty(inst, src), self.mono_ty(inst, *target)) else {
                            self.recs[idx].unresolved.push((bbi, "cast type".into()));
                            continue;
                        };
                        match pc {
                            PointerCoercion::Unsize => self.unsize_edges(idx, bbi, src, dst),
                            PointerCoercion::ReifyFnPointer(_) => {
                                if let ty::FnDef(d, a) = *src.kind() {
                                    if let Ok(Some(i)) = Instance::try_resolve(tcx, TypingEnv::fully_monomorphized(), d, a) {
                                        let id = self.intern(i);
                                        self.recs[idx].calls.push((bbi, id, "reify"));
                                    }
                                }
                            }
                            PointerCoercion::ClosureFnPointer(_) => {
                                if let ty::Closure(d, a) = *src.kind() {
                                    let id = self.intern(Instance::new_raw(d, a));
                                    self.recs[idx].calls.push((bbi, id, "reify"));
                                }
                            }
                            _ => {}
                        }
                    }
                }
            }
            let term = data.terminator();
            match &term.kind {
                TerminatorKind::Call { func, .. } | TerminatorKind::TailCall { func, .. } => {
                    let fty = func.ty(body, tcx);
                    let Some(fty) = self.mono_ty(inst, fty) else {
                        self.recs[idx].unresolved.push((bbi, "callee type".into()));
                        continue;
                    };
                    match *fty.kind() {
                        ty::FnDef(d, a) => {
                            match Instance::try_resolve(tcx, TypingEnv::fully_monomorphized(), d, a) {
                                Ok(Some(callee)) => {
                                    let how = match callee.def {
                                        InstanceKind::Virtual(..) => "virtual",
                                        InstanceKind::Intrinsic(..) => "intrinsic",
                                        _ => "direct",
                                    };
                                    let id = self.intern(callee);
                                    self.recs[idx].calls.push((bbi, id, how));
                                    if !self.should_descend(callee)
                                        && !matches!(callee.def, InstanceKind::Virtual(..))
                                        && args_mention_local(callee.args)
                                    {
                                        self.add_generic_arg_callees(idx, bbi, callee.args);
                                    }
                                }
                                _ => {
                                    let s = with_no_trimmed_paths!(tcx.def_path_str_with_args(d, a));
                                    self.recs[idx].unresolved.push((bbi, format!("unresolved {}", s)));
                                }
                            }
                        }
                        _ => {
                            let s = with_no_trimmed_paths!(fty.to_string());
                            self.recs[idx].unresolved.push((bbi, format!("indirect {}", s)));
                        }
                    }
                }
                TerminatorKind::Drop { place, .. } => {
                    if self.follow_drops {
                        let pty = place.ty(body, tcx).ty;
                        if let Some(pty) = self.mono_ty(inst, pty) {
                            if ty_mentions_local(pty) && pty.needs_drop(tcx, TypingEnv::fully_monomorphized()) {
                                let di = Instance::resolve_drop_in_place(tcx, pty);
                                let id = self.intern(di);
                                self.recs[idx].calls.push((bbi, id, "drop"));
                            }
                        }
                    }
                }
                _ => {}
            }
        }
    }

    fn run(&mut self) {
        while let Some(i) = self.work.pop() {
            self.process(i);
        }
    }
}

// ------------------------------------------------------------------------------------------

struct Cb;

impl Callbacks for Cb {
    fn after_analysis<'tcx>(&mut self, _c: &Compiler, tcx: TyCtxt<'tcx>) -> Compilation {
        let want = std::env::var("RRSS_CRATE").unwrap_or_else(|_| "rrss".into());
        let name = tcx.crate_name(LOCAL_CRATE).to_string();
        if name != want {
            return Compilation::Continue;
        }
        let Ok(dir) = std::env::var("RRSS_FACTS_DIR") else {
            return Compilation::Continue;
        };
        let profile = std::env::var("RRSS_PROFILE").unwrap_or_else(|_| "dev".into());
        let is_bin = tcx
            .crate_types()
            .iter()
            .any(|t| matches!(t, rustc_session::config::CrateType::Executable));
        let is_test = tcx.sess.opts.test;
        if is_test {
            return Compilation::Continue;
        }
        let kind = if is_bin { "bin" } else { "lib" };
        let out = dump_crate(tcx, &name, kind, &profile);
        let path = format!("{}/{}-{}-{}.json", dir, name, kind, profile);
        let tmp = format!("{}.tmp.{}", path, std::process::id());
        std::fs::write(&tmp, out).expect("write facts");
        std::fs::rename(&tmp, &path).expect("rename facts");
        Compilation::Continue
    }
}

fn dump_crate<'tcx>(tcx: TyCtxt<'tcx>, name: &str, kind: &str, profile: &str) -> String {
    let mut cx = Ctx { tcx, tys: Vec::new(), ty_ids: HashMap::new(), file_cache: HashMap::new() };
    let _ = &cx.file_cache;

    // ---- ADTs, traits, impls
    let mut adts: Vec<String> = Vec::new();
    let mut traits: Vec<String> = Vec::new();
    let mut impls: Vec<String> = Vec::new();
    let mut local_drop_impls = 0usize;
    let drop_trait = tcx.lang_items().drop_trait();
    let items = tcx.hir_crate_items(());
    for id in items.definitions() {
        let did = id.to_def_id();
        match tcx.def_kind(did) {
            DefKind::Struct | DefKind::Enum | DefKind::Union => {
                let adt = tcx.adt_def(did);
                let mut variants = Vec::new();
                for (vidx, v) in adt.variants().iter_enumerated() {
                    let discr = if adt.is_enum() {
                        adt.discriminant_for_variant(tcx, vidx).val.to_string()
                    } else {
                        "0".to_string()
                    };
                    let mut fields = Vec::new();
                    for f in v.fields.iter() {
                        let fty = tcx.type_of(f.did).instantiate_identity().skip_norm_wip();
                        fields.push(jobj(vec![
                            ("name", jstr(f.name.as_str())),
                            ("ty", cx.ty(fty).to_string()),
                            ("pub", jbool(f.vis.is_public())),
                        ]));
                    }
                    variants.push(jobj(vec![
                        ("name", jstr(v.name.as_str())),
                        ("discr", jstr(&discr)),
                        ("fields", jarr(fields)),
                    ]));
                }
                let k = if adt.is_enum() { "enum" } else if adt.is_union() { "union" } else { "struct" };
                let (file, lo, hi, _) = cx.span_info(tcx.def_span(did));
                let generics: Vec<String> = tcx
                    .generics_of(did)
                    .own_params
                    .iter()
                    .filter(|p| matches!(p.kind, ty::GenericParamDefKind::Type { .. }))
                    .map(|p| jstr(p.name.as_str()))
                    .collect();
                adts.push(jobj(vec![
                    ("path", jstr(&cx.path(did))),
                    ("kind", jstr(k)),
                    ("variants", jarr(variants)),
                    ("file", jstr(&file)),
                    ("lo", lo.to_string()),
                    ("hi", hi.to_string()),
                    ("generics", jarr(generics)),
                ]));
            }
            DefKind::Trait => {
                let mut methods = Vec::new();
                for item in tcx.associated_items(did).in_definition_order() {
                    if item.is_fn() {
                        methods.push(jobj(vec![
                            ("name", jstr(item.name().as_str())),
                            ("def", jstr(&cx.path(item.def_id))),
                            ("has_default", jbool(item.defaultness(tcx).has_value())),
                        ]));
                    }
                }
                let supers: Vec<String> = tcx
                    .explicit_super_predicates_of(did)
                    .iter_identity_copied()
                    .map(|x| x.skip_norm_wip())
                    .filter_map(|(p, _)| p.as_trait_clause().map(|t| jstr(&cx.path(t.def_id()))))
                    .collect();
                traits.push(jobj(vec![
                    ("path", jstr(&cx.path(did))),
                    ("methods", jarr(methods)),
                    ("supertraits", jarr(supers)),
                ]));
            }
            DefKind::Impl { of_trait } => {
                let self_ty = tcx.type_of(did).instantiate_identity().skip_norm_wip();
                let mut it: Vec<(&str, String)> = vec![
                    ("self_ty", cx.ty(self_ty).to_string()),
                    ("derived", jbool(tcx.is_automatically_derived(did))),
                ];
                if of_trait {
                    let tr = tcx.impl_trait_ref(did).instantiate_identity().skip_norm_wip();
                    it.push(("trait", jstr(&cx.path(tr.def_id))));
                    it.push(("trait_ref", jstr(&with_no_trimmed_paths!(tr.to_string()))));
                    if Some(tr.def_id) == drop_trait {
                        local_drop_impls += 1;
                    }
                }
                let mut methods = Vec::new();
                for item in tcx.associated_items(did).in_definition_order() {
                    if item.is_fn() {
                        methods.push(jobj(vec![
                            ("name", jstr(item.name().as_str())),
                            ("def", jstr(&cx.path(item.def_id))),
                        ]));
                    }
                }
                it.push(("methods", jarr(methods)));
                let (file, lo, _, _) = cx.span_info(tcx.def_span(did));
                it.push(("file", jstr(&file)));
                it.push(("lo", lo.to_string()));
                impls.push(jobj(it));
            }
            _ => {}
        }
    }

    // ---- function-like bodies
    let mut fns: Vec<String> = Vec::new();
    let mut roots: Vec<DefId> = Vec::new();
    let mut n_bodies = 0usize;
    for ldid in tcx.hir_body_owners() {
        let did = ldid.to_def_id();
        let dk = tcx.def_kind(did);
        let fn_like = matches!(dk, DefKind::Fn | DefKind::AssocFn | DefKind::Closure);
        if !fn_like {
            continue;
        }
        n_bodies += 1;
        let body = tcx.optimized_mir(did);
        let env = TypingEnv::post_analysis(tcx, did);
        let (file, lo, hi, macros) = cx.span_info(tcx.def_span(did));
        let mut it: Vec<(&str, String)> = Vec::new();
        it.push(("path", jstr(&cx.path(did))));
        it.push(("kind", jstr(match dk {
            DefKind::Fn => "fn",
            DefKind::AssocFn => "method",
            _ => "closure",
        })));
        it.push(("file", jstr(&file)));
        it.push(("lo", lo.to_string()));
        it.push(("hi", hi.to_string()));
        if !macros.is_empty() {
            it.push(("mac", jarr(macros.iter().map(|m| jstr(m)))));
        }
        let parent = tcx.parent(did);
        it.push(("parent", jstr(&cx.path(parent))));
        let root = tcx.typeck_root_def_id(did);
        it.push(("root", jstr(&cx.path(root))));
        if matches!(dk, DefKind::Fn | DefKind::AssocFn) {
            let sig = tcx.fn_sig(did).skip_binder();
            it.push(("unsafe", jbool(sig.safety().is_unsafe())));
            it.push(("name", jstr(tcx.item_name(did).as_str())));
            it.push(("pub", jbool(tcx.visibility(did).is_public())));
            if let Some(imp) = tcx.impl_of_assoc(did) {
                let self_ty = tcx.type_of(imp).instantiate_identity().skip_norm_wip();
                it.push(("impl_self", cx.ty(self_ty).to_string()));
                if let Some(tr) = tcx.impl_opt_trait_id(imp) {
                    it.push(("impl_trait", jstr(&cx.path(tr))));
                }
                it.push(("derived", jbool(tcx.is_automatically_derived(imp))));
            }
            if let Some(tr) = tcx.trait_of_assoc(did) {
                it.push(("trait_default_of", jstr(&cx.path(tr))));
            }
            let generic = tcx.generics_of(did).requires_monomorphization(tcx);
            it.push(("generic", jbool(generic)));
            if !generic {
                roots.push(did);
            }
        }
        let (_, blo, bhi, _) = cx.span_info(body.span);
        it.push(("body_lo", blo.to_string()));
        it.push(("body_hi", bhi.to_string()));
        let ret_ty = body.local_decls[mir::RETURN_PLACE].ty;
        it.push(("ret", cx.ty(ret_ty).to_string()));
        let mut bd = BodyDump { cx: &mut cx, body, owner: did, env };
        it.push(("mir", bd.dump()));
        // promoteds
        let promoted = tcx.promoted_mir(did);
        let mut ps = Vec::new();
        for (_pi, pb) in promoted.iter_enumerated() {
            let mut bd = BodyDump { cx: &mut cx, body: pb, owner: did, env };
            ps.push(bd.dump());
        }
        it.push(("promoted", jarr(ps)));
        fns.push(jobj(it));
    }

    // ---- monomorphic graph
    let mut mono = Mono {
        tcx,
        ids: HashMap::new(),
        recs: Vec::new(),
        insts: Vec::new(),
        work: Vec::new(),
        follow_drops: local_drop_impls > 0,
    };
    let mut root_ids = Vec::new();
    for r in roots.iter() {
        let inst = Instance::mono(tcx, *r);
        root_ids.push(mono.intern(inst));
    }
    mono.run();
    let mut mono_insts = Vec::new();
    for (i, r) in mono.recs.iter().enumerate() {
        let inst = mono.insts[i];
        let mut calls: BTreeMap<(usize, usize, &'static str), ()> = BTreeMap::new();
        for c in r.calls.iter() {
            calls.insert(*c, ());
        }
        let cj: Vec<String> = calls
            .keys()
            .map(|(bb, id, how)| jarr(vec![bb.to_string(), id.to_string(), jstr(how)]))
            .collect();
        let uj: Vec<String> = r
            .unresolved
            .iter()
            .map(|(bb, s)| jarr(vec![bb.to_string(), jstr(s)]))
            .collect();
        let targs: Vec<String> = inst.args.types().map(|t| cx.ty(t).to_string()).collect();
        mono_insts.push(jobj(vec![
            ("key", jstr(&r.key)),
            ("def", jstr(&r.def)),
            ("kind", jstr(r.kind)),
            ("local", jbool(r.local)),
            ("descended", jbool(r.descended)),
            ("targs", jarr(targs)),
            ("calls", jarr(cj)),
            ("unresolved", jarr(uj)),
        ]));
    }
    let _ = HashSet::<usize>::new();

    let meta = jobj(vec![
        ("crate", jstr(name)),
        ("kind", jstr(kind)),
        ("profile", jstr(profile)),
        ("driver_version", jstr(DRIVER_VERSION)),
        ("rustc", jstr(&rustc_version())),
        ("debug_assertions", jbool(tcx.sess.opts.debug_assertions)),
        ("overflow_checks", jbool(tcx.sess.overflow_checks())),
        ("n_bodies", n_bodies.to_string()),
        ("local_drop_impls", local_drop_impls.to_string()),
    ]);
    let tys = std::mem::take(&mut cx.tys);
    jobj(vec![
        ("meta", meta),
        ("tys", jarr(tys)),
        ("adts", jarr(adts)),
        ("traits", jarr(traits)),
        ("impls", jarr(impls)),
        ("fns", jarr(fns)),
        ("mono", jobj(vec![
            ("roots", jarr(root_ids.iter().map(|i| i.to_string()))),
            ("insts", jarr(mono_insts)),
        ])),
    ])
}

fn rustc_version() -> String {
    option_env!("CFG_VERSION").unwrap_or("nightly").to_string()
}

fn main() {
    let mut args: Vec<String> = std::env::args().collect();
    // RUSTC_WORKSPACE_WRAPPER passes the real rustc as argv[1]
    if args.len() > 1 && (args[1].ends_with("rustc") || args[1].contains("/rustc")) {
        args.remove(1);
    }
    let mut cb = Cb;
    rustc_driver::run_compiler(&args, &mut cb);
}
