use rrss::{
    cli::linter::lint,
    frontend::parser::parse,
    linter::{standard_linter, Diag},
};

fn fresh(code: &str) -> Vec<Diag> {
    standard_linter().run(&parse(code).unwrap()).diags
}

fn cli(code: &str) -> Vec<Diag> {
    lint(code).expect("program parses").diags
}

fn repeated(name: &str, line: u32) -> Diag {
    Diag {
        issue: format!(
            "Using identifier `{}` more than once in a row sounds kinda bad",
            name
        ),
        suggestions: vec!["Consider using a pronoun such as `it`".into()],
        line,
    }
}

// the first mention of a program has no previous mention, so it is never reported,
// no matter what was linted before on the same thread

#[test]
fn same_program_linted_twice() {
    let code = "listen to the music\nshout the music\n";
    assert_eq!(cli(code), [repeated("the music", 2)]);
    assert_eq!(cli(code), [repeated("the music", 2)]);
}

#[test]
fn first_mention_equals_last_mention_of_previous_program() {
    assert_eq!(cli("my heart is true\nshout it\n"), []);
    assert_eq!(cli("shout my heart\n"), []);
}

#[test]
fn cli_lint_agrees_with_a_fresh_linter_over_a_sequence() {
    let programs = [
        "let x be 5\nshout x\n",
        "build x up\n",
        "x is 5\nlet y be x\n",
        "polly wants a cracker\ngive a cracker back\n\nshout polly taking x\n",
        "listen to x\n",
    ];
    for code in programs {
        assert_eq!(cli(code), fresh(code), "linting {:?}", code);
    }
}
