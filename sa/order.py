"""ORDERINGS: decide code that touches its inputs only through comparisons, by enumerating the finite set of order
configurations of those inputs.

The inputs are symbolic scalars grouped in *chains* (e.g. the two line numbers, the two columns); a configuration assigns
every chain a weak order of its members.  Under one configuration every comparison between members of one chain has a
definite answer, so the KIND interpreter follows a single path; a comparison across chains (a line against a column) has no
answer in this abstraction and is reported as undecidable (fail closed).  Derived PartialOrd/Ord/PartialEq of local structs
are lexicographic in field order by definition of `derive`; hand-written impls are interpreted from their MIR.  No code is
executed and no solver is used: it is abstract interpretation over the abstract domain "weak orders of k symbols"."""
import itertools

from . import kind
from .kind import c, is_e, E

ORD = "std::cmp::Ordering"
OPT = "std::option::Option"


def weak_orders(names):
    """all weak orders of `names` as dict name -> rank"""
    names = list(names)
    out = []
    n = len(names)
    for ranks in itertools.product(range(n), repeat=n):
        used = sorted(set(ranks))
        if used != list(range(len(used))):
            continue
        out.append(dict(zip(names, ranks)))
    return out


class Config:
    def __init__(self, chains, ranks):
        self.chain_of = {}
        for ci, ch in enumerate(chains):
            for n in ch:
                self.chain_of[n] = ci
        self.rank = ranks  # name -> rank
        self.undecided = []

    def cmp_syms(self, a, b):
        if a == b:
            return 0
        if a in self.chain_of and b in self.chain_of and self.chain_of[a] == self.chain_of[b]:
            ra, rb = self.rank[a], self.rank[b]
            return (ra > rb) - (ra < rb)
        self.undecided.append((a, b))
        return None

    def describe(self):
        by = {}
        for n, ci in self.chain_of.items():
            by.setdefault(ci, []).append(n)
        parts = []
        for ci in sorted(by):
            ns = sorted(by[ci], key=lambda n: (self.rank[n], n))
            s = ns[0]
            for p, q in zip(ns, ns[1:]):
                s += (" = " if self.rank[p] == self.rank[q] else " < ") + q
            parts.append(s)
        return "; ".join(parts)


def _derived(F, adt, trait):
    for im in F.impls:
        if im.get("trait") == trait and im.get("derived") and im.get("trait_ref", "").startswith("<%s as " % adt):
            return True
    return False


def compare(I, cfg, a, b, trait="std::cmp::PartialOrd"):
    """-1/0/1, or None when not decidable in the abstraction"""
    if a[0] == "sym" and b[0] == "sym":
        return cfg.cmp_syms(a[1], b[1])
    if a[0] == "c" and b[0] == "c":
        try:
            return (a[1] > b[1]) - (a[1] < b[1])
        except TypeError:
            return None
    if is_e(a) and is_e(b) and a[1] == b[1]:
        if not _derived(I.F, a[1], trait) and not _derived(I.F, a[1], "std::cmp::PartialOrd"):
            return None
        if a[2] != b[2]:
            da, db = I.discr_of(a[1], a[2]), I.discr_of(b[1], b[2])
            if da is None or db is None:
                return None
            return (da > db) - (da < db)
        for x, y in zip(a[3], b[3]):
            r = compare(I, cfg, x, y, trait)
            if r is None:
                return None
            if r != 0:
                return r
        return 0
    return None


def _fallback(I, fn, st, t, args, depth, a, b):
    """not decidable structurally: interpret a hand-written local impl, else leave an opaque term"""
    res = t["callee"].get("resolved")
    target = I.F.fn(res) if res else None
    if target is not None and target.mir and not target.is_derived():
        for o in I.run(target, args, depth + 1):
            yield o.ret, None, o.conds
    else:
        yield ("call", t["callee"]["def"], (kind._short(a), kind._short(b))), None, ()


def models(cfg):
    def rel(test):
        def m(I, fn, st, t, args, depth):
            a, b = I.deref_value(st, args[0]), I.deref_value(st, args[1])
            r = compare(I, cfg, a, b)
            if r is None:
                yield from _fallback(I, fn, st, t, args, depth, a, b)
            else:
                yield c(test(r)), None, ()
        return m

    def m_cmp(I, fn, st, t, args, depth):
        a, b = I.deref_value(st, args[0]), I.deref_value(st, args[1])
        r = compare(I, cfg, a, b)
        if r is None:
            yield from _fallback(I, fn, st, t, args, depth, a, b)
        else:
            yield E(ORD, {-1: "Less", 0: "Equal", 1: "Greater"}[r]), None, ()

    def m_pcmp(I, fn, st, t, args, depth):
        for ret, w, cs in m_cmp(I, fn, st, t, args, depth):
            if is_e(ret, ORD):
                yield E(OPT, "Some", ret), None, cs
            else:
                yield ret, w, cs

    def pick(which):
        def m(I, fn, st, t, args, depth):
            a, b = I.deref_value(st, args[0]), I.deref_value(st, args[1])
            r = compare(I, cfg, a, b)
            if r is None:
                yield ("call", t["callee"]["def"], (kind._short(a), kind._short(b))), None, ()
            elif which == "max":
                yield (b if r <= 0 else a), None, ()   # Ord::max returns the second argument on equality
            else:
                yield (a if r <= 0 else b), None, ()
        return m
    return {
        "std::cmp::PartialOrd::lt": rel(lambda r: r < 0), "std::cmp::PartialOrd::le": rel(lambda r: r <= 0),
        "std::cmp::PartialOrd::gt": rel(lambda r: r > 0), "std::cmp::PartialOrd::ge": rel(lambda r: r >= 0),
        "std::cmp::PartialEq::eq": rel(lambda r: r == 0), "std::cmp::PartialEq::ne": rel(lambda r: r != 0),
        "std::cmp::Ord::cmp": m_cmp, "std::cmp::PartialOrd::partial_cmp": m_pcmp,
        "std::cmp::Ord::max": pick("max"), "std::cmp::Ord::min": pick("min"),
    }


def oracle(cfg):
    def f(op, a, b):
        if a[0] == "sym" and b[0] == "sym":
            r = cfg.cmp_syms(a[1], b[1])
            if r is None:
                return None
            return {"eq": r == 0, "ne": r != 0, "lt": r < 0, "le": r <= 0, "gt": r > 0, "ge": r >= 0}.get(op)
        return None
    return f


def interp(F, cfg):
    I = kind.Interp(F, models=models(cfg))
    I.oracle = oracle(cfg)
    return I
