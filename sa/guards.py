"""Guard facts named by reviewed census entries: cheap structural facts re-checked on every run.
Each guard gets (ctx, F, body, site) and returns (ok, text)."""
from .census import guard
from .core import op_place, op_local, callee_def
from .flow import origins
from . import tables
from .rules import common
from .rules.common import is_callee, flows_into


def _callers(F, path):
    """[(fn, bb, term)] call sites of the function with def path `path` (by generic def or resolved path)"""
    out = []
    for fn in F.all_bodies(tests=False):
        for bi, t in fn.calls():
            c = t["callee"]
            if "indirect" in c:
                continue
            if c["def"] == path or c.get("resolved") == path:
                out.append((fn, bi, t))
    return out


def _closure_use(F, closure_fn):
    """(parent fn, bb of the call the closure value is handed to, term) or None"""
    parent = F.fn(closure_fn.d["parent"])
    if parent is None:
        return None
    for bi, si, s in parent.assigns():
        a = s["rv"].get("agg")
        if isinstance(a, dict) and a.get("closure") == closure_fn.path:
            l = s["pl"]["l"]
            for cb, ct in parent.calls():
                for a_ in ct["args"]:
                    if any(d[0] == "agg" and d[1] == bi and d[2] == si for d, _ in origins(parent, a_)):
                        return parent, cb, ct
    return None


def _dominated_by_edge(fn, bb, switch_bb, target):
    """is bb reachable only through the edge switch_bb -> target?  (bb not reachable from entry when that edge is cut)"""
    # remove the edge and test reachability
    seen = set()
    st = [0]
    while st:
        b = st.pop()
        if b in seen:
            continue
        seen.add(b)
        for s in fn.succs()[b]:
            if b == switch_bb and s == target:
                continue
            st.append(s)
    # the switch may reach `target` through another value too; then the edge is not distinguishing
    return bb not in seen


def _bool_edges(fn, call_bb):
    """for a call returning bool whose result is switched on in the next block: (switch bb, false target, true target)"""
    t = fn.term(call_bb)
    nxt = t.get("t")
    if nxt is None:
        return None
    # follow straight gotos / moves
    cur = nxt
    for _ in range(4):
        sw = fn.term(cur)
        if sw["k"] == "switch":
            srcs = origins(fn, sw["on"])
            if any(d[0] == "call" and d[1] == call_bb for d, _ in srcs):
                zero = [tg for v, tg in sw["targets"] if v == "0"]
                if zero:
                    return cur, zero[0], sw["otherwise"]
            return None
        if sw["k"] == "goto":
            cur = sw["t"]
        else:
            return None
    return None


@guard("units-clean")
def g_units(ctx, F, body, site):
    return True, "range validity is decided and reported by C01.R2 (UNITS)"


@guard("offset-from-guarded")
def g_offset_from(ctx, F, body, site):
    use = _closure_use(F, body)
    if use is None:
        return False, "the closure is not handed to a call"
    parent, cb, ct = use
    if not is_callee(ct, "core::bool::<impl bool>::then"):
        return False, "the closure is not the argument of bool::then"
    recv = op_local(ct["args"][0])
    defs = parent.defs().get(recv, [])
    kinds = set()
    for d in defs:
        if d[0] == "stmt":
            rv = d[3]["rv"]
            if rv.get("use", {}).get("const", {}).get("int") == "1":
                # `true` may only be assigned on the true edge of contains()
                ok = False
                for bi, t in parent.calls():
                    if is_callee(t, "std::ops::Range::<Idx>::contains"):
                        e = _bool_edges(parent, bi)
                        if e and _dominated_by_edge(parent, d[1], e[0], e[2]):
                            ok = True
                kinds.add("true-under-contains" if ok else "true-unguarded")
            elif rv.get("bin") == "eq":
                kinds.add("eq")
            else:
                kinds.add("other")
        else:
            kinds.add("call")
    ok = kinds and kinds <= {"true-under-contains", "eq"}
    return ok, "" if ok else "the condition of bool::then is not `range.contains(&cursor) || range.end == cursor` (%s)" % sorted(kinds)


def _const_str_args(F, path, arg_idx, depth=0):
    """all string constants reaching argument arg_idx of calls to `path` (following one wrapper level through
    parameters and closure captures); None in the list marks a non-constant"""
    out = []
    for fn, bi, t in _callers(F, path):
        if fn.in_test_file():
            continue
        if arg_idx >= len(t["args"]):
            out.append(None)
            continue
        for d, p in origins(fn, t["args"][arg_idx]):
            if d[0] == "const":
                out.append(d[1])
            elif d[0] == "param" and depth < 2:
                top = fn
                pidx = d[1]
                if fn.kind == "closure" and d[1] == 1:
                    # captured variable: find what the parent put there
                    parent = F.fn(fn.d["parent"])
                    fidx = None
                    # field index of the capture
                    for dd, pp in origins(fn, t["args"][arg_idx]):
                        pass
                    pl = None
                    # the capture index is the first closure field on the path
                    for st_fn, bi2, si2, s2 in ((fn,) + x for x in fn.assigns()):
                        pass
                    cap = None
                    for bb2, si2, s2 in fn.assigns():
                        rv = s2["rv"]
                        src = op_place(rv.get("use", {})) if "use" in rv else (rv.get("ref") if "ref" in rv else None)
                        if src is not None and src["l"] == 1:
                            for e in src["p"]:
                                if isinstance(e, dict) and e.get("of") == "closure":
                                    cap = e["f"]
                    if parent is None or cap is None:
                        out.append(None)
                        continue
                    for bb2, si2, s2 in parent.assigns():
                        a = s2["rv"].get("agg")
                        if isinstance(a, dict) and a.get("closure") == fn.path:
                            for d3, p3 in origins(parent, s2["rv"]["ops"][cap]):
                                if d3[0] == "const":
                                    out.append(d3[1])
                                elif d3[0] == "param":
                                    out.extend(_const_str_args(F, parent.path, d3[1] - 1, depth + 1))
                                else:
                                    out.append(None)
                else:
                    out.extend(_const_str_args(F, fn.path, pidx - 1, depth + 1))
            else:
                out.append(None)
    return out


@guard("scan-for-text-literals")
def g_scan_for_text(ctx, F, body, site):
    vals = _const_str_args(F, body.path, 2)
    if not vals:
        return False, "no call site found"
    bad = [v for v in vals if v is None or not isinstance(v, str) or "\n" in v or not v.isascii()]
    return not bad, "" if not bad else "a caller passes %r (must be an ASCII literal without line break)" % (bad[0],)


@guard("is-ispelled-literals")
def g_is_ispelled(ctx, F, body, site):
    vals = _const_str_args(F, body.path, 1)
    if not vals:
        return False, "no call site found"
    bad = [v for v in vals if v is None or not isinstance(v, str) or not all(ch.islower() for ch in v)]
    return not bad, "" if not bad else "a caller passes %r (must be a lower-case literal)" % (bad[0],)


@guard("negative-number-caller")
def g_negative_number(ctx, F, body, site):
    callers = [(fn, bi, t) for fn, bi, t in _callers(F, body.path) if not fn.in_test_file()]
    if not callers:
        return False, "no caller"
    for fn, bi, t in callers:
        ok = False
        for b2, t2 in fn.calls():
            if is_callee(t2, "current_or_error"):
                # its result goes through `?`; the call must be dominated by the Continue arm
                for b3, t3 in fn.calls():
                    if callee_def(t3) == "std::ops::Try::branch" and flows_into(fn, b2, t3["args"][0]):
                        sw = tables.arms_complete(fn, t3["t"]) if t3.get("t") is not None else None
                        if sw and "Continue" in sw[2] and _dominated_by_edge(fn, bi, t3["t"], sw[2]["Continue"]):
                            ok = True
        if not ok:
            return False, "%s calls it without `current_or_error()?` having succeeded first" % fn.path
    return True, ""


@guard("parameter-seps-capacity")
def g_parameter_seps(ctx, F, body, site):
    n_arr = None
    for bi, si, s in body.assigns():
        a = s["rv"].get("agg")
        if isinstance(a, dict) and "array" in a:
            n_arr = len(s["rv"]["ops"])
    caps = set()
    for l in body.locals:
        s = F.ty(l["ty"]).s
        if s.startswith("arrayvec::ArrayVec<"):
            caps.add(s.rsplit(",", 1)[-1].strip(" >"))
    pushes = [bi for bi, t in body.calls() if is_callee(t, "push_unchecked", "arrayvec::ArrayVec::<T, CAP>::push")]
    in_loop = any(bi in scc for bi in pushes for scc in body.sccs())
    ok = n_arr is not None and len(caps) == 1 and caps.pop().isdigit() is not None and len(pushes) <= 1 and not in_loop
    if ok:
        cap = [F.ty(l["ty"]).s for l in body.locals if F.ty(l["ty"]).s.startswith("arrayvec::ArrayVec<")][0].rsplit(",", 1)[-1].strip(" >")
        try:
            ok = n_arr + len(pushes) <= int(cap)
        except ValueError:
            ok = False
    return ok, "" if ok else "array literal length + pushes exceeds the ArrayVec capacity (or shape not recognised)"


@guard("capitalized-callback-infallible")
def g_capitalized(ctx, F, body, site):
    # the closures of this function that are handed to match_and_consume_while must not construct Err
    for cl in F.closures_of(body):
        if not common.result_err(F, F.ty(cl.d["ret"])):
            continue
        for bi, si, s in cl.assigns():
            a = s["rv"].get("agg")
            if isinstance(a, dict) and a.get("adt") == "std::result::Result" and a.get("variant") == "Err":
                return False, "the callback %s constructs an Err" % cl.path
        for bi, t in cl.calls():
            if common.result_err(F, cl.local_ty(t["dest"]["l"])) and t["dest"]["l"] == 0:
                return False, "the callback %s returns the Result of %s" % (cl.path, callee_def(t))
            if callee_def(t) == "std::ops::FromResidual::from_residual":
                return False, "the callback %s propagates an error with `?`" % cl.path
    return True, ""


@guard("take-first-len-1")
def g_take_first(ctx, F, body, site):
    bb = site["bb"]
    for bi, t in body.calls():
        if is_callee(t, "std::vec::Vec::<T, A>::len"):
            nxt = t["t"]
            sw = body.term(nxt)
            if sw["k"] == "switch" and op_local(sw["on"]) == t["dest"]["l"]:
                one = [tg for v, tg in sw["targets"] if v == "1"]
                if one and _dominated_by_edge(body, bb, nxt, one[0]):
                    return True, ""
    return False, "take_first is not confined to the arm for len() == 1"


@guard("unexpected-token-has-token")
def g_unexpected_token(ctx, F, body, site):
    # (a) in the Display impl: the Option unwrapped derives from a local set to Some exactly in the Token arm of self.loc
    t = body.term(site["bb"])
    tok_local = None
    for d, p in common_deep_origins(body, t["args"][0]):
        if d[0] == "agg":
            st = body.stmts(d[1])[d[2]]
            a = st["rv"]["agg"]
            if isinstance(a, dict) and a.get("adt") == "std::option::Option":
                tok_local = st["pl"]["l"]
    if tok_local is None:
        return False, "cannot find the Option the unwrap is applied to"
    defs = body.defs().get(tok_local, [])
    ok_some = ok_none = False
    for d in defs:
        if d[0] != "stmt":
            return False, "`tok` is assigned from a call"
        a = d[3]["rv"].get("agg")
        if not isinstance(a, dict):
            return False, "`tok` is assigned something that is not Some/None"
        blk = d[1]
        # which arm of the switch on discriminant(self.loc) is this block in?
        arm = None
        for sb in range(len(body.blocks)):
            sw = tables.arms_complete(body, sb)
            if sw and any(nm == "loc" for of, nm, _ in common.place_fields(sw[0])) or (sw and any(
                    dd[0] == "param" and pp[:1] == ("loc",) for dd, pp in origins(body, {"copy": {"l": sw[0]["l"], "p": []}}))):
                for v, tg in sw[2].items():
                    if _dominated_by_edge(body, blk, sb, tg) or blk == tg:
                        arm = v if arm is None else arm
        if a["variant"] == "Some":
            if arm != "Token":
                return False, "`tok` becomes Some outside the Token arm"
            # unconditional within the arm: the arm's entry block itself
            ok_some = True
            sw_ok = False
            for sb in range(len(body.blocks)):
                sw = tables.arms_complete(body, sb)
                if sw and sw[2].get("Token") == blk:
                    sw_ok = True
            if not sw_ok:
                return False, "within the Token arm `tok` is Some only on some paths: UnexpectedToken at a token location could unwrap None"
        elif a["variant"] == "None":
            if arm == "Token":
                return False, "`tok` can be None although the location is a Token"
            ok_none = True
    if not ok_some:
        return False, "`tok` is never Some"
    # (b) every construction of UnexpectedToken is paired with a token location
    n = 0
    for fn, bi, s in common.aggregates_of(F, "frontend::parser::ParseErrorCode", "UnexpectedToken"):
        if fn.in_test_file():
            continue
        n += 1
        code_l = s["pl"]["l"]
        paired = False
        for cb, ct in fn.calls():
            if not any(op_local(a) == code_l or any(d[0] == "agg" and d[1] == bi for d, _ in origins(fn, a)) for a in ct["args"]):
                continue
            if is_callee(ct, "frontend::parser::ParseError::<'a>::new"):
                # explicit location: must be built from a Token
                loc = ct["args"][1]
                for d, p in origins(fn, loc):
                    if d[0] == "call":
                        lt = fn.term(d[1])
                        aty = fn.local_ty(op_place(lt["args"][0])["l"]).peel_refs() if lt["args"] and op_place(lt["args"][0]) else None
                        if aty is not None and aty.adt() == "frontend::lexer::Token":
                            paired = True
            elif is_callee(ct, "frontend::parser::Parser::<'a>::new_parse_error"):
                # location = current token if any: the construction must sit where a current token exists
                paired = _current_token_exists(F, fn, cb)
                if not paired and fn.kind != "closure":
                    # a private helper that builds the error first thing: every caller calls it where a current token exists
                    sites = [(b2, bi2) for b2, bi2, t2 in common.who_calls(F, lambda c: (c.get("resolved") or c.get("def")) == fn.path)]
                    paired = bool(sites) and not _advances_between(fn, 0, cb) and all(_current_token_exists(F, b2, bi2) for b2, bi2 in sites)
        if not paired:
            return False, "UnexpectedToken is constructed in %s without a guaranteed token location" % fn.path
    if n == 0:
        return False, "no construction of UnexpectedToken found"
    # new_parse_error turns *every* current token into a token location: nothing filters the token on the way
    npe = F.fn("frontend::parser::Parser::<'a>::new_parse_error")
    if npe is not None:
        for b in [x for x in common.bodies_with_helpers(F, npe, depth=1) if x.file == npe.file]:
            for bi, t in b.calls():
                if is_callee(t, "frontend::parser::ParseError::<'a>::new") and len(t["args"]) > 1:
                    names = common.deep_call_names(F, b, t["args"][1])
                    bad = sorted(names & {"filter", "filter_map", "and_then", "take_if", "then", "then_some", "zip", "xor", "skip", "nth"})
                    if bad:
                        return False, "new_parse_error does not use every current token as the error's location (%s on the way): UnexpectedToken can be located by line only, and its message unwraps the token" % bad
    return True, ""


def common_deep_origins(fn, operand, depth=0, seen=None):
    seen = seen if seen is not None else set()
    out = set()
    for d, p in origins(fn, operand):
        out.add((d, p))
        if d[0] == "call" and d[1] not in seen and depth < 8:
            seen.add(d[1])
            t = fn.term(d[1])
            if t["args"]:
                out |= common_deep_origins(fn, t["args"][0], depth + 1, seen)
    return out


def _current_token_exists(F, fn, bb):
    """is block bb of fn executed only when Parser::current() is Some?  Recognised: inside a closure handed to
    Option::and_then / map on the result of current(); or dominated by the true edge of current_matches(..)"""
    if fn.kind == "closure":
        use = _closure_use(F, fn)
        if use:
            parent, cb, ct = use
            if is_callee(ct, "std::option::Option::<T>::and_then", "std::option::Option::<T>::map"):
                if any(d[0] == "call" and is_callee(parent.term(d[1]), "frontend::parser::Parser::<'a>::current") for d, _ in origins(parent, ct["args"][0])):
                    return not _advances_between(fn, 0, bb)
    for b2, t2 in fn.calls():
        if is_callee(t2, "frontend::parser::Parser::<'a>::current_matches"):
            e = _bool_edges(fn, b2)
            if e and _dominated_by_edge(fn, bb, e[0], e[2]):
                return not _advances_between(fn, e[2], bb)
    # form C: dominated by the Some edge of a switch on the result of current()
    for sb in range(len(fn.blocks)):
        sw = tables.arms_complete(fn, sb)
        if not sw or "Some" not in sw[2]:
            continue
        if not any(d[0] == "call" and is_callee(fn.term(d[1]), "frontend::parser::Parser::<'a>::current")
                   for d, _ in origins(fn, {"copy": {"l": sw[0]["l"], "p": []}})):
            continue
        tg = sw[2]["Some"]
        if tg == bb or _dominated_by_edge(fn, bb, sb, tg):
            return not _advances_between(fn, tg, bb)
    return False


def _advances_between(fn, start, bb):
    """may the token stream advance on a path from block `start` to the call at block bb?  A call advances when it is handed a
    mutable borrow of the parser or of one of its lexers (current / new_parse_error / current_matches take &self)."""
    on_path = {b for b in fn.reachable(start, avoid=(bb,)) if bb in fn.reachable_from_succs(b) or bb in fn.succs()[b]}
    for b in on_path:
        t = fn.term(b)
        if t["k"] != "call":
            continue
        for a in t["args"]:
            pl = op_place(a)
            if not pl:
                continue
            ty = fn.local_ty(pl["l"])
            s_ = getattr(ty, "s", "") or ""
            if s_.startswith("&mut ") and any(k in s_ for k in ("frontend::parser::Parser", "frontend::lexer::CommentSkippingLexer", "frontend::lexer::Lexer")):
                return True
    return False


@guard("mutation-operand-not-identifier")
def g_mutation_operand(ctx, F, body, site):
    """every function that constructs MutationOperandMustBeIdentifier(x) does so only when x is not an Identifier: decided by KIND
    over all kinds of primary expression (whatever idiom the test is written in)"""
    from . import kind as _kind, kindtables as _kt
    from .kind import E
    PE = "frontend::ast::PrimaryExpression"
    makers = set()
    for fn, bi, s in common.aggregates_of(F, "frontend::parser::ParseErrorCode", "MutationOperandMustBeIdentifier"):
        if not fn.in_test_file():
            makers.add(common.top_fn(F, fn).path)
    if not makers:
        return False, "no construction found"
    variants = [v["name"] for v in F.adts.get(PE, {"variants": []})["variants"]]
    if "Identifier" not in variants:
        return False, "PrimaryExpression has no Identifier variant"
    for path in sorted(makers):
        fn = F.fn(path)
        ops = [i for i in range(1, fn.argc + 1) if fn.local_ty(i).peel_refs().adt() == PE]
        if len(ops) != 1:
            return False, "%s: cannot tell which parameter is the operand" % path
        I = _kind.Interp(F, models={"frontend::parser::Parser::<'a>::new_parse_error": lambda I_, f, st, t, args, depth: iter([(("call", "parse_error", (_kind._short(args[1]),)), None, ())])})
        args = []
        for i in range(1, fn.argc + 1):
            args.append(E(PE, "Identifier", ("sym", "payload")) if i == ops[0] else ("sym", "p%d" % i))
        for o in I.run(fn, args):
            if "MutationOperandMustBeIdentifier" in _kt.term(o.ret):
                return False, "%s reports MutationOperandMustBeIdentifier for an operand that is an identifier" % path
        if I.incomplete:
            return False, "%s could not be interpreted completely" % path
    return True, ""


@guard("compute-value-no-dot")
def g_compute_value(ctx, F, body, site):
    use = _closure_use(F, body)
    if not use or not is_callee(use[2], "std::iter::Iterator::map"):
        return False, "the closure is not the argument of Iterator::map"
    parent, cb, ct = use
    # the mapped iterator goes back to a filter whose closure compares with Dot
    filt = None
    for d, p in common_deep_origins(parent, ct["args"][0]):
        if d[0] == "call" and is_callee(parent.term(d[1]), "std::iter::Iterator::filter"):
            filt = parent.term(d[1])
    if filt is None:
        return False, "the iterator is not filtered before it is mapped"
    cl = filt["args"][1]
    cty = parent.local_ty(op_local(cl)).peel_refs()
    cf = F.fn(cty.d.get("closure", "")) if cty.kind() == "closure" else None
    if cf is None:
        return False, "filter predicate not recognised"
    ok = any(is_callee(t, "std::cmp::PartialEq::ne") for bi, t in cf.calls())
    has_dot = False
    for b in [cf] + cf.promoteds():
        for bi, si, s in b.assigns():
            a = s["rv"].get("agg")
            if isinstance(a, dict) and a.get("variant") == "Dot":
                has_dot = True
    return ok and has_dot, "" if ok and has_dot else "the filter predicate is not `*e != Dot`"


@guard("greedy-suffix-peeked")
def g_greedy(ctx, F, body, site):
    callers = [(fn, bi, t) for fn, bi, t in _callers(F, body.path) if not fn.in_test_file()]
    if not callers:
        return False, "no caller"
    for fn, bi, t in callers:
        # form B: `if let Some(WordSuffix(_)) = self.iter.peek() { .. greedily_match_suffixes() .. }` -- the call is confined to the
        # Some edge of a branch on peek() and to the WordSuffix edge of a branch on the peeked element
        peeks = [pb for pb, pt in fn.calls() if pt["callee"].get("name") == "peek" and fn.dominates(pb, bi)]
        if peeks:
            some_ok = suffix_ok = False
            for sb in range(len(fn.blocks)):
                sw = tables.switch_on_discr(fn, sb)
                if not sw or not fn.dominates(sb, bi):
                    continue
                if "Some" in sw[2] and any(d[0] == "call" and d[1] in peeks for d, _ in origins(fn, {"copy": {"l": sw[0]["l"], "p": []}})):
                    if sw[2]["Some"] == bi or _dominated_by_edge(fn, bi, sb, sw[2]["Some"]):
                        some_ok = True
                if "WordSuffix" in sw[2]:
                    if sw[2]["WordSuffix"] == bi or _dominated_by_edge(fn, bi, sb, sw[2]["WordSuffix"]):
                        suffix_ok = True
            if some_ok and suffix_ok:
                continue
        if fn.kind != "closure":
            return False, "called where peek() has not just shown a WordSuffix element (%s)" % fn.path
        use = _closure_use(F, fn)
        if not use or not is_callee(use[2], "core::bool::<impl bool>::then"):
            return False, "%s is not the argument of bool::then" % fn.path
        parent, cb, ct = use
        names = set()
        for d, p in common_deep_origins(parent, ct["args"][0]):
            if d[0] == "call":
                names.add(parent.term(d[1])["callee"].get("name"))
        if not {"is_some", "filter", "peek"} <= names:
            return False, "the condition is not peek().filter(is WordSuffix).is_some()"
    return True, ""


@guard("writeval-never-errs")
def g_writeval(ctx, F, body, site):
    # the value unwrapped here is the Result of a WriteVal visit
    t0 = body.term(site["bb"])
    l0 = op_local(t0["args"][0]) if t0.get("args") else None
    if l0 is None or not body.local_ty(l0).s.startswith("std::result::Result<exec::write_val::WriteValOutput, ()>"):
        return False, "the unwrapped value is not the Result<WriteValOutput, ()> of a WriteVal visit"
    key = ("writeval-never-errs", F.profile)
    if key in ctx.cache:
        return ctx.cache[key]
    bad = None
    scope = []
    for fn in F.all_fns(tests=False):
        if fn.file.endswith("exec/write_val.rs") or fn.path.startswith("analysis::visit::VisitExpr::") or fn.path in (
                "analysis::visit::combine_all", "analysis::visit::leaf") or fn.path.startswith("analysis::visit::combine_all::"):
            scope.append(fn)
    for fn in scope:
        rt = F.ty(fn.d["ret"])
        for bi, si, s in fn.assigns():
            a = s["rv"].get("agg")
            if isinstance(a, dict) and a.get("adt") == "std::result::Result" and a.get("variant") == "Err":
                ety = [F.ty(i) for i in a.get("args", [])]
                if len(ety) == 2 and ety[1].kind() == "tuple" and not ety[1].d["tuple"]:
                    bad = fn.path
                if len(ety) == 2 and ety[1].kind() == "param":
                    bad = fn.path  # a generic default constructing its own error
    res = (bad is None, "" if bad is None else "%s constructs an Err of the visitor's error type" % bad)
    ctx.cache[key] = res
    return res


@guard("pop-expr-back-set")
def g_pop_expr(ctx, F, body, site):
    # the closure handed to WriteVal::new assigns Some(..) to the captured `back` on every non-error path
    top = common.top_fn(F, body)

    def sets_some(cl):
        """blocks of cl that store Some(..) into a captured variable"""
        out = []
        for bi, si, s in cl.assigns():
            pl = s["pl"]
            if pl["p"] and isinstance(s["rv"].get("agg"), dict) and s["rv"]["agg"].get("variant") == "Some" and (pl["l"] == 1 or pl["p"][0] == "deref"):
                out.append(bi)
        return out
    # form B: the write closure returns  <fallible>.map(|v| back = Some(v))  -- the inner closure runs exactly when the result is Ok
    for cl in F.with_closures(top):
        if cl.kind != "closure":
            continue
        for bi, t in cl.calls():
            if is_callee(t, "std::result::Result::<T, E>::map") and t["dest"]["l"] == 0 and len(t["args"]) > 1:
                l = op_local(t["args"][1])
                ty = cl.local_ty(l).peel_refs() if l is not None else None
                inner = F.fn(ty.d["closure"]) if ty is not None and ty.kind() == "closure" else None
                if inner is not None:
                    w = sets_some(inner)
                    if w and not common.path_to_return_avoiding(inner, w):
                        return True, ""
    for cl in [c_ for c_ in F.with_closures(top) if c_.kind == "closure"]:
        writes = []
        for bi, si, s in cl.assigns():
            pl = s["pl"]
            if pl["l"] == 1 and pl["p"] and isinstance(s["rv"].get("agg"), dict) and s["rv"]["agg"].get("variant") == "Some":
                writes.append(bi)
            elif pl["p"] and pl["p"][0] == "deref" and isinstance(s["rv"].get("agg"), dict) and s["rv"]["agg"].get("variant") == "Some":
                writes.append(bi)
            elif pl["p"] and "use" in s["rv"]:
                for d, p in origins(cl, s["rv"]["use"]):
                    if d[0] == "agg" and isinstance(cl.stmts(d[1])[d[2]]["rv"]["agg"], dict) and cl.stmts(d[1])[d[2]]["rv"]["agg"].get("variant") == "Some":
                        if any(dd[0] == "param" and dd[1] == 1 for dd, _ in origins(cl, {"copy": {"l": pl["l"], "p": []}})) or pl["l"] == 1:
                            writes.append(bi)
        if writes and not common.path_to_return_avoiding(cl, writes):
            return True, ""
    return False, "the write closure can return Ok(()) without having set `back`"


@guard("emplace-var-entry")
def g_emplace(ctx, F, body, site):
    if body.kind == "closure":
        # the unwrap sits in a closure mapped over the result of emplace: the facts are about the enclosing function
        use = _closure_use(F, body)
        if not use or use[2]["callee"].get("name") not in ("map", "and_then", "map_or", "map_or_else"):
            return False, "the closure is not mapped over a result"
        parent, cb, ct = use
        emp_p = [bi for bi, t in parent.calls() if t["callee"].get("name") == "emplace"]
        if not emp_p or not all(flows_into(parent, bi, ct["args"][0]) for bi in emp_p):
            return False, "the closure is not mapped over the result of emplace"
        body = parent
    conv = [(bi, t) for bi, t in body.calls() if is_callee(t, "std::convert::Into::into") and "SymTableEntry" in (t["callee"].get("inst") or "")]
    emp = [(bi, t) for bi, t in body.calls() if t["callee"].get("name") == "emplace"]
    if len(conv) != 1 or not emp:
        return False, "shape not recognised (one Val -> SymTableEntry conversion feeding emplace)"
    aty = body.local_ty(op_local(conv[0][1]["args"][0])) if op_local(conv[0][1]["args"][0]) is not None else None
    if aty is None or aty.peel_refs().adt() != "exec::val::Val":
        return False, "the converted value is not a Val"
    for bi, t in emp:
        if not flows_into(body, conv[0][0], t["args"][2]):
            return False, "emplace is not given the converted Val"
    # every implementation of emplace returns the entry it stored: Ok(entry(K).or_insert(V)) with V the given entry, reached only
    # where contains_key(&K) was false for the *same* key value K (otherwise or_insert hands back an older entry of any variant)
    impls = [fn for fn in F.all_fns(tests=False) if fn.kind != "closure" and fn.path.endswith("::emplace") and "exec::sym_table::Lookup" in fn.path and fn.mir]
    if len(impls) < 2:
        return False, "found %d implementations of Lookup::emplace (2 confirmed on the reviewed tree)" % len(impls)
    for fn in impls:
        ins = [(bi, t) for bi, t in fn.calls() if t["callee"].get("name") in ("or_insert", "insert", "or_insert_with", "insert_entry")]
        ent = [(bi, t) for bi, t in fn.calls() if t["callee"].get("name") == "entry"]
        ck = [(bi, t) for bi, t in fn.calls() if t["callee"].get("name") == "contains_key"]
        if len(ins) == 1 and len(ent) == 1 and "VacantEntry" in (ins[0][1]["callee"].get("def") or "") + (ins[0][1]["callee"].get("inst") or ""):
            # match self.entry(key) { Occupied(_) => Err(..), Vacant(slot) => Ok(slot.insert(entry)) }: a vacant slot is fresh by construction
            if {d for d, p in origins(fn, ins[0][1]["args"][1])} != {("param", 3)}:
                return False, "%s: the value inserted is not the entry that was passed in" % fn.path
            if not flows_into(fn, ent[0][0], ins[0][1]["args"][0]):
                return False, "%s: the vacant slot does not come from entry() of this map" % fn.path
            oks = [(bi, si, st) for bi, si, st in fn.assigns() if st["pl"]["l"] == 0 and isinstance(st["rv"].get("agg"), dict) and st["rv"]["agg"].get("variant") == "Ok"]
            if not oks or not all(st["rv"].get("ops") and flows_into(fn, ins[0][0], st["rv"]["ops"][0]) for bi, si, st in oks):
                return False, "%s: Ok(..) does not carry the entry returned by VacantEntry::insert" % fn.path
            continue
        if len(ins) != 1 or len(ent) != 1 or len(ck) != 1 or ins[0][1]["callee"].get("name") != "or_insert":
            return False, "%s: shape not recognised (contains_key / entry / or_insert, or entry / VacantEntry::insert)" % fn.path
        if {d for d, p in origins(fn, ins[0][1]["args"][1])} != {("param", 3)}:
            return False, "%s: the value inserted is not the entry that was passed in" % fn.path
        if not flows_into(fn, ent[0][0], ins[0][1]["args"][0]):
            return False, "%s: or_insert is not applied to the entry() of this map" % fn.path
        k1 = {d for d, p in origins(fn, ent[0][1]["args"][1])}
        k2 = {d for d, p in origins(fn, ck[0][1]["args"][1])}
        if k1 != k2 or not k1:
            return False, "%s: contains_key tests %s but the entry is stored under %s: an existing entry (possibly a function) can be returned as if freshly stored" % (fn.path, sorted(map(str, k2)), sorted(map(str, k1)))
        be = _bool_edges(fn, ck[0][0])
        if not be or not (be[1] == ent[0][0] or _dominated_by_edge(fn, ent[0][0], be[0], be[1])):
            return False, "%s: the insertion is not confined to the branch where contains_key was false" % fn.path
        oks = [(bi, si, st) for bi, si, st in fn.assigns() if st["pl"]["l"] == 0 and isinstance(st["rv"].get("agg"), dict) and st["rv"]["agg"].get("variant") == "Ok"]
        for bi, si, st in oks:
            ops = st["rv"].get("ops") or []
            if not ops or not flows_into(fn, ins[0][0], ops[0]):
                return False, "%s: Ok(..) does not carry the entry returned by or_insert" % fn.path
        if not oks:
            return False, "%s: no Ok(..) construction found" % fn.path
    # the derived From<Val> builds the Var variant
    for fn in F.all_fns():
        if "From<exec::val::Val>>::from" in fn.path and "SymTableEntry" in fn.path:
            vs = {s["rv"]["agg"]["variant"] for bi, si, s in fn.assigns() if isinstance(s["rv"].get("agg"), dict) and s["rv"]["agg"].get("adt") == "exec::sym_table::SymTableEntry"}
            return vs == {"Var"}, "" if vs == {"Var"} else "From<Val> for SymTableEntry builds %s" % vs
    return False, "From<Val> for SymTableEntry not found"


def _site_in_arm(F, body, bb, adt, variants_allowed):
    """is the site confined to arms of a switch on an `adt` discriminant whose variants are in variants_allowed?"""
    for sb in range(len(body.blocks)):
        sw = tables.arms_complete(body, sb)
        if not sw or sw[1].peel_refs().adt() != adt:
            continue
        arms = [v for v, tg in sw[2].items() if tg == bb or _dominated_by_edge(body, bb, sb, tg)]
        by_target = {}
        for v, tg in sw[2].items():
            by_target.setdefault(tg, set()).add(v)
        for tg, vs in by_target.items():
            if tg == bb or _dominated_by_edge(body, bb, sb, tg):
                return vs <= set(variants_allowed), vs, sb
    return None, None, None


@guard("array-after-coerce")
def g_array_after_coerce(ctx, F, body, site):
    bb = site["bb"]
    ok, vs, sb = _site_in_arm(F, body, bb, "exec::val::Val", ["Undefined", "Null", "Boolean", "Number", "String"])
    if ok is None:
        return False, "site not in a match on Val"
    if "Array" in (vs or ()):
        return False, "the unreachable arm also covers Array"
    # before the match, self was made an array: a call to array_coerce (push) or a store of a fresh array (array_coerce)
    made = []
    for bi, t in body.calls():
        if is_callee(t, "exec::val::Val::array_coerce"):
            made.append(bi)
        if is_callee(t, "std::mem::replace") and any(
                is_callee(body.term(d[1]), "std::convert::Into::into", "std::convert::From::from") for d, _ in origins(body, t["args"][1]) if d[0] == "call"):
            made.append(bi)
    good = [m for m in made if body.dominates(m, sb)]
    if not good:
        return False, "nothing makes self an array on every path to the match"
    return True, ""


@guard("inc-null-replaced")
def g_inc_null(ctx, F, body, site):
    bb = site["bb"]
    ok, vs, sb = _site_in_arm(F, body, bb, "exec::val::Val", ["Null"])
    if not ok:
        return False, "the unreachable arm is not exactly the Null arm"
    for bi, t in body.calls():
        if is_callee(t, "exec::val::Val::is_null"):
            e = _bool_edges(body, bi)
            if not e:
                continue
            # on the true edge *self is overwritten with a Number before reaching the match
            writes = []
            for b2, si, s in body.assigns():
                if s["pl"]["p"] == ["deref"] and s["pl"]["l"] == 1:
                    for d, p in (origins(body, s["rv"]["use"]) if "use" in s["rv"] else []):
                        if d[0] == "agg" and body.stmts(d[1])[d[2]]["rv"]["agg"].get("variant") == "Number":
                            writes.append(b2)
                    a = s["rv"].get("agg")
                    if isinstance(a, dict) and a.get("variant") == "Number":
                        writes.append(b2)
            if writes and sb not in body.reachable(e[2], avoid=writes) and body.dominates(bi, sb):
                return True, ""
    return False, "a Null self is not replaced by a Number on every path to the match"


@guard("join-elements-checked")
def g_join_checked(ctx, F, body, site):
    parent = F.fn(body.d["parent"])
    use = _closure_use(F, body)
    if parent is None or not use:
        return False, "shape not recognised"
    _, mb, mt = use
    iters = [(bi, t) for bi, t in parent.calls() if is_callee(t, "exec::val::Array::val_iter")]
    if len(iters) != 2:
        return False, "expected two traversals of val_iter(), found %d" % len(iters)
    (b1, t1), (b2, t2) = sorted(iters)
    r1 = {(d, p) for d, p in common_deep_origins(parent, t1["args"][0]) if d[0] != "call"}
    r2 = {(d, p) for d, p in common_deep_origins(parent, t2["args"][0]) if d[0] != "call"}
    same = bool(r1) and r1 == r2
    if not same:
        return False, "the two traversals are over different arrays"
    # first traversal: a loop whose non-String arm returns InvalidArrayElementForJoin
    errs = [(bi, s_) for fn, bi, s_ in common.aggregates_of(F, "exec::val::ValError", "InvalidArrayElementForJoin") if fn is parent]
    if not errs:
        return False, "the checking traversal does not reject non-string elements"
    # the element reported comes from the first traversal, and the test is about being a string (a match on the element's kind
    # whose String arm does not reach the error, or an is_string predicate)
    if not any(flows_into(parent, b1, o) for bi, s_ in errs for o in s_["rv"]["ops"]):
        return False, "the rejected element does not come from the checking traversal"
    by_pred = any(t_["callee"].get("name") == "is_string" for b_ in F.with_closures(parent) for bi_, t_ in b_.calls())
    by_match = False
    for sb in range(len(parent.blocks)):
        sw = tables.arms_complete(parent, sb)
        if sw and sw[1].peel_refs().adt() == "exec::val::Val" and "String" in sw[2] and parent.dominates(b1, sb):
            others = [tg for v, tg in sw[2].items() if v != "String"]
            if not any(bi in parent.reachable(sw[2]["String"], avoid=others + [b1]) for bi, s_ in errs):
                by_match = True
    if not (by_pred or by_match):
        return False, "the checking traversal does not test whether an element is a string"
    if not (parent.dominates(b1, b2) and flows_into(parent, b2, mt["args"][0])):
        return False, "the checked traversal does not precede the joining one"
    # nothing mutates the array in between: no &mut use of it
    return True, ""


@guard("compare-same-kind")
def g_compare_same_kind(ctx, F, body, site):
    bb = site["bb"]
    ok, vs, sb = _site_in_arm(F, body, bb, "exec::val::Val", ["Number", "String"])
    if not ok:
        return False, "inner! is not confined to the Number / String arm of the match on a"
    for bi, t in body.calls():
        if is_callee(t, "std::cmp::PartialEq::ne", "std::cmp::PartialEq::eq") and "Discriminant" in (t["callee"].get("inst") or ""):
            e = _bool_edges(body, bi)
            if e:
                equal_edge = e[1] if t["callee"]["name"] == "ne" else e[2]
                if _dominated_by_edge(body, bb, e[0], equal_edge):
                    return True, ""
    return False, "the match is not under the `discriminant(a) == discriminant(b)` edge"


@guard("decay-no-array")
def g_decay(ctx, F, body, site):
    decay = F.fn("exec::val::Val::decay")
    if decay is None:
        return False, "Val::decay not found"
    m = tables.enum_map(decay, 1)
    if not m:
        return False, "Val::decay is not a match on self"
    arr = m[1].get("Array")
    ok = arr is not None and all(r[0] == "agg" and r[1] == "Cow::Owned" and r[2] and r[2][0][0] == "agg" and r[2][0][1] == "Val::Number" for r in arr)
    if not ok:
        return False, "decay(Array) is %s, not Owned(Number)" % (arr,)
    for v, rs in m[1].items():
        if v != "Array" and not all(r[0] == "agg" and r[1] == "Cow::Borrowed" for r in rs):
            return False, "decay(%s) is not the value itself" % v
    okarm, vs, sb = _site_in_arm(F, body, site["bb"], "exec::val::Val", ["Array"])
    return bool(okarm), "" if okarm else "unreachable! is not confined to the Array arm"


@guard("listbuilder-nonempty")
def g_listbuilder(ctx, F, body, site):
    bb = site["bb"]
    tests = []
    for bi, t in body.calls():
        if t["callee"].get("name") == "is_empty" and "ListBuilder" in (t["callee"].get("inst") or t["callee"]["def"]):
            e = _bool_edges(body, bi)
            if e:
                src = {d[1] for d, _ in origins(body, t["args"][0]) if d[0] == "param"}
                tests.append((bi, e, src))
    params_tested = set()
    for bi, e, src in tests:
        # true edge returns without reaching the site; site dominated by the false edge
        if bb not in body.reachable(e[2]) and _dominated_by_edge(body, bb, e[0], e[1]):
            params_tested |= src
    ok, vs, sb = _site_in_arm(F, body, bb, "linter::ListBuilder", ["Empty"])
    if not ok:
        return False, "the unreachable arm is not exactly the Empty arm"
    which = {d[1] for d, _ in origins(body, {"copy": {"l": tables.arms_complete(body, sb)[0]["l"], "p": []}}) if d[0] == "param"} or {tables.arms_complete(body, sb)[0]["l"]}
    good = which <= params_tested
    return good, "" if good else "the matched operand was not tested with is_empty() (early return) before"


@guard("in-function-call-cleared")
def g_in_function_call(ctx, F, body, site):
    fld = ("linter::passes::missed_pronoun::MissedPronounPassImpl", "in_function_call")
    w_true, w_false = [], []
    for bi, si, s in body.assigns():
        if any(of == fld[0] and nm == fld[1] for of, nm, _ in common.place_fields(s["pl"])):
            v = s["rv"].get("use", {}).get("const", {}).get("int")
            (w_true if v == "1" else w_false if v == "0" else w_true).append(bi) if v in ("0", "1") else w_false.append(-1)
    if -1 in w_false or len(w_true) != 1 or len(w_false) != 1:
        return False, "expected exactly one `= true` and one `= false` of in_function_call"
    name_visit = [bi for bi, t in body.calls() if t["callee"].get("name") == "visit_variable_name"]
    arg_events = [bi for bi, t in body.calls() if is_callee(t, "analysis::visit::combine_all") or t["callee"].get("name") in ("visit_expression",)]
    if len(name_visit) != 1 or not arg_events:
        return False, "shape not recognised"
    wt, wf, nv = w_true[0], w_false[0], name_visit[0]
    ok = body.dominates(wt, nv) and body.dominates(nv, wf) and all(body.dominates(wf, a) for a in arg_events)
    return ok, "" if ok else "the flag is not cleared between visiting the callee name and visiting the arguments"


@guard("folder-identifiers-err")
def g_folder_ids(ctx, F, body, site):
    # every identifier / pronoun method of the folder that owns this Combine impl returns Err unconditionally
    owner = "analysis::tools::NumericConstantFolder" if "NumericConstant " in body.path or "NumericConstant as" in body.path else "analysis::tools::SimpleStringConstantFolder"
    names = ["visit_pronoun", "visit_simple_identifier", "visit_common_identifier", "visit_proper_identifier"]
    for n in names:
        fn = common.find_method(F, "analysis::visit::VisitExpr", n, owner)
        if fn is None:
            return False, "%s does not override %s" % (owner, n)
        rs = tables.result_of_arm(fn, 0)
        if not rs or not all(r[0] == "agg" and r[1] == "Result::Err" for r in rs):
            return False, "%s::%s does not always return Err" % (owner, n)
    # the default visit_function_call presents the callee name first
    fc = F.fn("analysis::visit::VisitExpr::visit_function_call")
    if fc is None:
        return False, "VisitExpr::visit_function_call not found"
    once = [(bi, t) for bi, t in fc.calls() if is_callee(t, "std::iter::once")]
    chain = [(bi, t) for bi, t in fc.calls() if is_callee(t, "std::iter::Iterator::chain")]
    nv = [(bi, t) for bi, t in fc.calls() if t["callee"].get("name") == "visit_variable_name"]
    ok = len(once) == 1 and len(chain) == 1 and len(nv) == 1 and flows_into(fc, nv[0][0], once[0][1]["args"][0]) and flows_into(fc, once[0][0], chain[0][1]["args"][0])
    if not ok and len(nv) == 1 and not once:
        # form B: the result of visiting the callee name goes through `?` before any combine can run
        combs = [bi for b in [fc] for bi, t in b.calls() if (callee_def(t) or "").endswith("Combine::combine")]
        brs = [bi for bi, t in fc.calls() if callee_def(t) == "std::ops::Try::branch" and any(d == ("call", nv[0][0]) for d, _ in origins(fc, t["args"][0]))]
        okB = False
        for bb in brs:
            for sb in range(len(fc.blocks)):
                sw = tables.arms_complete(fc, sb)
                if sw and "Continue" in sw[2] and "Break" in sw[2] and any(d == ("call", bb) for d, _ in origins(fc, {"copy": {"l": sw[0]["l"], "p": []}})):
                    if combs and all(c_ == sw[2]["Continue"] or _dominated_by_edge(fc, c_, sb, sw[2]["Continue"]) for c_ in combs):
                        okB = True
        # no visiting closure may combine on its own before that
        inner = [1 for b in F.closures_of(fc) for bi, t in b.calls() if (callee_def(t) or "").endswith("Combine::combine")]
        ok = okB and not inner
    return ok, "" if ok else "the callee name is not the first element folded by the default visit_function_call"


@guard("as-text-ascii")
def g_as_text_ascii(ctx, F, body, site):
    t = body.term(site["bb"])
    vec_l = None
    for d, p in origins(body, t["args"][0]):
        if d[0] == "call":
            vec_l = body.term(d[1])["dest"]["l"]
    if vec_l is None:
        return False, "cannot find the byte vector"
    for bi, t2 in body.calls():
        uses = False
        for a in t2["args"]:
            pl = op_place(a)
            if pl is None:
                continue
            for d in body.defs().get(pl["l"], []):
                if d[0] == "stmt" and "ref" in d[3]["rv"] and d[3]["rv"]["mut"] and d[3]["rv"]["ref"]["l"] == vec_l:
                    uses = True
        if not uses:
            continue
        name = t2["callee"].get("name")
        if name == "push":
            ok = _ascii_const(body, t2["args"][1])
        elif name == "extend":
            ok = False
            for d, p in origins(body, t2["args"][1]):
                if d[0] == "call" and is_callee(body.term(d[1]), "itertools::repeat_n"):
                    ok = _ascii_const(body, body.term(d[1])["args"][0])
        else:
            ok = name in ("reserve", "len", "clear")
        if not ok:
            return False, "%s puts bytes into the buffer that are not an ASCII constant" % callee_def(t2)
    return True, ""


def _ascii_const(fn, operand):
    c = operand.get("const")
    if c is not None:
        try:
            return 0 <= int(c.get("int", "999")) < 128
        except ValueError:
            return False
    vals = []
    for d, p in origins(fn, operand):
        if d[0] == "const":
            vals.append(d[1])
        else:
            return False
    def isasc(v):
        if isinstance(v, str) and len(v) == 1:
            return ord(v) < 128
        try:
            return 0 <= int(v) < 128
        except (TypeError, ValueError):
            return isinstance(v, str) and v.startswith("'") and len(v) <= 6
    return bool(vals) and all(isasc(v) for v in vals)


# ------------------------------------------------------------------------------------------
# guards built on token-kind knowledge (sa/tokens.py)


@guard("consume-callers")
def g_consume_callers(ctx, F, body, site):
    from . import tokens
    key = ("consume-callers", F.profile)
    if key not in ctx.cache:
        sites = tokens.consume_sites(F)
        bad = None
        for fn, bb, t in sites:
            ok, why = tokens.check_consume_site(F, fn, bb, t)
            if not ok:
                bad = why
                break
        ctx.cache[key] = (bad is None and len(sites) >= 15, bad or ("only %d consume() call sites found" % len(sites) if len(sites) < 15 else ""))
        ctx.cache[key + ("n",)] = len(sites)
    return ctx.cache[key]


def _table_fn_some_domain(F, path):
    fn = F.fn(path)
    if fn is None:
        return None
    m = tables.enum_map(fn, 1)
    if not m:
        return None
    return {v for v, rs in m[1].items() if rs and all(r[0] == "agg" and r[1] == "Option::Some" for r in rs)}


@guard("operator-table-total")
def g_operator_table_total(ctx, F, body, site):
    from . import tokens
    t = body.term(site["bb"])
    # the table function whose result is unwrapped
    tf = None
    for d, p in origins(body, t["args"][0]):
        if d[0] == "call":
            ct = body.term(d[1])
            pth = callee_def(ct) or ""
            if pth.startswith("frontend::parser::get_"):
                tf = (d[1], ct, pth)
    if tf is None:
        return False, "the unwrapped value is not the result of a token->operator table function"
    dom = _table_fn_some_domain(F, tf[2])
    if dom is None:
        return False, "%s is not a match on the token kind" % tf[2]
    kinds = tokens.token_kinds_of_value(F, body, tf[1]["args"][0])
    if kinds is None:
        return False, "cannot determine which token kinds reach %s here" % tf[2]
    extra = kinds - dom
    return not extra, "" if not extra else "%s can be called with %s, for which it returns None" % (tf[2], sorted(extra))


@guard("push-rhs-arms")
def g_push_rhs_arms(ctx, F, body, site):
    from . import tokens
    ok, vs, sb = _site_in_arm(F, body, site["bb"], "frontend::lexer::TokenType", [])
    if vs is None:
        return False, "site not in a match on the token kind"
    sw = tables.arms_complete(body, sb)
    kinds = tokens.token_kinds_of_value(F, body, {"copy": sw[0]})
    if kinds is None:
        return False, "cannot determine which token kinds reach the match"
    hit = kinds & vs
    return not hit, "" if not hit else "the unreachable arm is taken for %s" % sorted(hit)


@guard("expected-one-of-nonempty")
def g_expected_nonempty(ctx, F, body, site):
    from . import tokens
    n = 0
    for fn, bi, s in common.aggregates_of(F, "frontend::parser::ParseErrorCode", "ExpectedOneOfTokens"):
        if fn.in_test_file():
            continue
        n += 1
        op = s["rv"]["ops"][0]
        size = None
        for d, p in common_deep_origins(fn, op):
            if d[0] == "agg":
                st = fn.stmts(d[1])[d[2]]
                a = st["rv"]["agg"]
                if isinstance(a, dict) and "array" in a:
                    size = len(st["rv"]["ops"])
        if size is None and any(d[0] == "call" and fn.term(d[1])["callee"].get("name") in ("box_assume_init_into_vec_unsafe", "into_vec")
                                for d, p in common_deep_origins(fn, op)):
            # what vec![..] expands to: the array literal is written through the box pointer
            for bi2, si2, s2 in fn.assigns():
                a = s2["rv"].get("agg")
                if isinstance(a, dict) and "array" in a and "vec" in s2.get("mac", []):
                    size = len(s2["rv"]["ops"])
        if size is None:
            ks = tokens.resolve_token_set(F, fn, op)
            if ks is None:
                # to_owned(tokens) with tokens a captured parameter
                for d, p in common_deep_origins(fn, op):
                    if d[0] == "param":
                        ks = tokens.resolve_token_set(F, fn, {"copy": {"l": d[1], "p": list()}}) if False else None
                # resolve through the producing call's argument
                for d, p in origins(fn, op):
                    if d[0] == "call" and fn.term(d[1])["args"]:
                        ks = tokens.resolve_token_set(F, fn, fn.term(d[1])["args"][0])
            size = len(ks) if ks is not None else None
        if not size:
            return False, "an ExpectedOneOfTokens payload built in %s may be empty (or cannot be sized)" % fn.path
    return n > 0, "" if n else "no construction found"


# ------------------------------------------------------------------------------------------
# guards for the repaired sites


@guard("radix-range-checked")
def g_radix(ctx, F, body, site):
    t = body.term(site["bb"])
    # the radix argument goes back (through `?`) to Option::filter(.., |r| (2..=36).contains(r))
    filt = None
    for d, p in common_deep_origins(body, t["args"][1]):
        if d[0] == "call" and is_callee(body.term(d[1]), "std::option::Option::<T>::filter"):
            filt = body.term(d[1])
    if filt is None:
        # form B: explicit comparisons of the same value against constants, the call confined to the edges on which they held
        lo, hi = _interval_at(body, site["bb"], t["args"][1])
        ok = lo is not None and hi is not None and lo >= 2 and hi <= 36
        return ok, "" if ok else "the radix handed to from_str_radix is not filtered by a range test (known bounds at the call: %s..=%s)" % (lo, hi)
    cl = body.local_ty(op_local(filt["args"][1])).peel_refs()
    cf = F.fn(cl.d.get("closure", "")) if cl.kind() == "closure" else None
    if cf is None:
        return False, "filter predicate not recognised"
    ok = False
    for bi, tt in cf.calls():
        if is_callee(tt, "std::ops::RangeInclusive::<Idx>::contains") and tt["dest"]["l"] == 0:
            for d, p in origins(cf, tt["args"][0]):
                if d[0] == "promoted":
                    pb = cf.promoteds()[d[1]]
                    for b2, t2 in pb.calls():
                        if is_callee(t2, "std::ops::RangeInclusive::<Idx>::new"):
                            lo = t2["args"][0].get("const", {}).get("int")
                            hi = t2["args"][1].get("const", {}).get("int")
                            ok = lo is not None and hi is not None and int(lo) >= 2 and int(hi) <= 36
    return ok, "" if ok else "the range test is not a sub-range of 2..=36"


def _interval_at(body, bb, operand):
    """(lo, hi) bounds known for an integer operand at block bb from comparisons of the same value (same origins, looked at through
    integer casts) with constants whose outcome edge dominates bb; None where unknown"""
    def roots(o):
        return frozenset((d, p) for d, p in origins(body, o) if d[0] != "const")

    def const_of(o):
        c = o.get("const")
        if c is not None and c.get("int") is not None:
            return int(c["int"])
        vs = [d[1] for d, p in origins(body, o) if d[0] == "const"]
        others = [d for d, p in origins(body, o) if d[0] != "const"]
        if len(vs) == 1 and not others:
            try:
                return int(str(vs[0]).split("_")[0])
            except ValueError:
                return None
        return None
    want = roots(operand)
    if not want:
        return None, None
    lo = hi = None
    for bi, si, s in body.assigns():
        op = s["rv"].get("bin")
        if op not in ("lt", "gt", "le", "ge"):
            continue
        a, b = s["rv"]["a"], s["rv"]["b"]
        if roots(a) == want and const_of(b) is not None:
            k, flip = const_of(b), False
        elif roots(b) == want and const_of(a) is not None:
            k, flip = const_of(a), True
        else:
            continue
        if flip:
            op = {"lt": "gt", "gt": "lt", "le": "ge", "ge": "le"}[op]
        sw = body.term(bi)
        if sw["k"] != "switch" or op_local(sw["on"]) != s["pl"]["l"]:
            continue
        zero = [tg for v, tg in sw["targets"] if v == "0"]
        if not zero:
            continue
        for outcome, tg in ((False, zero[0]), (True, sw["otherwise"])):
            if not (tg == bb or _dominated_by_edge(body, bb, bi, tg)):
                continue
            # x op k is `outcome`
            if (op, outcome) == ("lt", False) or (op, outcome) == ("ge", True):
                lo = k if lo is None else max(lo, k)
            elif (op, outcome) == ("lt", True) or (op, outcome) == ("ge", False):
                hi = k - 1 if hi is None else min(hi, k - 1)
            elif (op, outcome) == ("gt", False) or (op, outcome) == ("le", True):
                hi = k if hi is None else min(hi, k)
            else:
                lo = k + 1 if lo is None else max(lo, k + 1)
    return lo, hi


@guard("to-digit-radix-const")
def g_to_digit(ctx, F, body, site):
    t = body.term(site["bb"])
    r = t["args"][1].get("const", {}).get("int") if len(t["args"]) > 1 else None
    ok = r is not None and 2 <= int(r) <= 36
    return ok, "" if ok else "the radix of to_digit is not a constant in 2..=36"


@guard("reserve-diff-nonneg")
def g_reserve_diff(ctx, F, body, site):
    # new_len - len, under `i >= len` with new_len = i + 1 (checked)
    bb = site["bb"]
    for bi, blk in enumerate(body.blocks):
        t = blk["term"]
        if t["k"] != "switch":
            continue
        ol = op_local(t["on"])
        for d in body.defs().get(ol, []) if ol is not None else []:
            if d[0] == "stmt" and d[3]["rv"].get("bin") == "ge":
                zero = [tg for v, tg in t["targets"] if v == "0"]
                if zero and _dominated_by_edge(body, bb, bi, t["otherwise"]):
                    adds = [b2 for b2, t2 in body.calls() if is_callee(t2, "core::num::<impl usize>::checked_add") and body.dominates(b2, bb)]
                    if adds:
                        return True, ""
    return False, "the subtraction is not under `i >= len` with new_len = i.checked_add(1)?"


@guard("resize-after-try-reserve")
def g_resize_after_reserve(ctx, F, body, site):
    bb = site["bb"]
    for b2, t2 in body.calls():
        if is_callee(t2, "try_reserve", "try_reserve_exact") and body.dominates(b2, bb):
            # its result is checked: a Try::branch on it whose Continue arm dominates the resize
            for b3, t3 in body.calls():
                if callee_def(t3) == "std::ops::Try::branch" and flows_into(body, b2, t3["args"][0]):
                    sw = tables.arms_complete(body, t3["t"])
                    if sw and "Continue" in sw[2] and _dominated_by_edge(body, bb, t3["t"], sw[2]["Continue"]):
                        return True, ""
    return False, "the resize is not preceded by a checked try_reserve for the extension"
