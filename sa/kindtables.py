"""Kind tables of exec::val::Val computed with KIND (sa/kind.py), summarised at kind level and at term level."""
from . import kind
from .kind import E, is_e, c

VAL = "exec::val::Val"
KINDS = ["Undefined", "Null", "Boolean", "Number", "String", "Array"]
LET = {"Undefined": "U", "Null": "L", "Boolean": "B", "Number": "N", "String": "S", "Array": "A"}
OPT = "std::option::Option"
RES = "std::result::Result"


def mk(k, who):
    if k in ("Undefined", "Null"):
        return E(VAL, k)
    return E(VAL, k, ("sym", who + ".0"))


def summ(v, depth=0):
    """kind-level summary of an abstract value"""
    if not isinstance(v, tuple) or not v:
        return "?"
    if is_e(v, VAL):
        return LET[v[2]]
    if is_e(v, "exec::val::ValError"):
        return v[2]
    if is_e(v, "std::borrow::Cow"):
        return summ(v[3][0], depth + 1)
    if is_e(v):
        if depth > 4:
            return v[2]
        return v[2] + ("(" + ",".join(summ(x, depth + 1) for x in v[3]) + ")" if v[3] else "")
    if v[0] == "c":
        if isinstance(v[1], bool):
            return "true" if v[1] else "false"
        return "const"
    if v[0] == "from":
        return summ(v[1], depth + 1)
    if v[0] == "t":
        return "(" + ",".join(summ(x, depth + 1) for x in v[1]) + ")"
    return "_"


def term(v, depth=0):
    """compact term rendering (symbolic atoms and operations, no evaluation)"""
    if not isinstance(v, tuple) or not v:
        return str(v)
    if depth > 6:
        return ".."
    h = v[0]
    if h == "sym":
        return v[1]
    if h == "c":
        return repr(v[1]) if not isinstance(v[1], tuple) else "discr:" + v[1][2]
    if h == "e":
        name = v[2] if v[1] != VAL else LET[v[2]]
        return name + ("(" + ",".join(term(x, depth + 1) for x in v[3]) + ")" if v[3] else "")
    if h == "t":
        return "(" + ",".join(term(x, depth + 1) for x in v[1]) + ")"
    if h == "op":
        return v[1] + "(" + ",".join(term(x, depth + 1) for x in v[2]) + ")"
    if h == "call":
        return v[1].rsplit("::", 1)[-1] + "(" + ",".join(term(x, depth + 1) for x in v[2]) + ")"
    if h == "field":
        return term(v[1], depth + 1) + "." + str(v[2]) + str(v[3])
    if h == "from":
        return term(v[1], depth + 1)
    if h == "closure":
        return "closure"
    if h == "top":
        return "_"
    return h


class Tables:
    def __init__(self, F):
        self.F = F
        self.I = kind.Interp(F)

    def fn(self, name):
        return self.F.fn("exec::val::Val::" + name)

    def binary(self, name):
        """{(A, B): [Outcome]} for a method (&self, &Val)"""
        fn = self.fn(name)
        if fn is None:
            return None
        out = {}
        for a in KINDS:
            for b in KINDS:
                out[(a, b)] = self.I.run(fn, [mk(a, "self"), mk(b, "other")])
        return out

    def unary(self, name, extra=()):
        fn = self.fn(name)
        if fn is None:
            return None
        return {a: self.I.run(fn, [mk(a, "self")] + list(extra)) for a in KINDS}

    def with_option_param(self, name):
        """{(A, P): outcomes} for methods (&mut self, Option<Val>), P in None + the six kinds"""
        fn = self.fn(name)
        if fn is None:
            return None
        out = {}
        for a in KINDS:
            out[(a, "None")] = self.I.run(fn, [mk(a, "self"), E(OPT, "None")])
            for p in KINDS:
                out[(a, p)] = self.I.run(fn, [mk(a, "self"), E(OPT, "Some", mk(p, "param"))])
        return out


def cell(outs, with_self=False, param=1):
    """sorted kind-level summaries of the outcomes of one cell"""
    s = set()
    for o in outs:
        if o.ret[0] == "diverge":
            s.add("PANIC")
            continue
        x = summ(o.ret)
        if with_self and param in o.refs:
            x += "/self=" + summ(o.refs[param])
        s.add(x)
    return sorted(s)
