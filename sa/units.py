"""UNITS: affine units for positions in the lexer (demand-driven form).

Every integer value that reaches a position sink (slice ranges, token constructors, location constructors, the line state,
LexResult fields, arguments of the lexer's own functions) is typed, by following its definitions backwards, as
  P  byte point (offset into the source)      V  byte vector (length / difference of offsets)
  LP line point (1-based line number)         LV line vector (count of newlines)
  W  wildcard (integer literal)               ?  not typeable
with the affine algebra  P+V=P, V+P=P, P-P=V, P-V=P, V+-V=V (same for the line space); P+P, V-P and mixing the byte
and line spaces are errors.  Seeds: spec/field_units.json (struct fields and parameter names of the position vocabulary)."""
import json
import os

from .core import op_place, op_local, callee_def
from .flow import origins

VERIF = os.path.dirname(os.path.dirname(os.path.abspath(__file__)))

POINT_CALLS = ("find_next_index", "find_next_word_end", "current_idx", "get_index_of", "get_start_index_of")
PASS_THROUGH = ("branch", "from_output", "unwrap", "unwrap_or", "unwrap_or_default", "try_from", "from", "into", "try_into", "ok", "clone", "expect", "unchecked_unwrap", "copied", "cloned", "as_ref", "deref")


def load_seeds():
    with open(os.path.join(VERIF, "spec", "field_units.json")) as f:
        return json.load(f)


def join(a, b):
    if a == b:
        return a
    if a.startswith("!"):
        return a
    if b.startswith("!"):
        return b
    if a == "W":
        return b
    if b == "W":
        return a
    if "?" in (a, b):
        return "?"
    return "!%s/%s" % (a, b)


def add(a, b):
    t = {("P", "V"): "P", ("V", "P"): "P", ("P", "W"): "P", ("W", "P"): "P", ("V", "V"): "V", ("V", "W"): "V", ("W", "V"): "V", ("W", "W"): "W",
         ("LP", "LV"): "LP", ("LV", "LP"): "LP", ("LP", "W"): "LP", ("W", "LP"): "LP", ("LV", "LV"): "LV", ("LV", "W"): "LV", ("W", "LV"): "LV"}
    if "?" in (a, b):
        return "?"
    if a.startswith("!") or b.startswith("!"):
        return a if a.startswith("!") else b
    return t.get((a, b), "!%s+%s" % (a, b))


def sub(a, b):
    t = {("P", "P"): "V", ("P", "V"): "P", ("P", "W"): "P", ("V", "V"): "V", ("V", "W"): "V", ("W", "V"): "V", ("W", "W"): "W",
         ("LP", "LP"): "LV", ("LP", "LV"): "LP", ("LP", "W"): "LP", ("LV", "LV"): "LV", ("LV", "W"): "LV"}
    if "?" in (a, b):
        return "?"
    if a.startswith("!") or b.startswith("!"):
        return a if a.startswith("!") else b
    return t.get((a, b), "!%s-%s" % (a, b))


class Units:
    def __init__(self, F):
        self.F = F
        self.seeds = load_seeds()
        self.memo = {}

    def field_unit(self, of, name):
        short = (of or "").rsplit("::", 1)[-1]
        return self.seeds["fields"].get("%s.%s" % (short, name))

    def param_unit(self, fn, l):
        name = fn.local_name(l)
        if name is None:
            return None
        ty = fn.local_ty(l).peel_refs().s
        if ty not in ("usize", "u32", "u64", "isize", "i32"):
            return None
        return self.seeds["params"].get(name)

    def unit_of(self, fn, operand, depth=0):
        c = operand.get("const")
        if c is not None:
            return "W" if "int" in c else "?"
        pl = op_place(operand)
        if pl is None:
            return "?"
        return self.unit_of_place(fn, pl, depth)

    def unit_of_place(self, fn, pl, depth=0):
        if depth > 25:
            return "?"
        key = (fn.path, pl["l"], json.dumps(pl["p"], sort_keys=True))
        if key in self.memo:
            return self.memo[key] or "?"
        self.memo[key] = None
        u = self._unit_of_place(fn, pl, depth)
        self.memo[key] = u
        return u

    def _unit_of_place(self, fn, pl, depth):
        l = pl["l"]
        proj = [e for e in pl["p"] if e != "deref" and not (isinstance(e, dict) and "dc" in e)]
        # the innermost seeded struct field decides
        for e in reversed(proj):
            if isinstance(e, dict) and "f" in e:
                u = self.field_unit(e.get("of"), e.get("name", str(e["f"])))
                if u:
                    return u
        # closure capture
        if fn.kind == "closure" and l == 1 and proj and isinstance(proj[0], dict) and proj[0].get("of") == "closure":
            name = None
            for uv in fn.mir.get("upvars", []):
                up = uv["place"]["p"]
                fs = [x for x in up if isinstance(x, dict) and "f" in x]
                if fs and fs[0]["f"] == proj[0]["f"]:
                    name = uv["name"]
            parent = self.F.fn(fn.d["parent"])
            if name and parent is not None:
                for i, loc in enumerate(parent.locals):
                    if loc.get("name") == name:
                        u = self.unit_of_place(parent, {"l": i, "p": []}, depth + 1)
                        if len(proj) > 1:
                            return self._through(fn, u, proj[1:])
                        return u
                # a capture of a capture (nested closure)
                if parent.kind == "closure":
                    for uv in parent.mir.get("upvars", []):
                        if uv["name"] == name:
                            return self.unit_of_place(parent, uv["place"], depth + 1)
                # a captured parameter seeded by name
                u = self.seeds["params"].get(name)
                if u:
                    return u
            return "?"
        # an item of CharIndices: the (usize, char) pair
        lt = fn.local_ty(l)
        if proj and isinstance(proj[-1], dict) and proj[-1].get("of") == "tuple":
            # which tuple type is being projected?  walk the type along the projection
            t = lt
            for e in pl["p"]:
                if e == "deref":
                    t = t.inner() or t
                elif isinstance(e, dict) and "f" in e and t is not None:
                    if t.kind() == "tuple":
                        tt = t
                        if e is proj[-1] and [x.s for x in tt.components()] == ["usize", "char"] and e["f"] == 0:
                            return "P"
                        comps = t.components()
                        t = comps[e["f"]] if e["f"] < len(comps) else None
                    elif t.kind() == "adt":
                        a = t.args()
                        t = a[0] if a else None
                    else:
                        t = None
                if t is None:
                    break
        if proj:
            # a field of a tuple built in this body: the operand that was put there
            first = proj[0]
            if isinstance(first, dict) and first.get("of") == "tuple":
                # (a, b).i  or  ((a, b).i as Some).0 : what was put into the tuple (further projections keep the unit)
                for d in fn.defs().get(l, []):
                    if d[0] == "stmt" and d[3]["rv"].get("agg") == "tuple" and first["f"] < len(d[3]["rv"]["ops"]):
                        return self.unit_of(fn, d[3]["rv"]["ops"][first["f"]], depth + 1)
            # a field of a tuple returned by a local helper: the operand the helper put there
            if isinstance(first, dict) and first.get("of") == "tuple" and depth < 12:
                cdefs = [d for d in fn.defs().get(l, []) if d[0] == "call"]
                if cdefs and len(cdefs) == len(fn.defs().get(l, [])):
                    us = []
                    for d in cdefs:
                        cal = d[2]["callee"]
                        target = None if "indirect" in cal else (self.F.fn(cal.get("resolved") or cal["def"]) or self.F.fn(cal["def"]))
                        if target is None or target.in_test_file():
                            us = None
                            break
                        for bi2, si2, st2 in target.assigns():
                            if st2["pl"]["l"] == 0 and not st2["pl"]["p"] and st2["rv"].get("agg") == "tuple" and first["f"] < len(st2["rv"]["ops"]):
                                us.append(self.unit_of(target, st2["rv"]["ops"][first["f"]], depth + 1))
                    if us:
                        r = us[0]
                        for x in us[1:]:
                            r = join(r, x)
                        return r
            # a field of a struct value built in this body (`let span = a..b; span.start`): the operand that was put there
            if isinstance(first, dict) and "f" in first and first.get("of") not in ("tuple", "closure"):
                built = [d for d in fn.defs().get(l, []) if d[0] == "stmt" and isinstance(d[3]["rv"].get("agg"), dict) and d[3]["rv"]["agg"].get("adt") == first.get("of")]
                if built and len(built) == len(fn.defs().get(l, [])) and all(first["f"] < len(d[3]["rv"]["ops"]) for d in built):
                    us = [self.unit_of(fn, d[3]["rv"]["ops"][first["f"]], depth + 1) for d in built]
                    r = us[0]
                    for x in us[1:]:
                        r = join(r, x)
                    return r
            # a projection of something computed: (checked op).0, (Option as Some).0, tuple fields of call results
            base = self.unit_of_place(fn, {"l": l, "p": []}, depth + 1)
            return base
        # whole local
        if 1 <= l <= fn.argc:
            u = self.param_unit(fn, l)
            if u:
                return u
            if fn.kind == "closure" and l >= 2:
                # parameter of a closure handed to a combinator: what the combinator was applied to
                from .tokens import closure_use
                use = closure_use(self.F, fn)
                if use:
                    parent, cb, ct = use
                    if ct["callee"].get("name") in ("map", "and_then", "map_or", "map_or_else", "filter", "inspect", "find", "take_while_ref", "for_each", "is_some_and") and ct["args"]:
                        return self.unit_of(parent, ct["args"][0], depth + 1)
                return "?"
        res = None
        defs = fn.defs().get(l, [])
        if not defs and 1 <= l <= fn.argc:
            return "?"
        for d in defs:
            if d[0] == "call":
                u = self.unit_of_call(fn, d[2], depth)
            else:
                rv = d[3]["rv"]
                if "use" in rv:
                    u = self.unit_of(fn, rv["use"], depth + 1)
                elif "cast" in rv:
                    u = self.unit_of(fn, rv["a"], depth + 1)
                elif "ref" in rv:
                    u = self.unit_of_place(fn, rv["ref"], depth + 1)
                elif "bin" in rv:
                    a = self.unit_of(fn, rv["a"], depth + 1)
                    b = self.unit_of(fn, rv["b"], depth + 1)
                    if rv["bin"] == "add":
                        u = add(a, b)
                    elif rv["bin"] == "sub":
                        u = sub(a, b)
                    else:
                        u = "?"
                elif "agg" in rv:
                    # Option::Some(x) / tuple: unit of the (single) integer payload
                    us = [self.unit_of(fn, o, depth + 1) for o in rv["ops"]]
                    bad = [x for x in us if x.startswith("!")]
                    if bad:
                        res = bad[0] if res is None else join(res, bad[0])
                        continue
                    us = [x for x in us if x != "?"]
                    u = us[0] if len(us) == 1 else ("W" if not us and not rv["ops"] else "?")
                    if isinstance(rv["agg"], dict) and rv["agg"].get("variant") == "None":
                        u = "W"
                else:
                    u = "?"
            res = u if res is None else join(res, u)
        return res or "?"

    def _through(self, fn, u, rest):
        return u

    def unit_of_call(self, fn, t, depth):
        cal = t["callee"]
        if "indirect" in cal:
            return "?"
        name = cal["name"]
        d = cal["def"]
        if name in POINT_CALLS:
            return "P"
        if name == "len":
            # the length of the whole buffer is its end point; any other length is a vector
            for dd, pp in origins(fn, t["args"][0]):
                if dd[0] == "param" and pp[-1:] == ("buf",):
                    return "P"
            if self._foreign_string(fn, t["args"][0]):
                return "!F"
            return "V"
        if name in ("offset_from",):
            return "P"
        if name in ("checked_add", "saturating_add", "wrapping_add"):
            return add(self.unit_of(fn, t["args"][0], depth + 1), self.unit_of(fn, t["args"][1], depth + 1))
        if name in ("checked_sub", "saturating_sub", "wrapping_sub"):
            return sub(self.unit_of(fn, t["args"][0], depth + 1), self.unit_of(fn, t["args"][1], depth + 1))
        if name in ("max", "min"):
            return join(self.unit_of(fn, t["args"][0], depth + 1), self.unit_of(fn, t["args"][1], depth + 1))
        if d in ("std::mem::replace", "std::mem::take") and t["args"]:
            # the old content of the place: whatever unit the place holds
            return self.unit_of(fn, t["args"][0], depth + 1)
        if name in PASS_THROUGH and t["args"]:
            u = self.unit_of(fn, t["args"][0], depth + 1)
            if name == "unwrap_or" and len(t["args"]) > 1:
                u = join(u, self.unit_of(fn, t["args"][1], depth + 1))
            return u
        if name in ("map", "and_then", "map_or", "map_or_else", "then", "unwrap_or_else", "or_else", "filter", "inspect", "find", "next", "checked_sub"):
            # result of a closure: unit of the closure's return value(s)
            us = []
            for a in t["args"]:
                l = op_local(a)
                if l is None:
                    continue
                ty = fn.local_ty(l).peel_refs()
                if ty.kind() == "closure":
                    cf = self.F.fn(ty.d["closure"])
                    if cf is not None:
                        us.append(self.unit_of_place(cf, {"l": 0, "p": []}, depth + 1))
            if name in ("map_or",) and len(t["args"]) > 1:
                us.append(self.unit_of(fn, t["args"][1], depth + 1))
            if name in ("filter", "inspect", "find", "next", "or_else", "unwrap_or_else") and t["args"]:
                us.append(self.unit_of(fn, t["args"][0], depth + 1))
            bad = [x for x in us if x.startswith("!")]
            if bad:
                return bad[0]
            us = [x for x in us if x != "?"]
            if not us:
                return "?"
            r = us[0]
            for x in us[1:]:
                r = join(r, x)
            return r
        target = self.F.fn(cal.get("resolved") or d) or self.F.fn(d)
        if target is not None and not target.in_test_file():
            return self.unit_of_place(target, {"l": 0, "p": []}, depth + 1)
        return "?"

    def _foreign_string(self, fn, operand, depth=0, seen=None):
        """does the string whose length is taken derive from a freshly built String (to_lowercase, format, collect ..) rather
        than from a slice of the source buffer?  Its byte length says nothing about the source text."""
        seen = seen if seen is not None else set()
        for d, p in origins(fn, operand):
            if d[0] == "param" and fn.kind == "closure" and d[1] >= 2 and depth < 10:
                from .tokens import closure_use
                use = closure_use(self.F, fn)
                if use and use[2]["args"] and self._foreign_string(use[0], use[2]["args"][0], depth + 1, seen):
                    return True
            if d[0] != "call" or d[1] in seen or depth > 10:
                continue
            seen.add(d[1])
            t = fn.term(d[1])
            dty = fn.local_ty(t["dest"]["l"])
            if any(x.kind() == "adt" and x.adt() in ("std::string::String", "std::borrow::Cow") for x in dty.walk()):
                return True
            for a in t["args"]:
                if self._foreign_string(fn, a, depth + 1, seen):
                    return True
        return False

    # ---------------------------------------------------------------- sinks
    def sinks(self, fn):
        """[(expected unit, operand, description, line)] position sinks in one body"""
        out = []
        F = self.F
        for bi, t in fn.calls():
            cal = t["callee"]
            if "indirect" in cal:
                continue
            target = F.fn(cal.get("resolved") or cal["def"]) or F.fn(cal["def"])
            if target is not None and (target.file.endswith("frontend/lexer.rs") or target.file.endswith("frontend/source_range.rs")) and not target.in_test_file():
                for i in range(1, target.argc + 1):
                    u = self.param_unit(target, i)
                    if u and i - 1 < len(t["args"]):
                        out.append((u, t["args"][i - 1], "argument `%s` of %s" % (target.local_name(i), target.name), t["line"]))
            inst = cal.get("inst") or ""
            if t["args"] and ("(u32, u32) as std::convert::Into<frontend::source_range::SourceLocation>" in inst
                              or "frontend::source_range::SourceLocation as std::convert::From<(u32, u32)>" in inst):
                # (line, column).into(): the pair is a location
                SL = "frontend::source_range::SourceLocation"
                for dd in fn.defs().get(op_local(t["args"][0]), []):
                    if dd[0] == "stmt" and dd[3]["rv"].get("agg") == "tuple" and len(dd[3]["rv"]["ops"]) == 2:
                        for o, nm in zip(dd[3]["rv"]["ops"], ("line", "column")):
                            u = self.field_unit(SL, nm)
                            if u:
                                out.append((u, o, "SourceLocation.%s" % nm, t["line"]))
            if cal.get("def") == "std::mem::replace" and len(t["args"]) == 2:
                # mem::replace(&mut x.f, v) writes v into the seeded field f
                from .rules.common import ref_target_fields
                fs = ref_target_fields(fn, t["args"][0])
                if fs:
                    u = self.field_unit(fs[-1].get("of"), fs[-1].get("name", ""))
                    if u:
                        out.append((u, t["args"][1], "write of %s.%s" % ((fs[-1].get("of") or "").rsplit("::", 1)[-1], fs[-1].get("name")), t["line"]))
        for bi, si, s in fn.assigns():
            rv = s["rv"]
            a = rv.get("agg")
            if isinstance(a, dict) and a.get("adt") in ("std::ops::Range", "std::ops::RangeFrom", "std::ops::RangeTo", "std::ops::RangeInclusive") and rv["ops"]:
                tys = [F.ty(i).s for i in a.get("args", [])]
                if tys == ["usize"]:
                    for o, nm in zip(rv["ops"], ("start", "end")):
                        out.append(("P", o, "%s of a byte range" % nm, s["line"]))
            if isinstance(a, dict) and a.get("adt", "").endswith("::LexResult"):
                adt = F.adts[a["adt"]]
                for f, o in zip(adt["variants"][0]["fields"], rv["ops"]):
                    u = self.field_unit(a["adt"], f["name"])
                    if u:
                        out.append((u, o, "LexResult.%s" % f["name"], s["line"]))
            if isinstance(a, dict) and a.get("adt", "").endswith("::SourceLocation"):
                adt = F.adts[a["adt"]]
                for f, o in zip(adt["variants"][0]["fields"], rv["ops"]):
                    u = self.field_unit(a["adt"], f["name"])
                    if u:
                        out.append((u, o, "SourceLocation.%s" % f["name"], s["line"]))
            # writes of seeded fields
            for e in s["pl"]["p"]:
                if isinstance(e, dict) and "f" in e:
                    u = self.field_unit(e.get("of"), e.get("name", ""))
                    if u and e is [x for x in s["pl"]["p"] if isinstance(x, dict) and "f" in x][-1]:
                        if "use" in rv:
                            out.append((u, rv["use"], "write of %s.%s" % ((e.get("of") or "").rsplit("::", 1)[-1], e.get("name")), s["line"]))
                        elif "bin" in rv and rv["bin"] in ("add", "sub"):
                            pass
            if rv.get("bin") in ("lt", "le", "gt", "ge", "eq", "ne"):
                ta = fn.local_ty(op_place(rv["a"])["l"]).peel_refs().s if op_place(rv["a"]) else None
                if ta in ("usize", "u32"):
                    out.append(("=", (rv["a"], rv["b"]), "comparison", s["line"]))
        return out
