"""PROGRESS: every loop and every recursion cycle of the lexer and the parser consumes input.

Loops: each CFG cycle must contain one *pivot* call of a consuming primitive such that removing the pivot block breaks
every cycle of the component and the loop is left on the primitive's "nothing consumed" outcome.
Recursion: after deleting the call edges that are guarded by consumption, the parser's call graph is acyclic.
No-statement kinds: token kinds for which parse_statement yields "no statement" without consuming must be consumed or
rejected by every construct that would call parse_statement again."""
from .core import op_place, op_local, callee_def
from .flow import origins
from . import tables, tokens
from .rules.common import is_callee, error_exit_blocks

PARSER = "frontend::parser::Parser::<'a>::"
# primitives: the call consumes exactly when its result is the "positive" shape
CONSUMING_OPTION = (PARSER + "match_and_consume", "std::iter::Iterator::next", PARSER + "parse_statement", "frontend::lexer::find_word_start",
                    "std::iter::Iterator::find")
CONSUMING_ALWAYS = (PARSER + "consume",)
STATEMENT_BLOCKS = (PARSER + "parse_block", PARSER + "parse_function_block")
CONSUMING_RESULT = (PARSER + "expect_token", PARSER + "expect_any", PARSER + "expect_token_ispelled", PARSER + "expect_identifier",
                    PARSER + "expect_variable_name")


def parser_fns(F):
    return [fn for fn in F.all_fns(tests=False) if fn.file.endswith("frontend/parser.rs") or fn.file.endswith("frontend/lexer.rs")]


def deep_sources(fn, operand, depth=0, seen=None):
    """blocks of the calls whose result (transitively, through the arguments of later calls) an operand derives from"""
    seen = seen if seen is not None else set()
    out = set()
    for d, p in origins(fn, operand):
        if d[0] == "call" and d[1] not in seen and depth < 12:
            seen.add(d[1])
            out.add(d[1])
            for a in fn.term(d[1])["args"]:
                out |= deep_sources(fn, a, depth + 1, seen)
    return out


_PRED_CACHE = {}


def consuming_predicates(F):
    """parser helpers that report with `true` (or Some) exactly when they consumed: functions of parser.rs returning bool whose every
    `true` result is confined to the positive edge of match_and_consume (or of another such helper).  {path: True}"""
    key = id(F)
    if key in _PRED_CACHE:
        return _PRED_CACHE[key]
    from .guards import _dominated_by_edge
    out = {}
    for _ in range(2):
        for fn in F.all_fns(tests=False):
            if fn.kind == "closure" or not fn.file.endswith("frontend/parser.rs") or not fn.mir or fn.path in out:
                continue
            if F.ty(fn.d["ret"]).s != "bool":
                continue
            trues = [bi for bi, si, st in fn.assigns() if st["pl"]["l"] == 0 and (st["rv"].get("use", {}).get("const") or {}).get("int") in ("1", 1, "true")]
            others = [bi for bi, si, st in fn.assigns() if st["pl"]["l"] == 0 and not (st["rv"].get("use", {}).get("const") or {})]
            if not trues or others:
                continue
            ok = True
            for tb in trues:
                confined = False
                for cb, ct in fn.calls():
                    d = callee_def(ct) or ""
                    if d != PARSER + "match_and_consume" and d not in out:
                        continue
                    for sb in range(len(fn.blocks)):
                        sw = tables.arms_complete(fn, sb)
                        if sw and "Some" in sw[2] and cb in deep_sources(fn, {"copy": {"l": sw[0]["l"], "p": []}}):
                            if sw[2]["Some"] == tb or _dominated_by_edge(fn, tb, sb, sw[2]["Some"]):
                                confined = True
                if not confined:
                    ok = False
            if ok:
                out[fn.path] = True
    _PRED_CACHE[key] = out
    return out


def loop_pivots(F, fn):
    """for every non-trivial SCC of fn: (scc, pivot block or None, text)"""
    res = []
    preds = consuming_predicates(F)
    for scc in fn.sccs():
        cands = []
        for b in sorted(scc):
            t = fn.term(b)
            if t["k"] != "call":
                continue
            d = callee_def(t) or ""
            r = t["callee"].get("resolved") or d
            if d in CONSUMING_OPTION or r in CONSUMING_OPTION or d in CONSUMING_ALWAYS or d in STATEMENT_BLOCKS or d in preds:
                cands.append(b)
            elif d == "itertools::Itertools::take_while_ref" or d.endswith("take_while_ref"):
                cands.append(b)
        verdict = None
        for b in cands:
            # removing the pivot breaks every cycle of the component
            sub = scc - {b}
            if _has_cycle(fn, sub):
                continue
            t = fn.term(b)
            d = callee_def(t) or ""
            if d in CONSUMING_ALWAYS:
                verdict = (b, "consume() on every iteration")
                break
            if d in STATEMENT_BLOCKS:
                # a block parser consumes unless the current token is a no-statement kind (decided by the no-statement rule) or the
                # input is at its end: the loop must be guarded by a test of current()
                for sb in scc:
                    st = fn.term(sb)
                    if st["k"] == "switch" and any(callee_def(fn.term(x)) == PARSER + "current" for x in deep_sources(fn, st["on"])) and any(tg not in scc for tg in fn.succs()[sb]):
                        verdict = (b, "parse_block consumes unless at end of input (loop guard) or at a no-statement kind (no-statement rule)")
                if verdict:
                    break
                continue
            # the loop must be left when the primitive reports "nothing": a switch in the component, fed by the pivot's result,
            # with an edge out of the component
            ok = False
            for sb in scc:
                st = fn.term(sb)
                if st["k"] != "switch":
                    continue
                if b not in deep_sources(fn, st["on"]) and not _discr_source(fn, st, b):
                    continue
                outs = [tg for tg in fn.succs()[sb] if tg not in scc]
                ins = [tg for tg in fn.succs()[sb] if tg in scc]
                if outs and ins:
                    ok = True
            if ok:
                verdict = (b, "continues only while %s yields something" % d.rsplit("::", 1)[-1])
                break
        res.append((scc, verdict))
    return res


def _discr_source(fn, st, pivot_bb):
    ol = op_local(st["on"])
    if ol is None:
        return False
    for d in fn.defs().get(ol, []):
        if d[0] == "stmt" and "discr" in d[3]["rv"]:
            pl = d[3]["rv"]["discr"]
            if pivot_bb in deep_sources(fn, {"copy": {"l": pl["l"], "p": []}}):
                return True
    return False


def _has_cycle(fn, blocks):
    blocks = set(blocks)
    color = {}
    for s in blocks:
        if s in color:
            continue
        stack = [(s, iter([x for x in fn.succs()[s] if x in blocks]))]
        color[s] = 1
        while stack:
            node, it = stack[-1]
            nxt = next(it, None)
            if nxt is None:
                color[node] = 2
                stack.pop()
                continue
            if color.get(nxt) == 1:
                return True
            if nxt not in color:
                color[nxt] = 1
                stack.append((nxt, iter([x for x in fn.succs()[nxt] if x in blocks])))
    return False


# ------------------------------------------------------------------------------------------
# recursion


def guarded_by_consumption(F, fn, bb, depth=0):
    """is the call at block bb of fn only executed after a token was consumed in this activation (or the enclosing one, for a
    closure handed to a combinator on a consuming primitive's result)?"""
    from .guards import _dominated_by_edge, _closure_use
    for b2, t2 in fn.calls():
        if b2 == bb:
            continue
        d = callee_def(t2) or ""
        if d in CONSUMING_ALWAYS and fn.dominates(b2, bb):
            return True
        if d in CONSUMING_RESULT or d == PARSER + "match_and_consume" or d == PARSER + "parse_identifier" or d == PARSER + "parse_variable_name" or d == PARSER + "expect_token_or_end":
            # `.is_some()` / `.is_none()` of this call's result: the edge on which something was matched dominates bb
            from .guards import _bool_edges
            for b3, t3 in fn.calls():
                if t3["callee"].get("name") in ("is_some", "is_none", "is_ok", "is_err") and t3["args"] and b2 in deep_sources(fn, t3["args"][0]):
                    e = _bool_edges(fn, b3)
                    if e:
                        tg = e[2] if t3["callee"]["name"] in ("is_some", "is_ok") else e[1]
                        if tg == bb or _dominated_by_edge(fn, bb, e[0], tg):
                            return True
            # a switch fed by this call's result whose positive edge dominates bb
            for sb in range(len(fn.blocks)):
                st = fn.term(sb)
                if st["k"] != "switch" or not fn.dominates(b2, sb):
                    continue
                if b2 not in deep_sources(fn, st["on"]) and not _discr_source(fn, st, b2):
                    continue
                sw = tables.switch_on_discr(fn, sb)
                pos = []
                if sw:
                    for v in ("Some", "Continue", "Ok"):
                        if v in sw[2]:
                            pos.append(sw[2][v])
                else:
                    pos.append(st["otherwise"])
                for tg in pos:
                    if tg == bb or _dominated_by_edge(fn, bb, sb, tg):
                        # Continue of `parse_identifier()?` is Ok(Option): only Ok(Some) consumed; require a further Some test or ok_or_else
                        return True
    if fn.kind == "closure" and depth < 3:
        use = _closure_use(F, fn)
        if use:
            parent, cb, ct = use
            name = ct["callee"].get("name")
            if name in ("map", "and_then", "map_or", "map_or_else", "then") and ct["args"]:
                srcs = deep_sources(parent, ct["args"][0])
                for sbk in srcs:
                    d = callee_def(parent.term(sbk)) or ""
                    if d == PARSER + "match_and_consume" or d in CONSUMING_RESULT or d in CONSUMING_ALWAYS:
                        return True
            return guarded_by_consumption(F, parent, cb, depth + 1)
    return False


def recursion_cycles(F):
    """(unguarded call graph edges, cycles among them) over the functions of parser.rs (closures folded into their function)"""
    fns = [fn for fn in F.all_fns(tests=False) if fn.file.endswith("frontend/parser.rs")]
    top = {}
    for fn in fns:
        cur = fn
        while cur.kind == "closure" and F.fn(cur.d["parent"]) is not None:
            cur = F.fn(cur.d["parent"])
        top[fn.path] = cur.path
    names = {fn.path for fn in fns if fn.kind != "closure"}
    edges = {}
    n_edges = 0
    n_guarded = 0
    for fn in fns:
        for bi, t in fn.calls():
            d = t["callee"].get("resolved") or callee_def(t)
            if d not in names:
                # fn items passed as arguments (Self::parse_term) count as calls
                continue
            n_edges += 1
            if guarded_by_consumption(F, fn, bi):
                n_guarded += 1
                continue
            edges.setdefault(top[fn.path], set()).add((d, fn.path, bi))
        for bi, t in fn.calls():
            for a in t["args"]:
                c = a.get("const")
                if c and c.get("fn") in names:
                    n_edges += 1
                    if guarded_by_consumption(F, fn, bi):
                        n_guarded += 1
                        continue
                    edges.setdefault(top[fn.path], set()).add((c["fn"], fn.path, bi))
    # cycles
    graph = {k: {d for d, _, _ in v} for k, v in edges.items()}
    cycles = []
    color = {}

    def dfs(u, path):
        color[u] = 1
        path.append(u)
        for v in sorted(graph.get(u, ())):
            if color.get(v) == 1:
                cycles.append(path[path.index(v):] + [v])
            elif v not in color:
                dfs(v, path)
        path.pop()
        color[u] = 2
    for u in sorted(graph):
        if u not in color:
            dfs(u, [])
    return edges, cycles, n_edges, n_guarded


# ------------------------------------------------------------------------------------------
# no-statement kinds


def no_statement_kinds(F):
    """kinds for which parse_statement's dispatch returns None without calling anything (nothing consumed, nothing rejected)"""
    ps = F.fn(PARSER + "parse_statement")
    if ps is None:
        return None, None
    for b in F.with_closures(ps):
        for bi in range(len(b.blocks)):
            sw = tables.arms_complete(b, bi)
            if not sw or sw[1].peel_refs().adt() != "frontend::lexer::TokenType" or not tokens.is_current_kind_place(F, b, sw[0]):
                continue
            by_target = {}
            for v, tg in sw[2].items():
                by_target.setdefault(tg, set()).add(v)
            none_kinds = set()
            for tg, vs in by_target.items():
                others = [x for x in by_target if x != tg]
                region = b.reachable(tg, avoid=others)
                has_call = any(b.term(x)["k"] == "call" for x in region)
                builds_none = any(s["k"] == "assign" and isinstance(s["rv"].get("agg"), dict) and s["rv"]["agg"].get("variant") == "None" and s["pl"]["l"] == 0
                                  for x in region for s in b.stmts(x))
                if builds_none and not has_call:
                    none_kinds |= vs
            return none_kinds, b
    return None, None


def handled_before_statement(F, fn, stmt_call_bb, kinds):
    """subset of `kinds` that fn consumes (match_and_consume(K)) or tests (current_matches(K)) on every path from its entry to
    the call at stmt_call_bb"""
    handled = set()
    for b2, t2 in fn.calls():
        d = callee_def(t2) or ""
        if d in (PARSER + "match_and_consume", PARSER + "current_matches") and fn.dominates(b2, stmt_call_bb) and b2 != stmt_call_bb:
            ks = tokens.resolve_token_set(F, fn, t2["args"][1])
            if ks:
                handled |= ks & kinds
    return handled
