"""KIND ("kindflow"): a finite-domain abstract interpreter over MIR facts.

Values are enum variants with abstract fields, constants, tuples, closures and *terms* over symbolic atoms
(`self.0`, `other.0`, ...): payloads are never evaluated, only the shape of what is computed from what is
recorded.  Branches on a known discriminant follow one edge; branches on an unknown enum fork per variant
(refining the place); branches on an unknown scalar fork both ways and record the condition.  Crate-local calls are
interpreted in the callee (depth-bounded, memoised); a few std functions have models; any other external call
returns an opaque term.  Loops are cut after a bounded number of visits per block.  No rrss code is executed and no
solver is used: this is a dataflow analysis over a finite lattice made path-sensitive by forking."""
from .core import op_place, op_local, callee_def

TOP = ("top", None)
import os as _os
MAX_DEPTH = int(_os.environ.get('VERIF_KIND_DEPTH', 7))
MAX_VISITS = int(_os.environ.get('VERIF_KIND_VISITS', 2))
MAX_PATHS = int(_os.environ.get('VERIF_KIND_PATHS', 4000))


def c(v):
    return ("c", v)


def E(adt, variant, *fields):
    return ("e", adt, variant, tuple(fields))


def is_e(v, adt=None):
    return isinstance(v, tuple) and v and v[0] == "e" and (adt is None or v[1] == adt)


class Cut(Exception):
    pass


class Outcome:
    __slots__ = ("ret", "refs", "conds", "events")

    def __init__(self, ret, refs, conds, events):
        self.ret = ret
        self.refs = refs      # {param index: final value} for reference parameters
        self.conds = conds    # tuple of (term, taken)
        self.events = events  # tuple of notable calls (callee, args) in order

    def key(self):
        return (self.ret, tuple(sorted(self.refs.items())), self.conds, self.events)


VARIANT_TABLES = {
    "std::option::Option": ["None", "Some"],
    "std::result::Result": ["Ok", "Err"],
    "std::borrow::Cow": ["Borrowed", "Owned"],
    "std::ops::ControlFlow": ["Continue", "Break"],
    "std::cmp::Ordering": ["Less", "Equal", "Greater"],
}
ORDERING_DISCR = {"Less": -1, "Equal": 0, "Greater": 1}


class Interp:
    def __init__(self, F, models=None, record_calls=()):
        self.F = F
        self.memo = {}
        self.paths = 0
        self.record_calls = tuple(record_calls)
        self.const_env = {}  # const generic parameters bound by a rule: name -> abstract value
        self.oracle = None   # optional: decides comparisons between symbolic scalars (sa/order.py)
        self.models = dict(MODELS)
        if models:
            self.models.update(models)
        self.incomplete = []

    # ---------------------------------------------------------------- ADT helpers
    def variants_of(self, adt):
        if adt in self.F.adts:
            return [v["name"] for v in self.F.adts[adt]["variants"]]
        return VARIANT_TABLES.get(adt)

    def discr_of(self, adt, variant):
        if adt in self.F.adts:
            for v in self.F.adts[adt]["variants"]:
                if v["name"] == variant:
                    return int(v["discr"])
        if adt == "std::cmp::Ordering":
            return ORDERING_DISCR[variant]
        vs = VARIANT_TABLES.get(adt)
        if vs and variant in vs:
            return vs.index(variant)
        return None

    def variant_by_discr(self, adt, value):
        vs = self.variants_of(adt) or []
        for v in vs:
            d = self.discr_of(adt, v)
            if d is not None and (d == value or (d < 0 and value > 2 ** 7 and (value - d) % 256 == 0)):
                return v
        return None

    def n_fields(self, adt, variant):
        if adt in self.F.adts:
            for v in self.F.adts[adt]["variants"]:
                if v["name"] == variant:
                    return len(v["fields"])
        return {"Some": 1, "Ok": 1, "Err": 1, "Borrowed": 1, "Owned": 1, "Continue": 1, "Break": 1}.get(variant, 0)

    # ---------------------------------------------------------------- places
    def read(self, st, pl):
        v = st.get(pl["l"], TOP)
        return self._proj_read(st, v, pl["p"], 0)

    def _proj_read(self, st, v, proj, i):
        while i < len(proj):
            e = proj[i]
            if v[0] == "ref":
                v = self.read(st, {"l": v[1], "p": _unproj(v[2])})
            if e == "deref":
                i += 1
                continue
            if isinstance(e, dict) and "dc" in e:
                i += 1
                continue
            if isinstance(e, dict) and "f" in e:
                f = e["f"]
                if v[0] == "e":
                    want = e.get("v")
                    if want is not None and v[2] != want:
                        return TOP
                    v = v[3][f] if f < len(v[3]) else ("field", v, want, f)
                elif v[0] in ("t",):
                    v = v[1][f] if f < len(v[1]) else TOP
                elif v[0] == "closure":
                    v = v[2][f] if f < len(v[2]) else TOP
                elif v[0] == "top" or v[0] in ("sym", "op", "field", "call"):
                    v = ("field", v, e.get("v"), f)
                else:
                    v = TOP
                i += 1
                continue
            return TOP
        if v[0] == "ref" :
            return v
        return v

    def deref_full(self, st, v):
        guard = 0
        while isinstance(v, tuple) and v and v[0] == "ref" and guard < 10:
            v = self.read(st, {"l": v[1], "p": _unproj(v[2])})
            guard += 1
        return v

    def write(self, st, pl, val):
        l = pl["l"]
        proj = pl["p"]
        if not proj:
            st[l] = val
            return
        base = st.get(l, TOP)
        # writing through a reference held in the local
        if proj[0] == "deref" and base[0] == "ref":
            self.write(st, {"l": base[1], "p": _unproj(base[2]) + list(proj[1:])}, val)
            return
        st[l] = self._proj_write(st, base, proj, 0, val)

    def _proj_write(self, st, v, proj, i, val):
        if i >= len(proj):
            return val
        e = proj[i]
        if e == "deref" or (isinstance(e, dict) and "dc" in e):
            if e == "deref" and v[0] == "ref":
                self.write(st, {"l": v[1], "p": _unproj(v[2]) + list(proj[i + 1:])}, val)
                return v
            return self._proj_write(st, v, proj, i + 1, val)
        if isinstance(e, dict) and "f" in e:
            f = e["f"]
            if v[0] == "e":
                fields = list(v[3])
                while len(fields) <= f:
                    fields.append(TOP)
                fields[f] = self._proj_write(st, fields[f], proj, i + 1, val)
                return ("e", v[1], v[2], tuple(fields))
            if v[0] == "t":
                fields = list(v[1])
                while len(fields) <= f:
                    fields.append(TOP)
                fields[f] = self._proj_write(st, fields[f], proj, i + 1, val)
                return ("t", tuple(fields))
            return TOP
        return TOP

    # ---------------------------------------------------------------- operands / rvalues
    def operand(self, fn, st, o):
        cst = o.get("const")
        if cst is not None:
            if "fn" in cst:
                return ("fn", cst["fn"], cst.get("fn_inst"))
            if "promoted" in cst:
                owner = fn.promoted_of or fn
                ps = owner.promoteds()
                if cst["promoted"] < len(ps):
                    outs = self.run(ps[cst["promoted"]], [], depth=MAX_DEPTH - 1)
                    if len(outs) == 1:
                        return outs[0].ret
                return TOP
            if "str" in cst:
                return c(cst["str"])
            if "f64" in cst:
                return c(float(cst["f64"])) if cst["f64"] not in ("NaN", "inf", "-inf") else c(cst["f64"])
            if "char" in cst:
                return c(cst["char"])
            if "int" in cst:
                ty = self.F.ty(cst["ty"])
                if ty.s == "bool":
                    return c(cst["int"] == "1")
                return c(int(cst["int"]))
            v = cst.get("v", "")
            if v in self.const_env:
                return self.const_env[v]   # a const generic parameter bound by the rule (visit_loop::<INVERT>)
            ty = self.F.ty(cst["ty"])
            if ty.kind() == "adt" and "::" in v:
                # unit-like enum constant
                name = v.rsplit("::", 1)[-1].strip()
                vs = self.variants_of(ty.adt())
                if vs and name in vs:
                    return E(ty.adt(), name)
            if ty.kind() == "tuple" and not ty.d["tuple"]:
                return ("t", ())
            return ("sym", "const:" + v)
        pl = op_place(o)
        if pl is None:
            return TOP
        return self.read(st, pl)

    def rvalue(self, fn, st, rv):
        if "use" in rv:
            return self.operand(fn, st, rv["use"])
        if "ref" in rv or "rawptr" in rv:
            pl = rv.get("ref") or rv.get("rawptr")
            # a reference to a place of this frame; reading through it resolves the place
            base = st.get(pl["l"], TOP)
            if pl["p"] and pl["p"][0] == "deref" and base[0] == "ref":
                return ("ref", base[1], tuple(base[2]) + tuple(_hashable(x) for x in pl["p"][1:]))
            return ("ref", pl["l"], tuple(_hashable(x) for x in pl["p"]))
        if "cast" in rv:
            v = self.operand(fn, st, rv["a"])
            k = rv["cast"]
            if k in ("unsize", "mut_to_const", "PtrToPtr", "Subtype", "reify_fn", "closure_fn", "unsafe_fn", "Transmute"):
                return v
            v = self.deref_full(st, v)
            return ("op", "cast:" + k, (v,))
        if "bin" in rv:
            a = self.deref_full(st, self.operand(fn, st, rv["a"]))
            b = self.deref_full(st, self.operand(fn, st, rv["b"]))
            op = rv["bin"]
            if a[0] == "c" and b[0] == "c" and not isinstance(a[1], str) and not isinstance(b[1], str):
                try:
                    r = {"eq": lambda: a[1] == b[1], "ne": lambda: a[1] != b[1], "lt": lambda: a[1] < b[1], "le": lambda: a[1] <= b[1],
                         "gt": lambda: a[1] > b[1], "ge": lambda: a[1] >= b[1], "bitxor": lambda: a[1] ^ b[1], "bitand": lambda: a[1] & b[1],
                         "bitor": lambda: a[1] | b[1]}.get(op)
                    if r is not None:
                        return c(r())
                except TypeError:
                    pass
            if a[0] == "c" and b[0] == "c" and op in ("eq", "ne"):
                return c((a[1] == b[1]) == (op == "eq"))
            if op == "bitxor" and ((a[0] == "c" and isinstance(a[1], bool)) or (b[0] == "c" and isinstance(b[1], bool))):
                k_, x_ = (a, b) if a[0] == "c" else (b, a)
                return x_ if k_[1] is False else ("op", "not", (x_,))
            if self.oracle is not None and op in ("eq", "ne", "lt", "le", "gt", "ge"):
                r = self.oracle(op, a, b)
                if r is not None:
                    return c(bool(r))
            if rv.get("checked"):
                return ("t", (("op", op, (a, b)), c(False)))
            return ("op", op, (a, b))
        if "un" in rv:
            a = self.deref_full(st, self.operand(fn, st, rv["a"]))
            if rv["un"] == "not" and a[0] == "c" and isinstance(a[1], bool):
                return c(not a[1])
            return ("op", rv["un"], (a,))
        if "discr" in rv:
            v = self.deref_full(st, self.read(st, rv["discr"]))
            if v[0] == "e":
                d = self.discr_of(v[1], v[2])
                if d is not None:
                    return c(d)
            return ("discr", _hashable(rv["discr"]), rv["of"])
        if "agg" in rv:
            a = rv["agg"]
            ops = tuple(self.operand(fn, st, o) for o in rv["ops"])
            if isinstance(a, dict) and "adt" in a:
                return ("e", a["adt"], a["variant"], ops)
            if isinstance(a, dict) and "closure" in a:
                return ("closure", a["closure"], ops)
            return ("t", ops)
        if "repeat" in rv:
            return ("t", (self.operand(fn, st, rv["repeat"]),))
        return TOP

    # ---------------------------------------------------------------- running a body
    def run(self, fn, args, depth=0):
        """all outcomes of fn for the abstract arguments (list, one per parameter)"""
        key = (fn.path, tuple(args))
        if key in self.memo:
            r = self.memo[key]
            if r is None:
                return [Outcome(("top", "recursion:" + fn.path), {}, (), ())]
            return r
        if depth > MAX_DEPTH:
            return [Outcome(("top", "depth:" + fn.path), {}, (), ())]
        self.memo[key] = None
        st = {}
        for i, a in enumerate(args):
            st[i + 1] = a
        outs = {}
        work = [(0, st, (), (), {})]
        steps = 0
        while work:
            bb, st, conds, events, visits = work.pop()
            steps += 1
            if steps > MAX_PATHS:
                self.incomplete.append(fn.path)
                break
            n = visits.get(bb, 0)
            if n >= MAX_VISITS:
                continue  # loop cut
            visits = dict(visits)
            visits[bb] = n + 1
            st = dict(st)
            for s in fn.stmts(bb):
                if s["k"] == "assign":
                    self.write(st, s["pl"], self.rvalue(fn, st, s["rv"]))
                elif s["k"] == "setdiscr":
                    pass
            t = fn.term(bb)
            k = t["k"]
            if k == "goto":
                work.append((t["t"], st, conds, events, visits))
            elif k == "return":
                ret = self.deref_value(st, st.get(0, ("t", ())))
                refs = {}
                for i in range(1, fn.argc + 1):
                    ty = fn.local_ty(i)
                    if ty.kind() == "ref" and ty.d.get("mut"):
                        refs[i] = self.deref_value(st, st.get(i, TOP))
                o = Outcome(ret, refs, conds, events)
                outs[o.key()] = o
            elif k == "switch":
                v = self.deref_full(st, self.operand(fn, st, t["on"]))
                if v[0] == "c":
                    val = v[1]
                    if isinstance(val, bool):
                        val = 1 if val else 0
                    tgt = None
                    for sv, bt in t["targets"]:
                        if _switch_eq(sv, val):
                            tgt = bt
                    work.append((tgt if tgt is not None else t["otherwise"], st, conds, events, visits))
                elif v[0] == "discr":
                    place = _unhash(v[1])
                    ty = self.F.ty(v[2]).peel_refs()
                    adt = ty.adt()
                    vs = self.variants_of(adt) if adt else None
                    cur = self.deref_full(st, self.read(st, place))
                    if not vs:
                        for sv, bt in t["targets"]:
                            work.append((bt, st, conds, events, visits))
                        work.append((t["otherwise"], st, conds, events, visits))
                    else:
                        listed = {}
                        for sv, bt in t["targets"]:
                            vn = self.variant_by_discr(adt, int(sv))
                            if vn is not None:
                                listed[vn] = bt
                        for vn in vs:
                            bt = listed.get(vn, t["otherwise"])
                            st2 = dict(st)
                            fields = tuple(("field", cur if cur[0] != "top" else ("top", cur[1]), vn, i) for i in range(self.n_fields(adt, vn)))
                            self.write(st2, place, ("e", adt, vn, fields))
                            work.append((bt, st2, conds + ((("is", _short(cur)), vn),), events, visits))
                elif any(c[0] == _short(v) for c in conds if len(c) == 2 and not (isinstance(c[0], tuple) and c[0] and c[0][0] == "is")):
                    # the same condition term was decided earlier on this path: stay consistent
                    taken = [c[1] for c in conds if len(c) == 2 and c[0] == _short(v)][-1]
                    tgt = None
                    for sv, bt in t["targets"]:
                        if sv == taken:
                            tgt = bt
                    work.append((tgt if tgt is not None else t["otherwise"], st, conds, events, visits))
                else:
                    # unknown scalar: fork, recording the condition
                    seen_t = set()
                    for sv, bt in t["targets"]:
                        work.append((bt, st, conds + ((_short(v), sv),), events, visits))
                        seen_t.add(bt)
                    work.append((t["otherwise"], st, conds + ((_short(v), "else"),), events, visits))
            elif k == "assert":
                work.append((t["t"], st, conds, events, visits))
            elif k == "drop":
                work.append((t["t"], st, conds, events, visits))
            elif k == "call":
                if t.get("t") is None:
                    # diverging call (panic): an outcome of its own
                    o = Outcome(("diverge", callee_def(t)), {}, conds, events)
                    outs[o.key()] = o
                    continue
                for st2, ret, conds2, events2 in self.call(fn, st, t, conds, events, depth):
                    st3 = dict(st2)
                    self.write(st3, t["dest"], ret)
                    work.append((t["t"], st3, conds2, events2, visits))
            elif k == "unreachable":
                continue
            else:
                continue
        res = list(outs.values())
        self.memo[key] = res
        return res

    def deref_value(self, st, v, depth=0):
        """value with frame-local references resolved (for returning to the caller)"""
        if depth > 6 or not isinstance(v, tuple) or not v:
            return v
        if v[0] == "ref":
            return self.deref_value(st, self.read(st, {"l": v[1], "p": _unproj(v[2])}), depth + 1)
        if v[0] == "e":
            return ("e", v[1], v[2], tuple(self.deref_value(st, x, depth + 1) for x in v[3]))
        if v[0] == "t":
            return ("t", tuple(self.deref_value(st, x, depth + 1) for x in v[1]))
        if v[0] == "closure":
            return ("closure", v[1], tuple(self.deref_value(st, x, depth + 1) for x in v[2]))
        return v

    # ---------------------------------------------------------------- calls
    def call(self, fn, st, t, conds, events, depth):
        """yields (state, return value, conds, events) per outcome of the call"""
        cal = t["callee"]
        if "indirect" in cal:
            yield st, ("top", "indirect"), conds, events
            return
        d = cal["def"]
        res = cal.get("resolved") or d
        raw_args = [self.operand(fn, st, a) for a in t["args"]]
        args = [self.deref_value(st, a) for a in raw_args]
        if any(d == r or res == r or d.endswith(r) for r in self.record_calls):
            events = events + ((d, tuple(_short(a) for a in args)),)
        # local callee: interpret
        target = self.F.fn(res) or self.F.fn(d)
        model = self.models.get(d) or self.models.get(res)
        if model is None:
            for pref, m in PREFIX_MODELS:
                if d.startswith(pref) or res.startswith(pref):
                    model = m
                    break
        if model is not None:
            for ret, writes, c2 in model(self, fn, st, t, args, depth):
                st2 = st
                if writes:
                    st2 = dict(st)
                    for ai, val in writes.items():
                        self._write_back(st2, raw_args[ai], t["args"][ai], val)
                yield st2, ret, conds + c2, events
            return
        if target is not None and not target.in_test_file():
            outs = self.run(target, args, depth + 1)
            for o in outs:
                if o.ret[0] == "diverge":
                    continue
                st2 = st
                if o.refs:
                    st2 = dict(st)
                    for pi, val in o.refs.items():
                        if pi - 1 < len(raw_args):
                            self._write_back(st2, raw_args[pi - 1], t["args"][pi - 1], val)
                yield st2, o.ret, conds + o.conds, events + o.events
            if not outs:
                yield st, ("top", "noreturn:" + res), conds, events
            return
        # enum constructor used as a function
        if "::" in d:
            parent, name = _ctor_parent(d)
            vs = self.variants_of(parent)
            if vs and name in vs:
                yield st, ("e", parent, name, tuple(args)), conds, events
                return
        yield st, ("call", d, tuple(_short(a) for a in args)), conds, events

    def _write_back(self, st, raw, operand, val):
        if raw[0] == "ref":
            self.write(st, {"l": raw[1], "p": _unproj(raw[2])}, val)
        else:
            pl = op_place(operand)
            if pl is not None:
                # the argument local holds the object itself (parameter passed on)
                self.write(st, pl, val)

    def call_callable(self, fn, st, f, args, depth):
        """call a closure / fn item value with positional args; yields (ret, conds)"""
        f = self.deref_full(st, f)
        if f[0] == "sym":
            # an opaque fallible callable supplied by the rule: one Ok and one Err outcome, recorded in the conditions
            yield ("e", "std::result::Result", "Ok", (("sym", f[1] + "()"),)), ((("called", f[1]), "ok"),)
            yield ("e", "std::result::Result", "Err", (("sym", f[1] + "!"),)), ((("called", f[1]), "err"),)
            return
        if f[0] == "closure":
            target = self.F.fn(f[1])
            if target is None:
                yield ("top", "closure"), ()
                return
            for o in self.run(target, [f] + list(args), depth + 1):
                if o.ret[0] != "diverge":
                    yield o.ret, o.conds
            return
        if f[0] == "fn":
            target = self.F.fn(f[1]) or (self.F.fn(f[2]) if len(f) > 2 and f[2] else None)   # the fn item's instance may be a local impl
            if target is not None:
                for o in self.run(target, list(args), depth + 1):
                    if o.ret[0] != "diverge":
                        yield o.ret, o.conds
                return
            d = f[1]
            m = self.models.get(d)
            if m is not None:
                fake_t = {"callee": {"def": d, "inst": f[2] or d, "resolved": f[2] or d}, "args": [], "dest": {"l": 0, "p": []}}
                for ret, writes, c2 in m(self, fn, st, fake_t, list(args), depth):
                    yield ret, c2
                return
            parent, name = _ctor_parent(d)
            vs = self.variants_of(parent)
            if vs and name in vs:
                yield ("e", parent, name, tuple(args)), ()
                return
            yield ("call", d, tuple(_short(a) for a in args)), ()
            return
        yield ("top", "callable"), ()


PRELUDE_CTORS = {"Ok": RES_, "Err": RES_, "Some": OPT_, "None": OPT_} if False else {}


def _ctor_parent(d):
    if "::" not in d:
        return d, ""
    parent, name = d.rsplit("::", 1)
    parent = parent.split("::<")[0]
    if parent == "std::prelude::v1" or parent.startswith("std::prelude::"):
        parent = {"Ok": "std::result::Result", "Err": "std::result::Result", "Some": "std::option::Option", "None": "std::option::Option"}.get(name, parent)
    return parent, name


def _hashable(x):
    if isinstance(x, dict):
        return tuple(sorted((k, _hashable(v)) for k, v in x.items()))
    if isinstance(x, list):
        return tuple(_hashable(v) for v in x)
    return x


def _unproj(p):
    return [x if isinstance(x, (str, dict)) else _unhash(x) for x in p]


def _unhash(x):
    if isinstance(x, tuple) and x and all(isinstance(i, tuple) and len(i) == 2 and isinstance(i[0], str) for i in x):
        return {k: _unhash(v) for k, v in x}
    if isinstance(x, tuple):
        return [_unhash(v) for v in x]
    return x


def _switch_eq(sv, val):
    try:
        s = int(sv)
    except ValueError:
        return False
    if isinstance(val, int):
        return s == val or (val < 0 and s in (val + 2 ** 8, val + 2 ** 16, val + 2 ** 32, val + 2 ** 64, val + 2 ** 128))
    return False


def _short(v, depth=0):
    """terms are kept, but bounded in depth"""
    if depth > 5 or not isinstance(v, tuple):
        return v if not isinstance(v, tuple) else ("...",)
    if v and v[0] in ("e",):
        return ("e", v[1], v[2], tuple(_short(x, depth + 1) for x in v[3]))
    if v and v[0] in ("t",):
        return ("t", tuple(_short(x, depth + 1) for x in v[1]))
    if v and v[0] == "op":
        return ("op", v[1], tuple(_short(x, depth + 1) for x in v[2]))
    if v and v[0] == "call":
        return ("call", v[1], tuple(_short(x, depth + 1) for x in v[2]))
    if v and v[0] == "field":
        return ("field", _short(v[1], depth + 1), v[2], v[3])
    if v and v[0] == "closure":
        return ("closure", v[1])
    return v


# ------------------------------------------------------------------------------------------
# models of std functions: model(interp, fn, st, term, args, depth) yields (ret, {arg index: written value}, conds)

OPT = "std::option::Option"
RES = "std::result::Result"
COW = "std::borrow::Cow"
CF = "std::ops::ControlFlow"


def _fork_enum(I, v, adt):
    """possible definite shapes of v as a value of enum adt: list of (value, conds)"""
    if is_e(v, adt):
        return [(v, ())]
    out = []
    for vn in I.variants_of(adt) or []:
        fields = tuple(("field", v, vn, i) for i in range(I.n_fields(adt, vn)))
        out.append((("e", adt, vn, fields), ((("is", _short(v)), vn),)))
    return out


def m_identity(I, fn, st, t, args, depth):
    v = args[0] if args else TOP
    if is_e(v, COW):
        v = v[3][0]
    yield v, None, ()


def m_wrap(I, fn, st, t, args, depth):
    yield args[0] if args else TOP, None, ()


def m_binop(name):
    def m(I, fn, st, t, args, depth):
        res = t["callee"].get("resolved") or ""
        target = I.F.fn(res)
        if target is not None:
            for o in I.run(target, list(args), depth + 1):
                if o.ret[0] != "diverge":
                    yield o.ret, None, o.conds
            return
        yield ("op", name, tuple(args)), None, ()
    return m


def m_clone(I, fn, st, t, args, depth):
    yield args[0], None, ()


def m_cow_inner(I, fn, st, t, args, depth):
    v = args[0]
    if is_e(v, COW):
        yield v[3][0], None, ()
    else:
        yield ("call", "Cow::deref", (_short(v),)), None, ()


def m_cow_into_owned(I, fn, st, t, args, depth):
    v = args[0]
    if is_e(v, COW):
        yield v[3][0], None, ()
    else:
        yield ("call", "Cow::into_owned", (_short(v),)), None, ()


def m_discriminant(I, fn, st, t, args, depth):
    v = args[0]
    if is_e(v):
        yield ("c", ("discriminant", v[1], v[2])), None, ()
    else:
        yield ("call", "mem::discriminant", (_short(v),)), None, ()


def _concrete(v):
    if not isinstance(v, tuple) or not v:
        return False
    if v[0] == "c":
        return True
    if v[0] == "e":
        return all(_concrete(x) for x in v[3])
    if v[0] == "t":
        return all(_concrete(x) for x in v[1])
    return False


def eq_descend(a, b):
    """structural equality of two abstract values of one type: ("const", bool) when decided by the shapes alone, ("leaf", x, y)
    when it comes down to exactly one pair of undecided components (same variants, everything else equal), else ("unknown",)"""
    if a == b and _concrete(a):
        return ("const", True)
    if is_e(a) and is_e(b) and a[1] == b[1]:
        if a[2] != b[2]:
            return ("const", False)
        pend = None
        for x, y in zip(a[3], b[3]):
            r = eq_descend(x, y)
            if r == ("const", True):
                continue
            if r == ("const", False):
                return r
            if r[0] == "leaf" and pend is None:
                pend = r
            else:
                return ("unknown",)
        return pend if pend is not None else ("const", True)
    if a[0] == "c" and b[0] == "c":
        return ("const", a[1] == b[1])
    if a == b:
        return ("leaf", a, b)
    return ("leaf", a, b)


def m_eq(I, fn, st, t, args, depth, neg=False):
    a, b = args[0], args[1]
    if is_e(a) and is_e(b) and a[1] == b[1] and a[1] in (OPT, RES):
        r = eq_descend(I.deref_value(st, a), I.deref_value(st, b))
        if r[0] == "const":
            yield c(r[1] != neg), None, ()
            return
        if r[0] == "leaf":
            yield ("op", "ne" if neg else "eq", (_short(r[1]), _short(r[2]))), None, ()
            return
    if _concrete(a) and _concrete(b):
        yield c((a == b) != neg), None, ()
        return
    if is_e(a) and is_e(b) and a[1] == b[1] and a[2] != b[2]:
        yield c(neg), None, ()
        return
    if a[0] == "c" and b[0] == "c":
        yield c((a[1] == b[1]) != neg), None, ()
        return
    if is_e(a) and is_e(b) and a[1] == b[1] and not a[3] and not b[3]:
        yield c((a[2] == b[2]) != neg), None, ()
        return
    if is_e(a) and is_e(b) and a[1] == b[1] and a[2] != b[2]:
        yield c(neg), None, ()
        return
    yield ("op", "ne" if neg else "eq", (_short(a), _short(b))), None, ()


def m_ne(I, fn, st, t, args, depth):
    yield from m_eq(I, fn, st, t, args, depth, neg=True)


def m_try_branch(I, fn, st, t, args, depth):
    v = args[0]
    inst = t["callee"].get("inst", "") + t["callee"].get("resolved", "")
    adt = OPT if "Option" in (t["callee"].get("resolved") or inst) else RES
    for val, cs in _fork_enum(I, v, adt):
        if val[2] in ("Ok", "Some"):
            yield ("e", CF, "Continue", (val[3][0],)), None, cs
        elif val[2] == "Err":
            yield ("e", CF, "Break", (("e", RES, "Err", (val[3][0],)),)), None, cs
        else:
            yield ("e", CF, "Break", (("e", OPT, "None", ()),)), None, cs


def m_from_residual(I, fn, st, t, args, depth):
    v = args[0]
    if is_e(v, RES) and v[2] == "Err":
        # the error is converted with From: keep the payload, tagged
        conv = t["callee"].get("resolved_inst") or t["callee"].get("inst") or ""
        yield ("e", RES, "Err", (("from", v[3][0]),)), None, ()
    elif is_e(v, OPT):
        yield ("e", OPT, "None", ()), None, ()
    else:
        yield ("e", RES, "Err", (("from", _short(v)),)), None, ()


def m_from_output(I, fn, st, t, args, depth):
    yield ("e", RES, "Ok", (args[0],)), None, ()


def _opt_map(I, fn, st, t, args, depth, on_some, on_none, adt=OPT, some="Some"):
    v = args[0]
    for val, cs in _fork_enum(I, v, adt):
        if val[2] == some:
            for r in on_some(val[3][0], cs):
                yield r
        else:
            for r in on_none(val, cs):
                yield r


def m_option_map(I, fn, st, t, args, depth):
    def some(x, cs):
        for ret, c2 in I.call_callable(fn, st, args[1], [x], depth):
            yield ("e", OPT, "Some", (ret,)), None, cs + c2

    def none(val, cs):
        yield ("e", OPT, "None", ()), None, cs
    yield from _opt_map(I, fn, st, t, args, depth, some, none)


def m_option_and_then(I, fn, st, t, args, depth):
    def some(x, cs):
        for ret, c2 in I.call_callable(fn, st, args[1], [x], depth):
            yield ret, None, cs + c2

    def none(val, cs):
        yield ("e", OPT, "None", ()), None, cs
    yield from _opt_map(I, fn, st, t, args, depth, some, none)


def m_option_unwrap_or(I, fn, st, t, args, depth):
    def some(x, cs):
        yield x, None, cs

    def none(val, cs):
        yield args[1], None, cs
    yield from _opt_map(I, fn, st, t, args, depth, some, none)


def m_option_unwrap_or_else(I, fn, st, t, args, depth):
    def some(x, cs):
        yield x, None, cs

    def none(val, cs):
        for ret, c2 in I.call_callable(fn, st, args[1], [], depth):
            yield ret, None, cs + c2
    yield from _opt_map(I, fn, st, t, args, depth, some, none)


def m_option_unwrap_or_default(I, fn, st, t, args, depth):
    import re
    inst = t["callee"].get("inst") or ""
    m = re.search(r"Option::<(.+)>::unwrap_or_default$", inst)
    target = None
    if m:
        adt = m.group(1).split("<")[0]
        cands = [f for p, f in I.F.fns.items() if p.startswith("<" + adt) and p.endswith("as std::default::Default>::default")]
        if len(cands) == 1:
            target = cands[0]

    def some(x, cs):
        yield x, None, cs

    def none(val, cs):
        if target is not None:
            for o in I.run(target, [], depth + 1):
                if o.ret[0] != "diverge":
                    yield o.ret, None, cs + o.conds
        else:
            yield ("call", "Default::default", ()), None, cs
    yield from _opt_map(I, fn, st, t, args, depth, some, none)


def m_option_map_or_else(I, fn, st, t, args, depth):
    def some(x, cs):
        for ret, c2 in I.call_callable(fn, st, args[2], [x], depth):
            yield ret, None, cs + c2

    def none(val, cs):
        for ret, c2 in I.call_callable(fn, st, args[1], [], depth):
            yield ret, None, cs + c2
    yield from _opt_map(I, fn, st, t, args, depth, some, none)


def m_option_map_or(I, fn, st, t, args, depth):
    def some(x, cs):
        for ret, c2 in I.call_callable(fn, st, args[2], [x], depth):
            yield ret, None, cs + c2

    def none(val, cs):
        yield args[1], None, cs
    yield from _opt_map(I, fn, st, t, args, depth, some, none)


def m_option_ok_or_else(I, fn, st, t, args, depth):
    def some(x, cs):
        yield ("e", RES, "Ok", (x,)), None, cs

    def none(val, cs):
        for ret, c2 in I.call_callable(fn, st, args[1], [], depth):
            yield ("e", RES, "Err", (ret,)), None, cs + c2
    yield from _opt_map(I, fn, st, t, args, depth, some, none)


def m_option_ok_or(I, fn, st, t, args, depth):
    def some(x, cs):
        yield ("e", RES, "Ok", (x,)), None, cs

    def none(val, cs):
        yield ("e", RES, "Err", (args[1],)), None, cs
    yield from _opt_map(I, fn, st, t, args, depth, some, none)


def m_option_is_some(I, fn, st, t, args, depth):
    for val, cs in _fork_enum(I, args[0], OPT):
        yield c(val[2] == "Some"), None, cs


def m_option_is_none(I, fn, st, t, args, depth):
    for val, cs in _fork_enum(I, args[0], OPT):
        yield c(val[2] == "None"), None, cs


def m_option_transpose(I, fn, st, t, args, depth):
    for val, cs in _fork_enum(I, args[0], OPT):
        if val[2] == "None":
            yield ("e", RES, "Ok", (("e", OPT, "None", ()),)), None, cs
        else:
            for inner, cs2 in _fork_enum(I, val[3][0], RES):
                if inner[2] == "Ok":
                    yield ("e", RES, "Ok", (("e", OPT, "Some", (inner[3][0],)),)), None, cs + cs2
                else:
                    yield inner, None, cs + cs2


def m_result_transpose(I, fn, st, t, args, depth):
    # Result<Option<T>, E> -> Option<Result<T, E>>
    for val, cs in _fork_enum(I, args[0], RES):
        if val[2] == "Err":
            yield ("e", OPT, "Some", (val,)), None, cs
        else:
            for inner, cs2 in _fork_enum(I, val[3][0], OPT):
                if inner[2] == "None":
                    yield ("e", OPT, "None", ()), None, cs + cs2
                else:
                    yield ("e", OPT, "Some", (("e", RES, "Ok", (inner[3][0],)),)), None, cs + cs2


def m_option_filter(I, fn, st, t, args, depth):
    def some(x, cs):
        for ret, c2 in I.call_callable(fn, st, args[1], [x], depth):
            if ret[0] == "c":
                yield (("e", OPT, "Some", (x,)) if ret[1] else ("e", OPT, "None", ())), None, cs + c2
            else:
                yield ("e", OPT, "Some", (x,)), None, cs + c2 + ((_short(ret), "1"),)
                yield ("e", OPT, "None", ()), None, cs + c2 + ((_short(ret), "0"),)

    def none(val, cs):
        yield ("e", OPT, "None", ()), None, cs
    yield from _opt_map(I, fn, st, t, args, depth, some, none)


def m_option_as_ref(I, fn, st, t, args, depth):
    yield args[0], None, ()


def m_result_map(I, fn, st, t, args, depth):
    def ok(x, cs):
        for ret, c2 in I.call_callable(fn, st, args[1], [x], depth):
            yield ("e", RES, "Ok", (ret,)), None, cs + c2

    def err(val, cs):
        yield val, None, cs
    yield from _opt_map(I, fn, st, t, args, depth, ok, err, adt=RES, some="Ok")


def m_result_map_err(I, fn, st, t, args, depth):
    v = args[0]
    for val, cs in _fork_enum(I, v, RES):
        if val[2] == "Ok":
            yield val, None, cs
        else:
            for ret, c2 in I.call_callable(fn, st, args[1], [val[3][0]], depth):
                yield ("e", RES, "Err", (ret,)), None, cs + c2


def m_result_and_then(I, fn, st, t, args, depth):
    def ok(x, cs):
        for ret, c2 in I.call_callable(fn, st, args[1], [x], depth):
            yield ret, None, cs + c2

    def err(val, cs):
        yield val, None, cs
    yield from _opt_map(I, fn, st, t, args, depth, ok, err, adt=RES, some="Ok")


def m_result_ok(I, fn, st, t, args, depth):
    for val, cs in _fork_enum(I, args[0], RES):
        yield (("e", OPT, "Some", (val[3][0],)) if val[2] == "Ok" else ("e", OPT, "None", ())), None, cs


def m_result_unwrap_or(I, fn, st, t, args, depth):
    for val, cs in _fork_enum(I, args[0], RES):
        yield (val[3][0] if val[2] == "Ok" else args[1]), None, cs


def m_bool_then(I, fn, st, t, args, depth):
    b = args[0]
    branches = [(True, ())] if b == c(True) else [(False, ())] if b == c(False) else [(True, ((_short(b), "1"),)), (False, ((_short(b), "0"),))]
    for val, cs in branches:
        if val:
            for ret, c2 in I.call_callable(fn, st, args[1], [], depth):
                yield ("e", OPT, "Some", (ret,)), None, cs + c2
        else:
            yield ("e", OPT, "None", ()), None, cs


def m_mem_replace(I, fn, st, t, args, depth):
    yield args[0], {0: args[1]}, ()


def m_mem_take(I, fn, st, t, args, depth):
    yield args[0], {0: ("call", "Default::default", ())}, ()


def m_opaque(name):
    def m(I, fn, st, t, args, depth):
        yield ("call", name, tuple(_short(a) for a in args)), None, ()
    return m


def m_fn_call(I, fn, st, t, args, depth):
    """Fn*/call*: (callable, (args tuple))"""
    f = args[0]
    tup = args[1] if len(args) > 1 else ("t", ())
    a = list(tup[1]) if tup[0] == "t" else [tup]
    for ret, c2 in I.call_callable(fn, st, f, a, depth):
        yield ret, None, c2


def m_unreachable(I, fn, st, t, args, depth):
    return
    yield


def m_make_mut(I, fn, st, t, args, depth):
    # Rc::make_mut(&mut rc) -> &mut T : the Rc is transparent, so this is the identity on the place
    yield args[0], None, ()


MODELS = {
    "std::clone::Clone::clone": m_clone,
    "std::borrow::ToOwned::to_owned": m_clone,
    "std::convert::AsRef::as_ref": m_identity,
    "std::borrow::Borrow::borrow": m_identity,
    "std::convert::Into::into": None,   # filled below (local From impls are interpreted; std ones are identity)
    "std::mem::discriminant": m_discriminant,
    "std::cmp::PartialEq::eq": m_eq,
    "std::cmp::PartialEq::ne": m_ne,
    "std::ops::Try::branch": m_try_branch,
    "std::ops::FromResidual::from_residual": m_from_residual,
    "std::ops::Try::from_output": m_from_output,
    "std::option::Option::<T>::map": m_option_map,
    "std::option::Option::<T>::and_then": m_option_and_then,
    "std::option::Option::<T>::unwrap_or": m_option_unwrap_or,
    "std::option::Option::<T>::unwrap_or_else": m_option_unwrap_or_else,
    "std::option::Option::<T>::map_or_else": m_option_map_or_else,
    "std::option::Option::<T>::unwrap_or_default": m_option_unwrap_or_default,
    "std::option::Option::<T>::map_or": m_option_map_or,
    "std::option::Option::<T>::ok_or_else": m_option_ok_or_else,
    "std::option::Option::<T>::ok_or": m_option_ok_or,
    "std::option::Option::<T>::is_some": m_option_is_some,
    "std::option::Option::<T>::is_none": m_option_is_none,
    "std::option::Option::<T>::filter": m_option_filter,
    "std::option::Option::<T>::as_ref": m_option_as_ref,
    "std::option::Option::<T>::as_mut": m_option_as_ref,
    "std::option::Option::<std::result::Result<T, E>>::transpose": m_option_transpose,
    "std::result::Result::<std::option::Option<T>, E>::transpose": m_result_transpose,
    "std::result::Result::<T, E>::map": m_result_map,
    "std::result::Result::<T, E>::map_err": m_result_map_err,
    "std::result::Result::<T, E>::and_then": m_result_and_then,
    "std::result::Result::<T, E>::ok": m_result_ok,
    "std::result::Result::<T, E>::unwrap_or": m_result_unwrap_or,
    "core::bool::<impl bool>::then": m_bool_then,
    "std::mem::replace": m_mem_replace,
    "std::mem::take": m_mem_take,
    "std::ops::FnOnce::call_once": m_fn_call,
    "std::ops::FnMut::call_mut": m_fn_call,
    "std::ops::Fn::call": m_fn_call,
    "std::hint::unreachable_unchecked": m_unreachable,
    "std::rc::Rc::<T>::new": m_wrap,
    "std::ops::Add::add": m_binop("add"),
    "std::ops::Sub::sub": m_binop("sub"),
    "std::ops::Mul::mul": m_binop("mul"),
    "std::ops::Div::div": m_binop("div"),
    "std::ops::Rem::rem": m_binop("rem"),
    "std::ops::Neg::neg": m_binop("neg"),
    "std::ops::Not::not": m_binop("not"),
    "std::rc::Rc::<T>::make_mut": m_make_mut,
    "std::rc::Rc::<T, A>::make_mut": m_make_mut,
    "std::sync::Arc::<T>::new": m_wrap,
    "std::boxed::Box::<T>::new": m_wrap,
    "std::borrow::Cow::<'_, B>::into_owned": m_cow_into_owned,
}


# ---- further Option / Result / bool combinators (equivalent spellings of the ones above: a rewrite between them must not
# change what the interpreter computes)

def _bool_of(ret, cs):
    """outcomes of using a callable's result as a condition: (python bool, conds)"""
    if ret[0] == "c" and isinstance(ret[1], bool):
        return [(ret[1], cs)]
    return [(True, cs + ((_short(ret), "1"),)), (False, cs + ((_short(ret), "0"),))]


def _m_pred(adt, some, on_absent):
    """is_some_and / is_ok_and (on_absent False), is_none_or (on_absent True)"""
    def m(I, fn, st, t, args, depth):
        def pos(x, cs):
            for ret, c2 in I.call_callable(fn, st, args[1], [x], depth):
                yield ret, None, cs + c2

        def neg(val, cs):
            yield c(on_absent), None, cs
        yield from _opt_map(I, fn, st, t, args, depth, pos, neg, adt=adt, some=some)
    return m


def m_bool_then_some(I, fn, st, t, args, depth):
    b = args[0]
    branches = [(True, ())] if b == c(True) else [(False, ())] if b == c(False) else [(True, ((_short(b), "1"),)), (False, ((_short(b), "0"),))]
    for val, cs in branches:
        yield (("e", OPT, "Some", (args[1],)) if val else ("e", OPT, "None", ())), None, cs


def m_result_unwrap_or_else(I, fn, st, t, args, depth):
    def ok(x, cs):
        yield x, None, cs

    def err(val, cs):
        for ret, c2 in I.call_callable(fn, st, args[1], [val[3][0]], depth):
            yield ret, None, cs + c2
    yield from _opt_map(I, fn, st, t, args, depth, ok, err, adt=RES, some="Ok")


def m_result_map_or(I, fn, st, t, args, depth):
    def ok(x, cs):
        for ret, c2 in I.call_callable(fn, st, args[2], [x], depth):
            yield ret, None, cs + c2

    def err(val, cs):
        yield args[1], None, cs
    yield from _opt_map(I, fn, st, t, args, depth, ok, err, adt=RES, some="Ok")


def m_result_map_or_else(I, fn, st, t, args, depth):
    def ok(x, cs):
        for ret, c2 in I.call_callable(fn, st, args[2], [x], depth):
            yield ret, None, cs + c2

    def err(val, cs):
        for ret, c2 in I.call_callable(fn, st, args[1], [val[3][0]], depth):
            yield ret, None, cs + c2
    yield from _opt_map(I, fn, st, t, args, depth, ok, err, adt=RES, some="Ok")


def m_result_is(which):
    def m(I, fn, st, t, args, depth):
        for val, cs in _fork_enum(I, args[0], RES):
            yield c(val[2] == which), None, cs
    return m


def m_result_err(I, fn, st, t, args, depth):
    for val, cs in _fork_enum(I, args[0], RES):
        yield (("e", OPT, "Some", (val[3][0],)) if val[2] == "Err" else ("e", OPT, "None", ())), None, cs


def m_result_or_else(I, fn, st, t, args, depth):
    def ok(x, cs):
        yield ("e", RES, "Ok", (x,)), None, cs

    def err(val, cs):
        for ret, c2 in I.call_callable(fn, st, args[1], [val[3][0]], depth):
            yield ret, None, cs + c2
    yield from _opt_map(I, fn, st, t, args, depth, ok, err, adt=RES, some="Ok")


def m_option_or(I, fn, st, t, args, depth):
    for val, cs in _fork_enum(I, args[0], OPT):
        yield (val if val[2] == "Some" else args[1]), None, cs


def m_option_or_else(I, fn, st, t, args, depth):
    def some(x, cs):
        yield ("e", OPT, "Some", (x,)), None, cs

    def none(val, cs):
        for ret, c2 in I.call_callable(fn, st, args[1], [], depth):
            yield ret, None, cs + c2
    yield from _opt_map(I, fn, st, t, args, depth, some, none)


def m_option_and(I, fn, st, t, args, depth):
    for val, cs in _fork_enum(I, args[0], OPT):
        yield (args[1] if val[2] == "Some" else ("e", OPT, "None", ())), None, cs


def m_option_take(I, fn, st, t, args, depth):
    yield args[0], {0: ("e", OPT, "None", ())}, ()


def m_option_flatten(I, fn, st, t, args, depth):
    for val, cs in _fork_enum(I, args[0], OPT):
        yield (val[3][0] if val[2] == "Some" else ("e", OPT, "None", ())), None, cs


def m_partial_cmp(I, fn, st, t, args, depth):
    """PartialOrd::partial_cmp of a foreign type (f64 ..): Some(ordering) or None, as two outcomes, so that `Ok(x.partial_cmp(y))` and
    `x.partial_cmp(y).map(Ok)` summarise alike; a crate-local impl is interpreted from its MIR"""
    res = t["callee"].get("resolved")
    target = I.F.fn(res) if res else None
    if target is not None and target.mir and not target.in_test_file():
        for o in I.run(target, args, depth + 1):
            yield o.ret, None, o.conds
        return
    term_ = ("call", "std::cmp::PartialOrd::partial_cmp", tuple(_short(a) for a in args))
    yield ("e", OPT, "Some", (term_,)), None, ((("ordered", _short(args[0]), _short(args[1])), "1"),)
    yield ("e", OPT, "None", ()), None, ((("ordered", _short(args[0]), _short(args[1])), "0"),)


MODELS.update({
    "std::cmp::PartialOrd::partial_cmp": m_partial_cmp,
    "std::option::Option::<T>::is_some_and": _m_pred(OPT, "Some", False),
    "std::option::Option::<T>::is_none_or": _m_pred(OPT, "Some", True),
    "std::result::Result::<T, E>::is_ok_and": _m_pred(RES, "Ok", False),
    "core::bool::<impl bool>::then_some": m_bool_then_some,
    "std::result::Result::<T, E>::unwrap_or_else": m_result_unwrap_or_else,
    "std::result::Result::<T, E>::map_or": m_result_map_or,
    "std::result::Result::<T, E>::map_or_else": m_result_map_or_else,
    "std::result::Result::<T, E>::is_ok": m_result_is("Ok"),
    "std::result::Result::<T, E>::is_err": m_result_is("Err"),
    "std::result::Result::<T, E>::err": m_result_err,
    "std::result::Result::<T, E>::or_else": m_result_or_else,
    "std::option::Option::<T>::or": m_option_or,
    "std::option::Option::<T>::or_else": m_option_or_else,
    "std::option::Option::<T>::and": m_option_and,
    "std::option::Option::<T>::take": m_option_take,
    "std::option::Option::<std::option::Option<T>>::flatten": m_option_flatten,
    "std::option::Option::<&T>::cloned": m_option_as_ref,
    "std::option::Option::<&T>::copied": m_option_as_ref,
    "std::option::Option::<&mut T>::cloned": m_option_as_ref,
    "std::option::Option::<&mut T>::copied": m_option_as_ref,
    "std::option::Option::<T>::as_deref": m_option_as_ref,
    "std::option::Option::<T>::as_deref_mut": m_option_as_ref,
})


def m_into(I, fn, st, t, args, depth):
    # resolved to a local From impl -> interpret it; otherwise identity (reflexive / std conversions keep the payload)
    res = t["callee"].get("resolved") or ""
    target = I.F.fn(res)
    if target is not None:
        for o in I.run(target, list(args), depth + 1):
            if o.ret[0] != "diverge":
                yield o.ret, None, o.conds
        return
    inst = t["callee"].get("resolved_inst") or t["callee"].get("inst") or ""
    # Into::<U>::into resolved polymorphically (blanket impl): find the local From impl of the target type
    import re
    m = re.search(r"std::convert::Into<(.+)>>::into$", inst)
    if m and args:
        target_ty = m.group(1)
        cands = [f for p, f in I.F.fns.items() if p.startswith("<%s as std::convert::From<" % target_ty) and p.endswith(">::from") and f.kind != "closure"]
        specific = []
        generic = []
        for f in cands:
            pt = f.local_ty(1).peel_refs()
            if pt.kind() == "adt":
                if is_e(args[0], pt.adt()):
                    specific.append(f)
            elif pt.kind() == "param":
                generic.append(f)
            elif not is_e(args[0]):
                specific.append(f)  # scalar parameter (f64, &str ..) and a scalar / symbolic argument
        chosen = specific or ([] if any(is_e(args[0], f.local_ty(1).peel_refs().adt() or "") for f in cands) else generic)
        if len(chosen) == 1:
            for o in I.run(chosen[0], list(args), depth + 1):
                if o.ret[0] != "diverge":
                    yield o.ret, None, o.conds
            return
    yield args[0] if args else TOP, None, ()


def m_deref(I, fn, st, t, args, depth):
    v = args[0]
    if is_e(v, COW):
        yield v[3][0], None, ()
    else:
        yield v, None, ()


MODELS["std::convert::Into::into"] = m_into
MODELS["std::convert::From::from"] = m_into
MODELS["std::ops::Deref::deref"] = m_deref
MODELS["std::ops::DerefMut::deref_mut"] = m_deref

PREFIX_MODELS = [
    ("core::panicking::", m_unreachable),
]
