"""Property registry: property id -> function running its rules."""
from . import core


class Ctx:
    def __init__(self, facts, bins, tier, rep, primary=None):
        self.facts = facts          # profile -> Facts (library crate)
        self.bins = bins            # profile -> Facts (binary crate)
        import os
        self.primary = primary or os.environ.get("VERIF_PRIMARY", "dev")
        self.F = facts[self.primary]
        self.tier = tier
        self.rep = rep
        self.thorough = tier == "thorough"
        self.cache = {}

    def fn(self, suffix, F=None):
        return (F or self.F).find_fn(suffix)


PROPS = {}


def prop(pid):
    def deco(f):
        PROPS[pid] = f
        return f
    return deco


from .rules import c16, c08, c05, c04, c10, c09, c01, c18, c19, c03, c14, c17, c06, c07, c02, c15, c20, c13, c12  # noqa: E402,F401
