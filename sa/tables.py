"""TABLE: extraction of finite maps from discriminant switches (single-switch "kind-lite" tables)."""
from .core import op_place, op_local, callee_def
from .flow import origins


def variant_names(F, ty):
    """discriminant value (str) -> variant name, for an enum type (Ty)"""
    t = ty.peel_refs()
    p = t.adt()
    if p in F.adts:
        return {v["discr"]: v["name"] for v in F.adts[p]["variants"]}
    if p == "std::option::Option":
        return {"0": "None", "1": "Some"}
    if p == "std::result::Result":
        return {"0": "Ok", "1": "Err"}
    if p == "std::ops::ControlFlow":
        return {"0": "Continue", "1": "Break"}
    if p == "std::cmp::Ordering":
        return {"-1": "Less", "0": "Equal", "1": "Greater", str(2**8 - 1): "Less", str(2**64 - 1): "Less", str(2**128 - 1): "Less"}
    if p == "std::borrow::Cow":
        return {"0": "Borrowed", "1": "Owned"}
    return {}


def switch_on_discr(fn, bb):
    """if block bb ends in a switch on discriminant(place): (place, enum Ty, {variant name: target}, otherwise) else None"""
    t = fn.term(bb)
    if t["k"] != "switch":
        return None
    ol = op_local(t["on"])
    if ol is None:
        return None
    for d in fn.defs().get(ol, []):
        if d[0] == "stmt" and "discr" in d[3]["rv"]:
            ty = fn.facts.ty(d[3]["rv"]["of"])
            names = variant_names(fn.facts, ty)
            arms = {}
            for v, tgt in t["targets"]:
                arms[names.get(v, "#" + v)] = tgt
            return d[3]["rv"]["discr"], ty, arms, t["otherwise"]
    return None


def all_variants(F, ty):
    t = ty.peel_refs()
    p = t.adt()
    if p in F.adts:
        return [v["name"] for v in F.adts[p]["variants"]]
    return list(dict.fromkeys(variant_names(F, ty).values()))


def arms_complete(fn, bb):
    """{variant: target} with the `otherwise` target filled in for variants not listed"""
    sw = switch_on_discr(fn, bb)
    if sw is None:
        return None
    place, ty, arms, other = sw
    out = dict(arms)
    for v in all_variants(fn.facts, ty):
        if v not in out:
            out[v] = other
    return place, ty, out


def describe_value(fn, operand, depth=0):
    """small description of what an operand is: constant, aggregate (variant with described fields), call result"""
    c = operand.get("const")
    if c is not None:
        if "fn" in c:
            return ("fn", c["fn"])
        for k in ("str", "int", "f64", "char"):
            if k in c:
                return ("const", c[k])
        return ("const", c["v"])
    out = set()
    for d, p in origins(fn, operand):
        if d[0] == "agg" and not p:
            st = fn.stmts(d[1])[d[2]]
            a = st["rv"]["agg"]
            if isinstance(a, dict) and "adt" in a:
                subs = tuple(describe_value(fn, o, depth + 1) if depth < 3 else ("?",) for o in st["rv"]["ops"])
                out.add(("agg", a["adt"].rsplit("::", 1)[-1] + "::" + a["variant"], subs))
            else:
                out.add(("agg", str(a) if not isinstance(a, dict) else "array", ()))
        elif d[0] == "const":
            out.add(("const", d[1]))
        elif d[0] == "call":
            out.add(("call", callee_def(fn.term(d[1])) or "indirect", p))
        elif d[0] == "param":
            out.add(("param", d[1], p))
        elif d[0] == "op":
            st = fn.stmts(d[1])[d[2]]
            rv = st["rv"]
            out.add(("op", rv.get("bin") or rv.get("un") or "op"))
        else:
            out.add((d[0],))
    if len(out) == 1:
        return next(iter(out))
    return ("oneof", tuple(sorted(out, key=repr)))


def result_of_arm(fn, start, stop=()):
    """what `_0` is set to on the paths from block `start` to the return: set of descriptions"""
    out = set()
    seen = set()
    st = [start]
    while st:
        b = st.pop()
        if b in seen or b in stop:
            continue
        seen.add(b)
        for s in fn.stmts(b):
            if s["k"] == "assign" and s["pl"]["l"] == 0 and not s["pl"]["p"]:
                rv = s["rv"]
                if "use" in rv:
                    out.add(describe_value(fn, rv["use"]))
                elif "agg" in rv:
                    a = rv["agg"]
                    if isinstance(a, dict) and "adt" in a:
                        out.add(("agg", a["adt"].rsplit("::", 1)[-1] + "::" + a["variant"], tuple(describe_value(fn, o) for o in rv["ops"])))
                    else:
                        out.add(("agg", "tuple" if a == "tuple" else "other", ()))
                elif "un" in rv:
                    out.add(("op", rv["un"], describe_value(fn, rv["a"])))
                elif "bin" in rv:
                    out.add(("op", rv["bin"], describe_value(fn, rv["a"]), describe_value(fn, rv["b"])))
                else:
                    out.add(("other",))
        t = fn.term(b)
        if t["k"] == "call" and t["dest"]["l"] == 0 and not t["dest"]["p"]:
            out.add(("call", callee_def(t) or "indirect", tuple(describe_value(fn, a) for a in t["args"])))
        st.extend(fn.succs()[b])
    return out


def enum_map(fn, param=1):
    """For a function that starts by switching on the discriminant of a parameter: {variant: set(result descr)}"""
    for bb in range(len(fn.blocks)):
        sw = arms_complete(fn, bb)
        if sw is None:
            continue
        place, ty, arms = sw
        if place["l"] != param and not any(d[0] == "param" and d[1] == param for d, _ in origins(fn, {"copy": {"l": place["l"], "p": []}})):
            continue
        return ty, {v: result_of_arm(fn, tgt) for v, tgt in arms.items()}
    return None


# ------------------------------------------------------------------------------------------
# token sets


def _agg_variant(fn, operand, adt_suffix="TokenType"):
    """variant name if the operand is (a copy of) a field-less aggregate / constant of the enum"""
    c = operand.get("const")
    if c is not None:
        v = c.get("v", "")
        if adt_suffix in v:
            return v.rsplit("::", 1)[-1].strip()
        return None
    for d, p in origins(fn, operand):
        if d[0] == "agg" and not p:
            a = fn.stmts(d[1])[d[2]]["rv"]["agg"]
            if isinstance(a, dict) and a.get("adt", "").endswith(adt_suffix):
                return a["variant"]
    return None


def token_set_of(fn, operand, depth=0):
    """set of TokenType variant names an operand denotes: a single TokenType value, an array / slice of them
    (inline aggregate, promoted constant, `as_ref()` / unsizing of one), or None when not recognisable"""
    if depth > 6:
        return None
    v = _agg_variant(fn, operand)
    if v is not None:
        return {v}
    c = operand.get("const")
    if c is not None and "promoted" in c:
        owner = fn.promoted_of or fn
        ps = owner.promoteds()
        if c["promoted"] < len(ps):
            pb = ps[c["promoted"]]
            return token_set_of(pb, {"copy": {"l": 0, "p": []}}, depth + 1)
        return None
    out = None
    for d, p in origins(fn, operand):
        got = None
        if d[0] == "agg":
            st = fn.stmts(d[1])[d[2]]
            a = st["rv"]["agg"]
            if isinstance(a, dict) and "array" in a:
                got = set()
                for o in st["rv"]["ops"]:
                    s = token_set_of(fn, o, depth + 1)
                    if s is None:
                        return None
                    got |= s
        elif d[0] == "call":
            t = fn.term(d[1])
            name = t["callee"].get("name") if "indirect" not in t["callee"] else None
            if name in ("as_ref", "borrow", "deref", "as_slice", "into_iter", "iter", "to_owned", "to_vec", "into_vec", "clone", "collect", "from_iter"):
                got = token_set_of(fn, t["args"][0], depth + 1)
        elif d[0] == "promoted":
            owner = fn.promoted_of or fn
            ps = owner.promoteds()
            if d[1] < len(ps):
                got = token_set_of(ps[d[1]], {"copy": {"l": 0, "p": []}}, depth + 1)
        if got is None:
            continue
        out = (out or set()) | got
    return out


# ------------------------------------------------------------------------------------------
# string lists / keyword table


def str_list_of(fn, operand, depth=0):
    """list of string constants an operand denotes (array / slice / promoted array of &str), or None"""
    if depth > 6:
        return None
    c = operand.get("const")
    if c is not None:
        if "str" in c:
            return [c["str"]]
        if "promoted" in c:
            owner = fn.promoted_of or fn
            ps = owner.promoteds()
            if c["promoted"] < len(ps):
                return str_list_of(ps[c["promoted"]], {"copy": {"l": 0, "p": []}}, depth + 1)
        return None
    out = None
    for d, p in origins(fn, operand):
        got = None
        if d[0] == "agg":
            st = fn.stmts(d[1])[d[2]]
            a = st["rv"]["agg"]
            if isinstance(a, dict) and "array" in a:
                got = []
                for o in st["rv"]["ops"]:
                    s = str_list_of(fn, o, depth + 1)
                    if s is None:
                        return None
                    got.extend(s)
        elif d[0] == "const" and isinstance(d[1], str):
            got = [d[1]]
        elif d[0] == "promoted":
            owner = fn.promoted_of or fn
            ps = owner.promoteds()
            if d[1] < len(ps):
                got = str_list_of(ps[d[1]], {"copy": {"l": 0, "p": []}}, depth + 1)
        elif d[0] == "call":
            t = fn.term(d[1])
            name = t["callee"].get("name") if "indirect" not in t["callee"] else None
            if name in ("as_ref", "iter", "into_iter", "cloned", "copied", "deref", "as_slice") and t["args"]:
                got = str_list_of(fn, t["args"][0], depth + 1)
        if got is None:
            continue
        out = (out or []) + got
    return out


def keyword_table(F):
    """(pairs, problems): the (spelling, kind) pairs inserted into the lexer's KEYWORDS map, read off its initialiser.
    Recognised construction forms: insert(lit, Kind); alias(Kind, &[lits]); extend([(lit, Kind), ..]);
    extend([lits].iter().map(|s| (*s, Kind))).  Anything else touching the map is reported."""
    init = None
    for p, fn in F.fns.items():
        if "KEYWORDS" in p and p.endswith("__static_ref_initialize"):
            init = fn
    if init is None:
        return None, ["the KEYWORDS initialiser was not found"]
    pairs = []
    problems = []
    map_l = None
    for bi, t in init.calls():
        if (callee_def(t) or "").startswith("std::collections::HashMap") and t["callee"].get("name") in ("with_capacity", "new"):
            map_l = t["dest"]["l"]
    if map_l is None:
        return None, ["the map under construction was not found"]

    def is_map_ref(fn, operand):
        pl = op_place(operand)
        if pl is None:
            return False
        for d in fn.defs().get(pl["l"], []):
            if d[0] == "stmt" and "ref" in d[3]["rv"] and d[3]["rv"]["ref"]["l"] == map_l:
                return True
        return False

    alias_closures = {}
    for bi, si, s in init.assigns():
        a = s["rv"].get("agg")
        if isinstance(a, dict) and "closure" in a and any(is_map_ref(init, o) for o in s["rv"]["ops"]):
            alias_closures[a["closure"]] = s["pl"]["l"]
    for bi, t in init.calls():
        cal = t["callee"]
        if "indirect" in cal:
            continue
        name = cal.get("name")
        d = cal["def"]
        if d.startswith("std::collections::HashMap") and t["args"] and is_map_ref(init, t["args"][0]):
            if name == "insert":
                ks = str_list_of(init, t["args"][1])
                kinds = token_set_of(init, t["args"][2])
                if ks and kinds and len(kinds) == 1:
                    pairs.append((ks[0], next(iter(kinds))))
                else:
                    problems.append("insert with a non-literal key or kind at line %s" % t["line"])
            elif name in ("with_capacity", "new"):
                pass
            else:
                problems.append("unrecognised operation %s on the keyword map at line %s" % (d, t["line"]))
        elif d == "std::iter::Extend::extend" and t["args"] and is_map_ref(init, t["args"][0]):
            src = t["args"][1]
            handled = False
            for dd, pp in origins(init, src):
                if dd[0] == "agg":
                    st = init.stmts(dd[1])[dd[2]]
                    a = st["rv"]["agg"]
                    if isinstance(a, dict) and "array" in a:
                        for o in st["rv"]["ops"]:
                            for d3, p3 in origins(init, o):
                                if d3[0] == "agg" and init.stmts(d3[1])[d3[2]]["rv"]["agg"] == "tuple":
                                    ops = init.stmts(d3[1])[d3[2]]["rv"]["ops"]
                                    ks = str_list_of(init, ops[0])
                                    kinds = token_set_of(init, ops[1])
                                    if ks and kinds and len(kinds) == 1:
                                        pairs.append((ks[0], next(iter(kinds))))
                                        handled = True
                                    else:
                                        problems.append("extend with a non-literal pair at line %s" % t["line"])
                elif dd[0] == "call" and init.term(dd[1])["callee"].get("name") == "map":
                    mt = init.term(dd[1])
                    ks = str_list_of(init, mt["args"][0])
                    cl = init.local_ty(op_local(mt["args"][1])).peel_refs() if op_local(mt["args"][1]) is not None else None
                    cf = F.fn(cl.d.get("closure", "")) if cl is not None and cl.kind() == "closure" else None
                    kinds = set()
                    if cf is not None:
                        for b2, s2, st2 in cf.assigns():
                            a2 = st2["rv"].get("agg")
                            if isinstance(a2, dict) and a2.get("adt", "").endswith("TokenType"):
                                kinds.add(a2["variant"])
                    if ks and len(kinds) == 1:
                        k = next(iter(kinds))
                        pairs.extend((s_, k) for s_ in ks)
                        handled = True
                    else:
                        problems.append("extend(.. map ..) form not recognised at line %s" % t["line"])
            if not handled:
                problems.append("extend form not recognised at line %s" % t["line"])
        elif (cal.get("resolved") or d) in alias_closures or d in alias_closures:
            tup = t["args"][1]
            ok = False
            for dd, pp in origins(init, tup):
                if dd[0] == "agg" and init.stmts(dd[1])[dd[2]]["rv"]["agg"] == "tuple":
                    ops = init.stmts(dd[1])[dd[2]]["rv"]["ops"]
                    kinds = token_set_of(init, ops[0])
                    ks = str_list_of(init, ops[1])
                    if ks and kinds and len(kinds) == 1:
                        k = next(iter(kinds))
                        pairs.extend((s_, k) for s_ in ks)
                        ok = True
            if not ok:
                problems.append("alias(..) call with non-literal arguments at line %s" % t["line"])
    # the alias closure inserts every name with the given kind: names.iter().cloned().zip(repeat(token)) -> extend
    for cp in alias_closures:
        cf = F.fn(cp)
        names = [t["callee"].get("name") for bi, t in cf.calls() if "indirect" not in t["callee"]]
        if not {"extend", "zip", "repeat"} <= set(names):
            problems.append("the alias closure does not insert names.zip(repeat(kind))")
    return pairs, problems
