"""TABLE: extraction of finite maps from discriminant switches (single-switch "kind-lite" tables)."""
from .core import op_place, op_local, callee_def
from .flow import origins


def variant_names(F, ty):
    """discriminant value (str) -> variant name, for an enum type (Ty)"""
    t = ty.peel_refs()
    p = t.adt()
    if p in F.adts:
        return {v["discr"]: v["name"] for v in F.adts[p]["variants"]}
    if p == "std::option::Option":
        return {"0": "None", "1": "Some"}
    if p == "std::result::Result":
        return {"0": "Ok", "1": "Err"}
    if p == "std::ops::ControlFlow":
        return {"0": "Continue", "1": "Break"}
    if p == "std::cmp::Ordering":
        return {"-1": "Less", "0": "Equal", "1": "Greater", str(2**8 - 1): "Less", str(2**64 - 1): "Less", str(2**128 - 1): "Less"}
    if p == "std::borrow::Cow":
        return {"0": "Borrowed", "1": "Owned"}
    return {}


def switch_on_discr(fn, bb):
    """if block bb ends in a switch on discriminant(place): (place, enum Ty, {variant name: target}, otherwise) else None"""
    t = fn.term(bb)
    if t["k"] != "switch":
        return None
    ol = op_local(t["on"])
    if ol is None:
        return None
    for d in fn.defs().get(ol, []):
        if d[0] == "stmt" and "discr" in d[3]["rv"]:
            ty = fn.facts.ty(d[3]["rv"]["of"])
            names = variant_names(fn.facts, ty)
            arms = {}
            for v, tgt in t["targets"]:
                arms[names.get(v, "#" + v)] = tgt
            return d[3]["rv"]["discr"], ty, arms, t["otherwise"]
    return None


def all_variants(F, ty):
    t = ty.peel_refs()
    p = t.adt()
    if p in F.adts:
        return [v["name"] for v in F.adts[p]["variants"]]
    return list(dict.fromkeys(variant_names(F, ty).values()))


def arms_complete(fn, bb):
    """{variant: target} with the `otherwise` target filled in for variants not listed"""
    sw = switch_on_discr(fn, bb)
    if sw is None:
        return None
    place, ty, arms, other = sw
    out = dict(arms)
    for v in all_variants(fn.facts, ty):
        if v not in out:
            out[v] = other
    return place, ty, out


def describe_value(fn, operand, depth=0):
    """small description of what an operand is: constant, aggregate (variant with described fields), call result"""
    c = operand.get("const")
    if c is not None:
        if "fn" in c:
            return ("fn", c["fn"])
        for k in ("str", "int", "f64", "char"):
            if k in c:
                return ("const", c[k])
        return ("const", c["v"])
    out = set()
    for d, p in origins(fn, operand):
        if d[0] == "agg" and not p:
            st = fn.stmts(d[1])[d[2]]
            a = st["rv"]["agg"]
            if isinstance(a, dict) and "adt" in a:
                subs = tuple(describe_value(fn, o, depth + 1) if depth < 3 else ("?",) for o in st["rv"]["ops"])
                out.add(("agg", a["adt"].rsplit("::", 1)[-1] + "::" + a["variant"], subs))
            else:
                out.add(("agg", str(a) if not isinstance(a, dict) else "array", ()))
        elif d[0] == "const":
            out.add(("const", d[1]))
        elif d[0] == "call":
            out.add(("call", callee_def(fn.term(d[1])) or "indirect", p))
        elif d[0] == "param":
            out.add(("param", d[1], p))
        elif d[0] == "op":
            st = fn.stmts(d[1])[d[2]]
            rv = st["rv"]
            out.add(("op", rv.get("bin") or rv.get("un") or "op"))
        else:
            out.add((d[0],))
    if len(out) == 1:
        return next(iter(out))
    return ("oneof", tuple(sorted(out, key=repr)))


def result_of_arm(fn, start, stop=()):
    """what `_0` is set to on the paths from block `start` to the return: set of descriptions"""
    out = set()
    seen = set()
    st = [start]
    while st:
        b = st.pop()
        if b in seen or b in stop:
            continue
        seen.add(b)
        for s in fn.stmts(b):
            if s["k"] == "assign" and s["pl"]["l"] == 0 and not s["pl"]["p"]:
                rv = s["rv"]
                if "use" in rv:
                    out.add(describe_value(fn, rv["use"]))
                elif "agg" in rv:
                    a = rv["agg"]
                    if isinstance(a, dict) and "adt" in a:
                        out.add(("agg", a["adt"].rsplit("::", 1)[-1] + "::" + a["variant"], tuple(describe_value(fn, o) for o in rv["ops"])))
                    else:
                        out.add(("agg", "tuple" if a == "tuple" else "other", ()))
                elif "un" in rv:
                    out.add(("op", rv["un"], describe_value(fn, rv["a"])))
                elif "bin" in rv:
                    out.add(("op", rv["bin"], describe_value(fn, rv["a"]), describe_value(fn, rv["b"])))
                else:
                    out.add(("other",))
        t = fn.term(b)
        if t["k"] == "call" and t["dest"]["l"] == 0 and not t["dest"]["p"]:
            out.add(("call", callee_def(t) or "indirect", tuple(describe_value(fn, a) for a in t["args"])))
        st.extend(fn.succs()[b])
    return out


def enum_map(fn, param=1):
    """For a function that starts by switching on the discriminant of a parameter: {variant: set(result descr)}"""
    for bb in range(len(fn.blocks)):
        sw = arms_complete(fn, bb)
        if sw is None:
            continue
        place, ty, arms = sw
        if place["l"] != param and not any(d[0] == "param" and d[1] == param for d, _ in origins(fn, {"copy": {"l": place["l"], "p": []}})):
            continue
        return ty, {v: result_of_arm(fn, tgt) for v, tgt in arms.items()}
    return None


# ------------------------------------------------------------------------------------------
# token sets


def _agg_variant(fn, operand, adt_suffix="TokenType"):
    """variant name if the operand is (a copy of) a field-less aggregate / constant of the enum"""
    c = operand.get("const")
    if c is not None:
        v = c.get("v", "")
        if adt_suffix in v:
            return v.rsplit("::", 1)[-1].strip()
        return None
    for d, p in origins(fn, operand):
        if d[0] == "agg" and not p:
            a = fn.stmts(d[1])[d[2]]["rv"]["agg"]
            if isinstance(a, dict) and a.get("adt", "").endswith(adt_suffix):
                return a["variant"]
    return None


def token_set_of(fn, operand, depth=0):
    """set of TokenType variant names an operand denotes: a single TokenType value, an array / slice of them
    (inline aggregate, promoted constant, `as_ref()` / unsizing of one), or None when not recognisable"""
    if depth > 6:
        return None
    v = _agg_variant(fn, operand)
    if v is not None:
        return {v}
    c = operand.get("const")
    if c is not None and "promoted" in c:
        owner = fn.promoted_of or fn
        ps = owner.promoteds()
        if c["promoted"] < len(ps):
            pb = ps[c["promoted"]]
            return token_set_of(pb, {"copy": {"l": 0, "p": []}}, depth + 1)
        return None
    out = None
    for d, p in origins(fn, operand):
        got = None
        if d[0] == "agg":
            st = fn.stmts(d[1])[d[2]]
            a = st["rv"]["agg"]
            if isinstance(a, dict) and "array" in a:
                got = set()
                for o in st["rv"]["ops"]:
                    s = token_set_of(fn, o, depth + 1)
                    if s is None:
                        return None
                    got |= s
        elif d[0] == "call":
            t = fn.term(d[1])
            name = t["callee"].get("name") if "indirect" not in t["callee"] else None
            if name in ("as_ref", "borrow", "deref", "as_slice", "into_iter", "iter", "to_owned", "to_vec", "into_vec", "clone", "collect", "from_iter"):
                got = token_set_of(fn, t["args"][0], depth + 1)
        elif d[0] == "promoted":
            owner = fn.promoted_of or fn
            ps = owner.promoteds()
            if d[1] < len(ps):
                got = token_set_of(ps[d[1]], {"copy": {"l": 0, "p": []}}, depth + 1)
        if got is None:
            continue
        out = (out or set()) | got
    return out
