"""Obligations, violations, known findings, evidence and replay files."""
import json
import os
import time

VERIF = os.path.dirname(os.path.dirname(os.path.abspath(__file__)))


def evidence_dir():
    # VERIF_EVIDENCE_DIR redirects the output of development-time runs (seed matrix) so that they do not overwrite the
    # evidence of the registered checks
    return os.environ.get("VERIF_EVIDENCE_DIR") or os.path.join(VERIF, "evidence")


class Report:
    def __init__(self, prop, tier, seed=0, t0=None):
        self.prop = prop
        self.tier = tier
        self.seed = seed
        self.t0 = t0 or time.time()
        self.obligations = []   # dicts: rule, key, ok, detail, where
        self.rule_texts = {}    # rule -> text
        self.floors = {}        # rule -> (measured, floor)
        self.assumptions = []
        self.trusted = []
        self.notes = {}
        self.functions = set()
        self.call_sites = 0
        self.exhaustive = {}
        self.profiles = []
        self.scope = ""          # "" for the first pass; " @rel" for the thorough tier's pass over the release-profile MIR
        self.multi_profile = set()   # rules that already iterate over both profiles in the first pass
        self.controls = []
        with open(os.path.join(VERIF, "known_findings.json")) as f:
            self.known = json.load(f)["findings"]

    # ---- recording
    def rule(self, rule, text):
        self.rule_texts[rule] = text

    def ob(self, rule, key, ok, detail="", where=None, how=None):
        """one obligation; `how` says what discharged it when ok"""
        if self.scope:
            if rule in self.multi_profile:
                return ok
            self.obligations.append(
                {"rule": rule, "key": key + self.scope, "ok": bool(ok), "detail": detail, "where": where, "how": how, "base_key": key, "pass": self.scope.strip()}
            )
            return ok
        self.obligations.append(
            {"rule": rule, "key": key, "ok": bool(ok), "detail": detail, "where": where, "how": how}
        )
        return ok

    def both_profiles(self, rule):
        """the rule iterates over every loaded profile itself: the second pass adds nothing for it"""
        if not self.scope:
            self.multi_profile.add(rule)

    def fail(self, rule, key, detail, where=None):
        return self.ob(rule, key, False, detail, where)

    def floor(self, rule, measured, floor, what="instances"):
        """fail closed when a rule saw fewer instances than were confirmed by hand"""
        if self.scope and rule in self.multi_profile:
            return
        self.floors[rule + self.scope] = (measured, floor)
        if measured < floor:
            self.fail(
                rule, "floor",
                "%s: found %d %s, fewer than the %d confirmed on the reviewed tree; the anchor of this rule "
                "is gone or was renamed, so the rule cannot show the property" % (rule, measured, what, floor),
            )

    def analysed(self, fn):
        self.functions.add(fn.path if hasattr(fn, "path") else str(fn))

    def assume(self, text):
        if text not in self.assumptions:
            self.assumptions.append(text)

    def trust(self, text):
        if text not in self.trusted:
            self.trusted.append(text)

    # ---- finishing
    def finish(self):
        viol = [o for o in self.obligations if not o["ok"]]
        known_keys = {}
        for k in self.known:
            if k.get("status") == "known" and k["property"] == self.prop:
                known_keys[k["key"]] = k
        new = []
        printed_known = set()
        first_pass = {"%s::%s" % (v["rule"], v["key"]) for v in viol if "base_key" not in v}
        for v in viol:
            full = "%s::%s" % (v["rule"], v["key"])
            if "base_key" in v:
                # second pass (release-profile MIR, deeper bounds): the same instance is one finding, not two
                base_full = "%s::%s" % (v["rule"], v["base_key"])
                if base_full in first_pass:
                    continue
                if base_full in known_keys:
                    full = base_full
            if full in known_keys:
                if full not in printed_known:
                    printed_known.add(full)
                    print("KNOWN-FINDING: property=%s %s" % (self.prop, known_keys[full]["what"]))
            else:
                new.append(v)
        replay_dir = os.path.join(evidence_dir(), "replay")
        os.makedirs(replay_dir, exist_ok=True)
        # clear stale replay files of this property
        for f in os.listdir(replay_dir):
            if f.startswith(self.prop + "-"):
                os.unlink(os.path.join(replay_dir, f))
        seen = set()
        n = 0
        for v in new:
            full = "%s::%s" % (v["rule"], v["key"])
            if full in seen:
                continue
            seen.add(full)
            n += 1
            path = os.path.join(replay_dir, "%s-%d.json" % (self.prop, n))
            with open(path, "w") as f:
                json.dump(
                    {
                        "property": self.prop,
                        "rule": v["rule"],
                        "rule_text": self.rule_texts.get(v["rule"], ""),
                        "key": v["key"],
                        "full_key": full,
                        "where": v["where"],
                        "detail": v["detail"],
                        "tier": self.tier,
                    },
                    f, indent=1,
                )
            print("  %s %s @ %s: %s" % (v["rule"], v["key"], v["where"], v["detail"]))
            print("VIOLATION property=%s replay=%s" % (self.prop, path))
        self.write_evidence(len(seen), sorted(printed_known))
        return 1 if seen else 0

    def write_evidence(self, nviol, known_printed):
        per_rule = {}
        for o in self.obligations:
            r = per_rule.setdefault(o["rule"] + (" (second pass: release-profile MIR, deeper KIND bounds)" if o.get("pass") else ""), {"obligations": 0, "discharged": 0})
            r["obligations"] += 1
            if o["ok"]:
                r["discharged"] += 1
        samples = []
        seen_rules = {}
        for o in self.obligations:
            c = seen_rules.get(o["rule"], 0)
            if c < 3:
                seen_rules[o["rule"]] = c + 1
                samples.append({k: o[k] for k in ("rule", "key", "ok", "where", "how", "detail") if o.get(k) not in (None, "")})
        for o in self.obligations:
            if not o["ok"] and len(samples) < 120:
                s = {k: o[k] for k in ("rule", "key", "ok", "where", "detail") if o.get(k) not in (None, "")}
                if s not in samples:
                    samples.append(s)
        explanation = (
            "Static analysis of the type-checked MIR of /repo's current working tree (no rrss code is executed). "
            "Rules applied: "
            + " | ".join("%s: %s" % (r, t) for r, t in sorted(self.rule_texts.items()))
        )
        nob = len(self.obligations)
        ndis = sum(1 for o in self.obligations if o["ok"])
        distinct = len({(o["rule"], o["key"]) for o in self.obligations})
        cov = {
            "explanation": explanation,
            "obligations": nob,
            "discharged": ndis,
            "evaluations": max(nob, 1),
            "distinct_nontrivial": distinct,
            "rule": "one evaluation per (rule, instance) obligation extracted from the MIR/call graph of the current tree; "
                    "distinct = distinct (rule, site key) pairs",
            "functions_analysed": len(self.functions),
            "functions": sorted(self.functions),
            "call_sites": self.call_sites,
            "rule_instances": per_rule,
            "floors": {r: {"measured": m, "floor": f} for r, (m, f) in self.floors.items()},
            "profiles": self.profiles,
            "samples": samples,
            "exhaustive_tables": self.exhaustive,
            "exhaustive": bool(self.exhaustive) and all(self.exhaustive.values()),
            "checker_cmd": "./check %s --tier %s" % (self.prop, self.tier),
            "trusted_base": self.trusted,
            "known_findings_reported": known_printed,
            "positive_controls": self.controls,
            "notes": self.notes,
        }
        ev = {
            "property_id": self.prop,
            "tier": self.tier,
            "seed": self.seed,
            "level": "other",
            "coverage": cov,
            "assumptions": self.assumptions,
            "wall_s": round(time.time() - self.t0, 3),
            "violations": nviol,
        }
        d = evidence_dir()
        os.makedirs(d, exist_ok=True)
        tmp = os.path.join(d, ".%s.json.tmp" % self.prop)
        with open(tmp, "w") as f:
            json.dump(ev, f, indent=1, sort_keys=True)
        os.replace(tmp, os.path.join(d, "%s.json" % self.prop))
