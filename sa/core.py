"""Fact model over the JSON written by the driver, plus the CFG / def-use helpers every rule uses."""
import json
import os
from collections import defaultdict, deque


class Ty:
    __slots__ = ("facts", "i", "d")

    def __init__(self, facts, i):
        self.facts = facts
        self.i = i
        self.d = facts.doc["tys"][i]

    @property
    def s(self):
        return self.d["s"]

    def kind(self):
        for k in ("prim", "adt", "ref", "ptr", "tuple", "slice", "array", "closure", "fndef", "fnptr", "param", "dyn", "alias", "other"):
            if k in self.d:
                return k
        return "other"

    def adt(self):
        return self.d.get("adt")

    def args(self):
        return [Ty(self.facts, j) for j in self.d.get("args", [])]

    def inner(self):
        for k in ("ref", "ptr", "slice", "array"):
            if k in self.d:
                return Ty(self.facts, self.d[k])
        return None

    def peel_refs(self):
        t = self
        while t.kind() in ("ref", "ptr"):
            t = t.inner()
        return t

    def components(self):
        """immediate component types"""
        k = self.kind()
        if k in ("adt", "fndef"):
            return self.args()
        if k in ("ref", "ptr", "slice", "array"):
            return [self.inner()]
        if k == "tuple":
            return [Ty(self.facts, j) for j in self.d["tuple"]]
        if k == "closure":
            return [Ty(self.facts, j) for j in self.d.get("upvars", [])]
        return []

    def walk(self):
        seen = set()
        st = [self]
        while st:
            t = st.pop()
            if t.i in seen:
                continue
            seen.add(t.i)
            yield t
            st.extend(t.components())

    def __repr__(self):
        return "Ty(%s)" % self.s


class Fn:
    def __init__(self, facts, d, promoted_of=None, promoted_idx=None):
        self.facts = facts
        self.d = d
        self.promoted_of = promoted_of
        self.promoted_idx = promoted_idx
        if promoted_of is None:
            self.path = d["path"]
            self.mir = d["mir"]
        else:
            self.path = "%s::{promoted#%d}" % (promoted_of.path, promoted_idx)
            self.mir = d
        self.blocks = self.mir["blocks"]
        self.locals = self.mir["locals"]
        self.argc = self.mir["argc"]
        self._succ = None
        self._pred = None
        self._dom = None
        self._defs = None

    # -- identity
    @property
    def file(self):
        return (self.promoted_of or self).d.get("file", "?")

    @property
    def name(self):
        return self.d.get("name") or self.path.rsplit("::", 1)[-1]

    @property
    def kind(self):
        return "promoted" if self.promoted_of else self.d["kind"]

    @property
    def root(self):
        return (self.promoted_of or self).d.get("root", self.path)

    def is_derived(self):
        return bool((self.promoted_of or self).d.get("derived"))

    def in_test_file(self):
        f = self.file
        return f.endswith("/tests.rs") or "/tests/" in f

    def local_ty(self, l):
        return Ty(self.facts, self.locals[l]["ty"])

    def local_name(self, l):
        return self.locals[l].get("name")

    def loc(self, line=None):
        return "%s:%s" % (self.file, line if line is not None else (self.promoted_of or self).d.get("lo"))

    def promoteds(self):
        if self.promoted_of is not None:
            return []
        return [Fn(self.facts, p, self, i) for i, p in enumerate(self.d.get("promoted", []))]

    # -- CFG
    def term(self, bb):
        return self.blocks[bb]["term"]

    def succ_of_term(self, t, unwind=False):
        k = t["k"]
        out = []
        if k == "goto":
            out = [t["t"]]
        elif k == "switch":
            out = [x[1] for x in t["targets"]] + [t["otherwise"]]
        elif k in ("call", "assert", "drop"):
            if t.get("t") is not None:
                out = [t["t"]]
            if unwind and "unwind" in t:
                out.append(t["unwind"])
        return out

    def succ(self, bb, unwind=False):
        return self.succ_of_term(self.blocks[bb]["term"], unwind)

    def succs(self):
        if self._succ is None:
            self._succ = [list(dict.fromkeys(self.succ(i))) for i in range(len(self.blocks))]
        return self._succ

    def preds(self):
        if self._pred is None:
            p = [[] for _ in self.blocks]
            for i, ss in enumerate(self.succs()):
                for s in ss:
                    p[s].append(i)
            self._pred = p
        return self._pred

    def reachable(self, start=0, avoid=()):
        avoid = set(avoid)
        seen = set()
        if start in avoid:
            return seen
        st = [start]
        while st:
            b = st.pop()
            if b in seen:
                continue
            seen.add(b)
            for s in self.succs()[b]:
                if s not in avoid and s not in seen:
                    st.append(s)
        return seen

    def reachable_from_succs(self, bb, avoid=()):
        """blocks reachable from the successors of bb (bb itself only if on a cycle)"""
        out = set()
        for s in self.succs()[bb]:
            out |= self.reachable(s, avoid)
        return out

    def dominators(self):
        if self._dom is None:
            n = len(self.blocks)
            reach = self.reachable(0)
            dom = {b: set(reach) for b in reach}
            dom[0] = {0}
            changed = True
            order = sorted(reach)
            preds = self.preds()
            while changed:
                changed = False
                for b in order:
                    if b == 0:
                        continue
                    ps = [p for p in preds[b] if p in reach]
                    if not ps:
                        continue
                    new = set.intersection(*(dom[p] for p in ps)) | {b}
                    if new != dom[b]:
                        dom[b] = new
                        changed = True
            self._dom = dom
        return self._dom

    def dominates(self, a, b):
        return a in self.dominators().get(b, ())

    def return_blocks(self):
        return [i for i, b in enumerate(self.blocks) if b["term"]["k"] == "return"]

    def back_edges(self):
        dom = self.dominators()
        out = []
        for b in dom:
            for s in self.succs()[b]:
                if s in dom.get(b, ()):
                    out.append((b, s))
        return out

    def sccs(self):
        """non-trivial strongly connected components of the normal-flow CFG"""
        idx = {}
        low = {}
        on = set()
        st = []
        out = []
        counter = [0]
        succs = self.succs()

        def strong(v):
            # iterative Tarjan
            work = [(v, 0)]
            while work:
                node, pi = work.pop()
                if pi == 0:
                    idx[node] = low[node] = counter[0]
                    counter[0] += 1
                    st.append(node)
                    on.add(node)
                recurse = False
                ss = succs[node]
                for j in range(pi, len(ss)):
                    w = ss[j]
                    if w not in idx:
                        work.append((node, j + 1))
                        work.append((w, 0))
                        recurse = True
                        break
                    elif w in on:
                        low[node] = min(low[node], idx[w])
                if recurse:
                    continue
                if low[node] == idx[node]:
                    comp = []
                    while True:
                        w = st.pop()
                        on.discard(w)
                        comp.append(w)
                        if w == node:
                            break
                    if len(comp) > 1 or node in succs[node]:
                        out.append(set(comp))
                if work:
                    parent = work[-1][0]
                    low[parent] = min(low[parent], low[node])

        for v in sorted(self.reachable(0)):
            if v not in idx:
                strong(v)
        return out

    # -- statements
    def stmts(self, bb):
        return self.blocks[bb]["stmts"]

    def assigns(self):
        for bi, b in enumerate(self.blocks):
            for si, s in enumerate(b["stmts"]):
                if s["k"] == "assign":
                    yield bi, si, s

    def calls(self, include_cleanup=False):
        for bi, b in enumerate(self.blocks):
            if b["cleanup"] and not include_cleanup:
                continue
            t = b["term"]
            if t["k"] in ("call", "tailcall"):
                yield bi, t

    def defs(self):
        """local -> list of ('stmt', bb, si, stmt) | ('call', bb, term) definitions of the *whole* local"""
        if self._defs is None:
            d = defaultdict(list)
            for bi, b in enumerate(self.blocks):
                for si, s in enumerate(b["stmts"]):
                    if s["k"] == "assign" and not s["pl"]["p"]:
                        d[s["pl"]["l"]].append(("stmt", bi, si, s))
                t = b["term"]
                if t["k"] == "call" and not t["dest"]["p"]:
                    d[t["dest"]["l"]].append(("call", bi, t))
            self._defs = d
        return self._defs


def callee_name(t):
    """best path for the callee of a call terminator: the resolved one if known"""
    c = t["callee"]
    if "indirect" in c:
        return None
    return c.get("resolved") or c["def"]


def callee_def(t):
    c = t["callee"]
    if "indirect" in c:
        return None
    return c["def"]


def op_place(o):
    if "copy" in o:
        return o["copy"]
    if "move" in o:
        return o["move"]
    return None


def op_local(o):
    p = op_place(o)
    if p is not None and not p["p"]:
        return p["l"]
    return None


def op_const(o):
    return o.get("const")


def place_fields(pl):
    """sequence of (owner, field name, variant) for field projections in the place"""
    out = []
    for e in pl["p"]:
        if isinstance(e, dict) and "f" in e:
            out.append((e.get("of"), e.get("name", str(e["f"])), e.get("v")))
    return out


def place_str(fn, pl):
    s = fn.local_name(pl["l"]) or "_%d" % pl["l"]
    for e in pl["p"]:
        if e == "deref":
            s = "(*%s)" % s
        elif isinstance(e, dict) and "f" in e:
            s += "." + str(e.get("name", e["f"]))
        elif isinstance(e, dict) and "dc" in e:
            s = "(%s as %s)" % (s, e["dc"])
        elif isinstance(e, dict) and "idx" in e:
            s += "[_%d]" % e["idx"]
        else:
            s += "[..]"
    return s


class Instance:
    __slots__ = ("id", "d", "key", "def_", "local", "descended", "kind", "calls")

    def __init__(self, i, d):
        self.id = i
        self.d = d
        self.key = d["key"]
        self.def_ = d["def"]
        self.local = d["local"]
        self.descended = d["descended"]
        self.kind = d["kind"]
        self.calls = d["calls"]  # [bb, callee id, how]


class Facts:
    def __init__(self, path):
        with open(path) as f:
            self.doc = json.load(f)
        self.path = path
        self.meta = self.doc["meta"]
        self.profile = self.meta["profile"]
        self.adts = {a["path"]: a for a in self.doc["adts"]}
        self.traits = {t["path"]: t for t in self.doc["traits"]}
        self.impls = self.doc["impls"]
        self.fns = {}
        for d in self.doc["fns"]:
            fn = Fn(self, d)
            self.fns[fn.path] = fn
        self.insts = [Instance(i, d) for i, d in enumerate(self.doc["mono"]["insts"])]
        self.mono_roots = self.doc["mono"]["roots"]
        self._by_def = defaultdict(list)
        for inst in self.insts:
            self._by_def[inst.def_].append(inst)
        self._children = None

    # ---- functions
    def fn(self, path):
        return self.fns.get(path)

    def all_fns(self, tests=False, derived=True):
        for fn in self.fns.values():
            if not tests and fn.in_test_file():
                continue
            if not derived and fn.is_derived():
                continue
            yield fn

    def all_bodies(self, tests=False, derived=True):
        for fn in self.all_fns(tests, derived):
            yield fn
            for p in fn.promoteds():
                yield p

    def fns_matching(self, pred):
        return [f for f in self.fns.values() if pred(f)]

    def find_fn(self, suffix):
        """unique function whose path ends with the given suffix"""
        c = [f for p, f in self.fns.items() if p == suffix or p.endswith("::" + suffix)]
        return c[0] if len(c) == 1 else None

    def closures_of(self, fn):
        if self._children is None:
            ch = defaultdict(list)
            for f in self.fns.values():
                if f.kind == "closure":
                    ch[f.d["parent"]].append(f)
            self._children = ch
        return self._children.get(fn.path, [])

    def with_closures(self, fn):
        """fn plus all closures nested in it (transitively)"""
        out = [fn]
        st = [fn]
        while st:
            f = st.pop()
            for c in self.closures_of(f):
                out.append(c)
                st.append(c)
        return out

    def ty(self, i):
        return Ty(self, i)

    # ---- mono graph
    def insts_of(self, def_path):
        return self._by_def.get(def_path, [])

    def reach(self, root_defs, stop=lambda inst: False):
        """instances reachable from all instances of the given def paths"""
        seen = set()
        work = []
        for r in root_defs:
            for inst in self.insts_of(r):
                work.append(inst.id)
        parent = {}
        while work:
            i = work.pop()
            if i in seen:
                continue
            seen.add(i)
            inst = self.insts[i]
            if stop(inst):
                continue
            for bb, cid, how in inst.calls:
                if cid not in seen:
                    if cid not in parent:
                        parent[cid] = (i, bb, how)
                    work.append(cid)
        return seen, parent

    def path_to(self, parent, iid, limit=12):
        out = []
        cur = iid
        while cur in parent and len(out) < limit:
            p, bb, how = parent[cur]
            out.append(self.insts[p].def_)
            cur = p
        return list(reversed(out))

    def inst_calls_at(self, inst, bb):
        return [(self.insts[cid], how) for b, cid, how in inst.calls if b == bb]


def load_facts(outdir, profile="dev", kind="lib"):
    return Facts(os.path.join(outdir, "rrss-%s-%s.json" % (kind, profile)))
