"""CENSUS: enumeration of panic/UB-capable constructs in the bodies reachable (monomorphic call graph) from a
root set, with per-site discharge by reviewed entries (spec/reviewed_sites.json) and automatic rules."""
import json
import os
import re

from .core import op_place, op_local, callee_def
from .flow import origins

VERIF = os.path.dirname(os.path.dirname(os.path.abspath(__file__)))

PANIC_ENTRY_PREFIXES = (
    "core::panicking::", "std::rt::begin_panic", "std::rt::panic_fmt", "core::option::unwrap_failed", "core::option::expect_failed",
    "core::result::unwrap_failed", "std::panicking::begin_panic", "core::panic::", "std::process::abort", "std::process::exit",
    "core::intrinsics::abort", "std::intrinsics::abort", "core::slice::index::slice_", "core::str::slice_error_fail",
)

# external callees with a documented panic condition (by generic def path prefix or exact path); value = condition
PANICKY_EXACT = {
    "std::iter::Iterator::sum": "integer overflow of the running total (overflow checks are inherited by the caller's build profile)",
    "std::iter::Iterator::product": "integer overflow of the running product (overflow checks are inherited by the caller's build profile)",
    "std::option::Option::<T>::unwrap": "None",
    "std::option::Option::<T>::expect": "None",
    "std::result::Result::<T, E>::unwrap": "Err",
    "std::result::Result::<T, E>::expect": "Err",
    "std::result::Result::<T, E>::unwrap_err": "Ok",
    "std::result::Result::<T, E>::expect_err": "Ok",
    "std::ops::Index::index": "index out of range / key missing / not a char boundary",
    "std::ops::IndexMut::index_mut": "index out of range / key missing",
    "std::cell::RefCell::<T>::borrow": "already mutably borrowed",
    "std::cell::RefCell::<T>::borrow_mut": "already borrowed",
    "core::num::<impl i64>::from_str_radix": "radix outside 2..=36",
    "core::num::<impl u32>::from_str_radix": "radix outside 2..=36",
    "core::num::<impl i32>::from_str_radix": "radix outside 2..=36",
    "core::num::<impl u64>::from_str_radix": "radix outside 2..=36",
    "core::num::<impl usize>::from_str_radix": "radix outside 2..=36",
    "std::char::methods::<impl char>::to_digit": "radix > 36",
    "std::char::methods::<impl char>::from_digit": "radix > 36",
    "core::char::methods::<impl char>::to_digit": "radix > 36",
    "core::char::methods::<impl char>::from_digit": "radix > 36",
    "std::char::from_digit": "radix > 36",
    "std::iter::Iterator::step_by": "step == 0",
    "std::iter::ExactSizeIterator::len": "size_hint bounds disagree (assert_eq in the default method)",
    "itertools::repeat_n": "none for the call itself; the count drives allocation proportional to the result",
    "std::vec::Vec::<T, A>::remove": "index out of range",
    "std::vec::Vec::<T, A>::insert": "index > len",
    "std::vec::Vec::<T, A>::swap_remove": "index out of range",
    "std::vec::Vec::<T, A>::drain": "range out of bounds",
    "std::vec::Vec::<T, A>::split_off": "at > len",
    "std::vec::Vec::<T, A>::truncate": "none",
    "std::string::String::remove": "index out of range / not a char boundary",
    "std::string::String::insert": "index out of range / not a char boundary",
    "std::string::String::insert_str": "index out of range / not a char boundary",
    "std::string::String::truncate": "not a char boundary",
    "std::string::String::split_off": "not a char boundary",
    "std::string::String::drain": "range out of bounds / not a char boundary",
    "std::string::String::replace_range": "range out of bounds / not a char boundary",
    "core::str::<impl str>::split_at": "not a char boundary",
    "core::slice::<impl [T]>::split_at": "mid > len",
    "core::slice::<impl [T]>::copy_from_slice": "lengths differ",
    "core::slice::<impl [T]>::clone_from_slice": "lengths differ",
    "core::slice::<impl [T]>::swap": "index out of range",
    "core::slice::<impl [T]>::chunks": "chunk size 0",
    "core::slice::<impl [T]>::windows": "size 0",
    "core::slice::<impl [T]>::rotate_left": "mid > len",
    "core::slice::<impl [T]>::rotate_right": "k > len",
    "std::collections::VecDeque::<T, A>::remove": "none (returns Option)",
    "std::collections::VecDeque::<T, A>::insert": "index > len",
    "std::collections::VecDeque::<T, A>::swap": "index out of range",
    "std::collections::VecDeque::<T, A>::drain": "range out of bounds",
    "std::collections::VecDeque::<T, A>::split_off": "at > len",
    "std::collections::VecDeque::<T, A>::resize_with": "capacity overflow / allocation proportional to the new length",
    "std::collections::VecDeque::<T, A>::resize": "capacity overflow / allocation proportional to the new length",
    "std::vec::Vec::<T, A>::resize_with": "capacity overflow / allocation proportional to the new length",
    "std::vec::Vec::<T, A>::resize": "capacity overflow / allocation proportional to the new length",
    "std::vec::Vec::<T>::with_capacity": "capacity overflow / allocation proportional to the argument",
    "std::vec::Vec::<T, A>::reserve": "capacity overflow",
    "std::string::String::with_capacity": "capacity overflow / allocation proportional to the argument",
    "smallvec::SmallVec::<A>::with_capacity": "capacity overflow / allocation proportional to the argument",
    "std::collections::HashMap::<K, V>::with_capacity": "capacity overflow",
    "arrayvec::ArrayVec::<T, CAP>::push": "capacity exceeded",
    "<arrayvec::ArrayVec<T, CAP> as std::iter::FromIterator<T>>::from_iter": "more than CAP elements",
    "std::iter::FromIterator::from_iter": "see the collection collected into (ArrayVec: more than CAP elements)",
    "std::iter::Iterator::collect": "see the collection collected into (ArrayVec: more than CAP elements)",
    "std::f64::<impl f64>::clamp": "min > max or NaN bounds",
    "core::f64::<impl f64>::clamp": "min > max or NaN bounds",
    "std::cmp::Ord::clamp": "min > max",
    "std::time::Instant::duration_since": "none",
    "std::ops::Deref::deref": "lazy_static: poisoned Once (only when the target is a lazy_static cell)",
    "std::string::ToString::to_string": "only if the Display impl returns an error",
    "std::thread::spawn": "OS failure",
    "std::ops::Div::div": "integer division by zero (primitive integer operands)",
    "std::ops::Rem::rem": "integer remainder by zero (primitive integer operands)",
}


def _is_collect_into_arrayvec(fn, t):
    dty = fn.local_ty(t["dest"]["l"])
    return any(x.kind() == "adt" and x.adt().startswith("arrayvec::") for x in dty.walk())


def classify_call(fn, t):
    """(site kind, detail, condition) for a call terminator that is a census site, else None"""
    c = t["callee"]
    if "indirect" in c:
        return None
    d = c["def"]
    r = c.get("resolved") or d
    macs = t.get("mac", [])
    for cand in (d, r):
        if cand.startswith(PANIC_ENTRY_PREFIXES):
            user = [m for m in macs if not m.startswith(("$crate", "desugar", "astpass"))]
            label = user[-1] if user else d.rsplit("::", 1)[-1]
            msg = ""
            for a in t["args"]:
                cc = a.get("const")
                if cc is not None and "str" in cc:
                    msg = cc["str"]
                    break
            return "panic", "%s!%s" % (label, (" " + msg[:60]) if msg else ""), "reached"
    if d in PANICKY_EXACT:
        cond = PANICKY_EXACT[d]
        name = c["name"]
        if d in ("std::iter::Iterator::collect", "std::iter::FromIterator::from_iter"):
            if not _is_collect_into_arrayvec(fn, t):
                return None
        if d == "std::ops::Deref::deref":
            # only lazy_static cells
            rr = c.get("resolved") or ""
            if "KEYWORDS" not in rr and "lazy_static" not in rr and "LazyLock" not in rr and "Lazy<" not in rr:
                return None
            return "extern", "lazy-deref", cond
        if d == "std::string::ToString::to_string":
            return None  # to_string panics only if Display errs: Display impls of this crate are covered by ERRFLOW-free formatting; std ones never err
        if d in ("std::iter::Iterator::sum", "std::iter::Iterator::product"):
            inst = c.get("inst") or ""
            if inst.endswith(("::<f64>", "::<f32>")):
                return None  # floating-point totals do not overflow-panic
        if d in ("std::ops::Div::div", "std::ops::Rem::rem"):
            tys = [fn.facts.ty(i) for i in c.get("targs", [])]
            if not any(x.kind() == "prim" and x.s not in ("f64", "f32") for x in tys):
                return None
        if name in ("index", "index_mut"):
            tys = [fn.facts.ty(i).s for i in c.get("targs", [])]
            return "extern", "%s<%s>" % (name, ",".join(tys)[:80]), cond
        return "extern", name, cond
    if c.get("unsafe"):
        if d.startswith("std::fmt::Arguments::<'a>::new") and any("format_args" in m or "Format" in m for m in macs):
            return None  # what format_args! expands to
        return "unsafe", c["name"], "callee precondition (unsafe fn %s)" % d
    return None


def sites_of(fn):
    """all census sites of one body: list of dicts {kind, detail, cond, bb, line}"""
    out = []
    for bi, b in enumerate(fn.blocks):
        if b["cleanup"]:
            continue
        # raw pointer dereference
        for s in b["stmts"]:
            if s["k"] != "assign":
                continue
            for pl in [s["pl"]] + [op_place(o) for o in _rv_ops(s["rv"])]:
                if pl is None:
                    continue
                if pl["p"] and pl["p"][0] == "deref" and fn.local_ty(pl["l"]).kind() == "ptr":
                    if _is_box_pointer(fn, pl["l"]):
                        continue  # MIR's lowering of a Box dereference
                    if not any(m.startswith(("$crate", "format_args")) for m in s.get("mac", [])):
                        out.append({"kind": "unsafe", "detail": "raw-deref", "cond": "raw pointer validity", "bb": bi, "line": s["line"]})
        t = b["term"]
        if t["k"] == "assert" and t["msg"] in ("misaligned", "null_deref"):
            # debug-build pointer checks accompanying a raw dereference; the dereference itself is the site
            continue
        if t["k"] == "assert":
            ops = t.get("ops", [])
            desc = ",".join(_opdesc(fn, o) for o in ops)
            out.append({"kind": "assert", "detail": "%s(%s)" % (t["msg"], desc), "cond": t["msg"], "bb": bi, "line": t["line"], "mac": t.get("mac", []),
                        "sig": "%s(%s)%s" % (t["msg"], ",".join(canon_op(fn, o) for o in ops), _closure_context(fn))})
        elif t["k"] in ("call", "tailcall"):
            cl = classify_call(fn, t)
            if cl:
                out.append({"kind": cl[0], "detail": cl[1], "cond": cl[2], "bb": bi, "line": t["line"], "mac": t.get("mac", []), "callee": callee_def(t),
                            "sig": _producer_sig(fn, t) + _closure_context(fn)})
    # ordinals
    counts = {}
    for s in out:
        k = (s["kind"], s["detail"])
        s["ord"] = counts.get(k, 0)
        counts[k] = s["ord"] + 1
        s["key"] = "%s::%s::%s#%d" % (fn.path, s["kind"], s["detail"], s["ord"])
    return out


def _producer_sig(fn, t):
    """what the call operates on: the callees that produced its first argument (through moves, references and `?`), as text.
    Used only to recognise a reviewed site again after it moved inside its function (closure <-> body)."""
    from .flow import origins
    if not t.get("args"):
        return ""
    names = set()
    seen = set()
    work = list(t["args"])   # what every argument was computed by (repeat_n('*', mod10(len)) is recognised by mod10)
    g = 0
    while work and g < 12:
        g += 1
        o = work.pop()
        for d, p in origins(fn, o):
            if d[0] == "call" and d[1] not in seen:
                seen.add(d[1])
                ct = fn.term(d[1])
                nm = ct["callee"].get("name") or "?"
                if nm in ("branch", "as_ref", "as_mut", "deref", "deref_mut", "clone", "borrow", "borrow_mut", "into", "from_residual") and ct["args"]:
                    work.append(ct["args"][0])
                else:
                    names.add((ct["callee"].get("def") or nm).rsplit("::", 1)[-1])
            elif d[0] == "param":
                names.add("param:" + ".".join(str(x) for x in p))
    return "|".join(sorted(names))


def _closure_context(fn):
    """'@<name of the call the closure is handed to>' for a closure body, '' otherwise: a site inside a closure is recognised again
    after the closures of its function were renumbered only when the closure is still used the same way"""
    if fn.kind != "closure":
        return ""
    try:
        from .guards import _closure_use
        use = _closure_use(fn.facts, fn)
    except Exception:
        use = None
    if not use:
        return "@closure"
    return "@" + (use[2]["callee"].get("name") or "call")


def canon_op(fn, o, depth=0):
    """description of an operand by what computed it (callee names, parameter names, constants), independent of local variable
    names and of whether the code sits in a closure: a captured variable is described as the enclosing function computes it"""
    from .flow import origins
    c = o.get("const")
    if c is not None:
        return str(c.get("int") or c.get("v", "const"))
    descs = set()
    for d, p in origins(fn, o):
        if d[0] == "call":
            descs.add((callee_def(fn.term(d[1])) or "call").rsplit("::", 1)[-1] + "()")
        elif d[0] == "param":
            if fn.kind == "closure" and d[1] == 1 and p and depth < 3:
                up = None
                for uv in fn.mir.get("upvars", []):
                    fs = [x for x in uv["place"]["p"] if isinstance(x, dict) and "f" in x]
                    if fs and str(fs[0]["f"]) == str(p[0]):
                        up = uv["name"]
                parent = fn.facts.fn(fn.d["parent"]) if up else None
                done = False
                if parent is not None:
                    for i, loc in enumerate(parent.locals):
                        if loc.get("name") == up:
                            descs.add(canon_op(parent, {"copy": {"l": i, "p": []}}, depth + 1) + "".join("." + str(x) for x in p[1:]))
                            done = True
                            break
                    if not done and parent.kind == "closure":
                        for uv in parent.mir.get("upvars", []):
                            if uv["name"] == up:
                                descs.add(canon_op(parent, {"copy": uv["place"]}, depth + 1))
                                done = True
                if not done:
                    descs.add(up or "upvar")
            else:
                descs.add((fn.local_name(d[1]) or "arg%d" % d[1]) + "".join("." + str(x) for x in p))
        elif d[0] == "const":
            descs.add(str(d[1]))
        else:
            descs.add("tmp")
    return "|".join(sorted(descs)) if descs else "tmp"


def _is_box_pointer(fn, l):
    for d in fn.defs().get(l, []):
        if d[0] == "stmt" and "cast" in d[3]["rv"]:
            src = op_place(d[3]["rv"]["a"])
            if src is not None and any(isinstance(e, dict) and e.get("of") in ("std::ptr::NonNull", "std::ptr::Unique", "std::boxed::Box") for e in src["p"]):
                return True
    return False


def _rv_ops(rv):
    from .flow import rvalue_operands
    return rvalue_operands(rv)


def _opdesc(fn, o):
    c = o.get("const")
    if c is not None:
        return c.get("int") or c.get("v", "const")
    pl = op_place(o)
    if pl is None:
        return "?"
    n = fn.local_name(pl["l"])
    if n:
        from .core import place_str
        return place_str(fn, pl).replace("(*", "").replace(")", "") if pl["p"] else n
    # describe by origin (deterministic): field name or callee
    descs = set()
    for d, p in origins(fn, o):
        if d[0] == "call":
            descs.add((callee_def(fn.term(d[1])) or "call").rsplit("::", 1)[-1] + "()")
        elif d[0] == "param":
            descs.add((fn.local_name(d[1]) or "arg%d" % d[1]) + "".join("." + x for x in p))
        elif d[0] == "const":
            descs.add(str(d[1]))
        else:
            descs.add("tmp")
    if len(descs) == 1:
        return descs.pop()
    return "phi" if descs else "tmp"


def load_reviews():
    with open(os.path.join(VERIF, "spec", "reviewed_sites.json")) as f:
        return json.load(f)["sites"]


def run_census(ctx, rule, root_defs, F, reviews, prop_id, label, only=None, extra_bodies=()):
    """enumerate sites over the bodies reachable from root_defs in fact set F and discharge them.
    `only(fn)`: optional filter restricting which reachable bodies this property is responsible for."""
    rep = ctx.rep
    reach, parent = F.reach(root_defs)
    missing_roots = [r for r in root_defs if not F.insts_of(r)]
    for r in missing_roots:
        rep.fail(rule, "root::" + r, "census root %s not found in the monomorphic graph" % r)
    bodies = {}
    for iid in reach:
        inst = F.insts[iid]
        if inst.local:
            fn = F.fn(inst.def_)
            if fn is not None and fn.path not in bodies:
                bodies[fn.path] = (fn, iid)
    for fn in extra_bodies:
        bodies.setdefault(fn.path, (fn, None))
    n_sites = 0
    n_bodies = 0
    used = set()
    todo = []
    for path in sorted(bodies):
        fn, iid = bodies[path]
        if fn.in_test_file():
            continue
        if only is not None and not only(fn):
            continue
        n_bodies += 1
        rep.analysed(fn)
        for b in [fn] + fn.promoteds():
            for s in sites_of(b):
                todo.append((fn, iid, b, s))
    # all site keys of the tree (not only the reachable ones): a reviewed entry whose site still exists has not moved
    all_keys = ctx.cache.get(("census_all_keys", F.profile))
    if all_keys is None:
        all_keys = set()
        for f2 in F.all_bodies(tests=False):
            for s2 in sites_of(f2):
                all_keys.add(s2["key"])
        ctx.cache[("census_all_keys", F.profile)] = all_keys
    for fn, iid, b, s in todo:
        n_sites += 1
        key = s["key"]
        where = b.loc(s["line"])
        rv = reviews.get(key)
        auto = ctx.cache.get("census_auto", {}).get(key)
        if auto is not None:
            rep.ob(rule, key, auto[0], auto[1] if not auto[0] else "", where, how="automatic: " + auto[1])
            continue
        if rv is not None:
            used.add(key)
            g = rv.get("guard")
            if g:
                ok, why = run_guard(ctx, F, g, b, s)
                rep.ob(rule, key, ok, "reviewed argument no longer holds: %s (%s)" % (why, rv["reason"]) if not ok else "", where,
                       how="reviewed + guard %s: %s" % (g, rv["reason"]))
            else:
                rep.ob(rule, key, True, "", where, how="reviewed: " + rv["reason"])
            continue
        # a reviewed site that moved (helper extracted / inlined): the argument is carried over only when its guard fact, which is
        # evaluated on the site itself, holds at the new place, and the old site no longer exists
        moved = None
        shp = _shape(key)
        for k2, rv2 in reviews.items():
            g2 = rv2.get("guard")
            if g2 in PORTABLE_GUARDS and _shape(k2) == shp and k2 not in all_keys:
                ok2, why2 = run_guard(ctx, F, g2, b, s)
                if ok2:
                    moved = (k2, rv2, g2)
                    break
        if moved is not None:
            rep.ob(rule, key, True, "", where, how="reviewed argument of %s carried over (the site moved); guard %s re-established here: %s" % (moved[0], moved[2], moved[1]["reason"]))
            continue
        # the same operation on the result of the same callee, moved inside its function (closure <-> body): what the reviewed
        # argument is about -- which value is unwrapped / indexed -- is unchanged
        if shp[0] in ("extern", "unsafe") and s.get("sig") and (not s["sig"].startswith("param:") or "@" in s["sig"]):
            top_new = _top_path(F, b)
            bare = s["sig"].split("@")[0]
            for k2, rv2 in reviews.items():
                if rv2.get("guard") or k2 in all_keys or _shape(k2) != shp or _key_top(k2) != top_new:
                    continue
                if not rv2.get("sig"):
                    continue
                if bare.startswith("param:") or not bare:
                    # an operation on the closure's own argument: the same closure, renumbered (same use of the closure)
                    same = rv2["sig"] == s["sig"]
                else:
                    same = rv2["sig"].split("@")[0] == bare
                if same:
                    moved = (k2, rv2)
                    break
            if moved is not None:
                rep.ob(rule, key, True, "", where, how="reviewed argument of %s carried over (the same %s of the result of %s, moved within the function): %s" % (
                    moved[0], shp[1], s["sig"], moved[1]["reason"]))
                continue
        # magnitude arguments about an addition ("counts characters of the text", "bounded by the token count") do not depend on the
        # control context of the site: they are carried over when the same addition (same operand description) reappears in the same
        # function (closure <-> loop body) or in a new helper that only that function calls, and the reviewed site is gone
        # the same arithmetic on the same values (described by what computed them, see canon_op), moved inside its function
        # (closure <-> body, closures renumbered)
        if shp[0] == "assert" and s.get("sig"):
            top_new = _top_path(F, b)
            bare = s["sig"].split("@")[0]
            for k2, rv2 in reviews.items():
                if rv2.get("guard") or k2 in all_keys or _key_top(k2) != top_new or not rv2.get("sig"):
                    continue
                if rv2["sig"].split("@")[0] == bare and "arg" not in bare:
                    moved = (k2, rv2)
                    break
                if rv2["sig"] == s["sig"] and "@" in s["sig"]:
                    moved = (k2, rv2)
                    break
            if moved is not None:
                rep.ob(rule, key, True, "", where, how="reviewed argument of %s carried over (the same operation %s, moved within the function): %s" % (
                    moved[0], s["sig"], moved[1]["reason"]))
                continue
        if shp[0] == "assert" and shp[1].startswith("overflow_add("):
            top_new = _top_path(F, b)
            for k2, rv2 in reviews.items():
                if rv2.get("guard") or k2 in all_keys:
                    continue
                # a running total written out by hand is the library sum() it replaced (same function)
                if _shape(k2) == ("extern", "sum") and _key_top(k2) == top_new:
                    moved = (k2, rv2)
                    break
                if _shape(k2) != shp:
                    continue
                top_old = _key_top(k2)
                same_fn = top_old == top_new
                only_caller = False
                if not same_fn:
                    callers = {_top_path(F, f2) for f2 in F.all_bodies(tests=False) for bi2, t2 in f2.calls() if (t2["callee"].get("resolved") or t2["callee"].get("def")) == top_new}
                    only_caller = bool(callers) and callers <= {top_old} and not any(_key_top(k3) == top_new for k3 in reviews)
                if same_fn or only_caller:
                    moved = (k2, rv2)
                    break
            if moved is None:
                # the same counter written another way in the same function: equal constant operands, as many variable ones
                def _ops(detail):
                    inner = detail[len("overflow_add("):-1]
                    parts = inner.split(",")
                    consts = sorted(x for x in parts if x.lstrip("-").isdigit())
                    return consts, len(parts) - len(consts)
                def _selfs(detail):
                    return sorted(x for x in detail[len("overflow_add("):-1].split(",") if x.startswith("self."))
                for k2, rv2 in reviews.items():
                    if rv2.get("guard") or k2 in all_keys or _key_top(k2) != top_new:
                        continue
                    sh2 = _shape(k2)
                    if sh2[0] == "assert" and sh2[1].startswith("overflow_add(") and (_ops(sh2[1]) == _ops(shp[1]) or (_selfs(shp[1]) and _selfs(sh2[1]) == _selfs(shp[1]))):
                        moved = (k2, rv2)
                        break
            if moved is not None:
                rep.ob(rule, key, True, "", where, how="reviewed magnitude argument of %s carried over (the same addition, moved %s): %s" % (
                    moved[0], "within the function" if _key_top(moved[0]) == top_new else "into a helper only that function calls", moved[1]["reason"]))
                continue
        if shp == ("extern", "sum"):
            # a library sum() replacing a running total written out by hand in the same function
            top_new = _top_path(F, b)
            for k2, rv2 in reviews.items():
                sh2 = _shape(k2)
                if not rv2.get("guard") and k2 not in all_keys and _key_top(k2) == top_new and sh2[0] == "assert" and sh2[1].startswith("overflow_add("):
                    moved = (k2, rv2)
                    break
            if moved is not None:
                rep.ob(rule, key, True, "", where, how="reviewed magnitude argument of %s carried over (the running total is now a library sum): %s" % (moved[0], moved[1]["reason"]))
                continue
        chain = F.path_to(parent, iid) if iid is not None else []
        rep.fail(rule, key, "undischarged %s site in a body reachable from %s: %s can panic / is undefined when: %s. Path: %s" % (
            s["kind"], label, s.get("callee") or s["detail"], s["cond"], " -> ".join(chain[-6:] + [b.path])), where)
    rep.notes.setdefault("census", {})["%s/%s" % (label, F.profile)] = {"bodies": n_bodies, "sites": n_sites}
    return n_bodies, n_sites


def _key_top(key):
    """top-level function of a site key (closure segments and the site suffix removed)"""
    import re
    m = re.search(r"::(assert|extern|panic|unsafe)::", key)
    path = key[:m.start()] if m else key
    return re.sub(r"(::\{closure#\d+\})+$", "", path)


def _top_path(F, fn):
    cur = fn.promoted_of or fn
    g = 0
    while cur.kind == "closure" and g < 8:
        g += 1
        nxt = F.fn(cur.d["parent"])
        if nxt is None:
            break
        cur = nxt
    return cur.path


def _shape(key):
    """site key without the function it sits in and without its ordinal: '<kind>::<detail>'"""
    import re
    m = re.search(r"::(assert|extern|panic|unsafe)::(.*?)(#\d+)?$", key)
    return (m.group(1), m.group(2)) if m else (None, key)


# guards that derive everything they claim from the site they are evaluated on (or from the callers of the function it sits
# in): the reviewed argument they back is independent of which function the site lives in
PORTABLE_GUARDS = {
    "operator-table-total", "writeval-never-errs", "push-rhs-arms", "to-digit-radix-const", "radix-range-checked",
    "resize-after-try-reserve", "reserve-diff-nonneg", "array-after-coerce", "compare-same-kind", "take-first-len-1",
    "listbuilder-nonempty", "offset-from-guarded", "compute-value-no-dot", "as-text-ascii", "parameter-seps-capacity",
    "inc-null-replaced", "capitalized-callback-infallible", "join-elements-checked", "emplace-var-entry", "greedy-suffix-peeked", "pop-expr-back-set",
}


# ------------------------------------------------------------------------------------------
# guard facts: cheap structural facts re-checked on every run, named in reviewed entries

GUARDS = {}


def guard(name):
    def deco(f):
        GUARDS[name] = f
        return f
    return deco


def run_guard(ctx, F, name, body, site):
    g = GUARDS.get(name)
    if g is None:
        return False, "unknown guard " + name
    k = (name, F.profile, body.path, site["bb"])
    if k not in ctx.cache:
        try:
            ctx.cache[k] = g(ctx, F, body, site)
        except Exception as e:  # fail closed
            ctx.cache[k] = (False, "guard raised %r" % (e,))
    return ctx.cache[k]
