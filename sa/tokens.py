"""Token-kind knowledge in the parser: which TokenType kinds a Token value can have, and which kinds the *current*
token can have at a program point (dispatch arms, current_matches guards), resolved across callers."""
from .core import op_place, op_local, callee_def
from .flow import origins
from . import tables
from .rules.common import is_callee

PARSER = "frontend::parser::Parser::<'a>::"
PRODUCERS = ("match_and_consume", "expect_any", "expect_token", "consume", "expect_token_or_end")


def callers_of(F, path):
    out = []
    for fn in F.all_bodies(tests=False):
        for bi, t in fn.calls():
            c = t["callee"]
            if "indirect" not in c and (c["def"] == path or c.get("resolved") == path):
                out.append((fn, bi, t))
    return out


def closure_use(F, cl):
    parent = F.fn(cl.d["parent"])
    if parent is None:
        return None
    for bi, si, s in parent.assigns():
        a = s["rv"].get("agg")
        if isinstance(a, dict) and a.get("closure") == cl.path:
            for cb, ct in parent.calls():
                for a_ in ct["args"]:
                    if any(d[0] == "agg" and d[1] == bi and d[2] == si for d, _ in origins(parent, a_)):
                        return parent, cb, ct
    return None


def resolve_token_set(F, fn, operand, depth=0):
    """token set an operand denotes; parameters are resolved through the callers (union); None if unknown"""
    s = tables.token_set_of(fn, operand)
    if s is not None:
        return s
    if depth > 3:
        return None
    out = None
    for d, p in origins(fn, operand):
        if d[0] == "param":
            if fn.kind == "closure" and d[1] == 1:
                # captured value
                cap = None
                for e in (op_place(operand) or {"p": []})["p"]:
                    if isinstance(e, dict) and e.get("of") == "closure":
                        cap = e["f"]
                if cap is None:
                    for bb2, si2, s2 in fn.assigns():
                        rv = s2["rv"]
                        src = op_place(rv["use"]) if "use" in rv else rv.get("ref")
                        if src is not None and src["l"] == 1:
                            for e in src["p"]:
                                if isinstance(e, dict) and e.get("of") == "closure":
                                    cap = e["f"]
                parent = F.fn(fn.d["parent"])
                if parent is None or cap is None:
                    return None
                for bb2, si2, s2 in parent.assigns():
                    a = s2["rv"].get("agg")
                    if isinstance(a, dict) and a.get("closure") == fn.path:
                        r = resolve_token_set(F, parent, s2["rv"]["ops"][cap], depth + 1)
                        if r is None:
                            return None
                        out = (out or set()) | r
            else:
                cs = [c for c in callers_of(F, fn.path) if not c[0].in_test_file()]
                if not cs:
                    return None
                for cf, cb, ct in cs:
                    if d[1] - 1 >= len(ct["args"]):
                        return None
                    r = resolve_token_set(F, cf, ct["args"][d[1] - 1], depth + 1)
                    if r is None:
                        return None
                    out = (out or set()) | r
        elif d[0] == "call":
            t = fn.term(d[1])
            if t["callee"].get("name") in ("as_ref", "borrow", "deref", "to_owned", "clone") and t["args"]:
                r = resolve_token_set(F, fn, t["args"][0], depth + 1)
                if r is None:
                    return None
                out = (out or set()) | r
            else:
                return None
    return out


def token_kinds_of_value(F, fn, operand, depth=0):
    """kinds of a Token (or its .id) value: follows it back to the parser primitive that produced it"""
    if depth > 8:
        return None
    out = None
    srcs = origins(fn, operand)
    for d, p in srcs:
        r = None
        if d[0] == "call":
            t = fn.term(d[1])
            name = t["callee"].get("name") if "indirect" not in t["callee"] else None
            if name in PRODUCERS and (callee_def(t) or "").startswith(PARSER):
                r = resolve_token_set(F, fn, t["args"][1])
            elif name in ("branch", "map", "unwrap", "ok_or_else", "filter", "and_then", "clone", "as_ref", "into", "from") and t["args"]:
                r = token_kinds_of_value(F, fn, t["args"][0], depth + 1)
        elif d[0] == "param":
            if fn.kind == "closure" and d[1] >= 2:
                use = closure_use(F, fn)
                if use:
                    parent, cb, ct = use
                    if ct["callee"].get("name") in ("map", "and_then", "filter", "map_or", "map_or_else", "is_some_and"):
                        r = token_kinds_of_value(F, parent, ct["args"][0], depth + 1)
            elif fn.kind != "closure":
                cs = [c for c in callers_of(F, fn.path) if not c[0].in_test_file()]
                acc = set()
                for cf, cb, ct in cs:
                    rr = token_kinds_of_value(F, cf, ct["args"][d[1] - 1], depth + 1) if d[1] - 1 < len(ct["args"]) else None
                    if rr is None:
                        acc = None
                        break
                    acc |= rr
                r = acc if cs else None
        if r is None:
            return None
        out = (out or set()) | r
    return out


def takes_mut_parser(F, t):
    """does the call hand out `&mut Parser` (it may advance the lexer)?"""
    c = t["callee"]
    if "indirect" in c:
        return True
    d = c.get("resolved") or c["def"]
    fn = F.fn(d)
    if fn is None:
        # external callee: advancing only if it receives the parser mutably (closures called through it are not tracked)
        return False
    for i in range(1, fn.argc + 1):
        ty = fn.local_ty(i)
        if ty.kind() == "ref" and ty.d.get("mut") and ty.inner().kind() == "adt" and ty.inner().adt() == "frontend::parser::Parser":
            return True
    return False


def is_current_kind_place(F, fn, place):
    """does the place hold the kind (TokenType) of the *current* token, i.e. of the result of Parser::current()?"""
    for d, p in origins(fn, {"copy": place}):
        if d[0] == "param" and fn.kind == "closure" and d[1] >= 2 and p[-1:] == ("id",):
            use = closure_use(F, fn)
            if use:
                parent, cb, ct = use
                if ct["callee"].get("name") in ("and_then", "map", "filter"):
                    if any(dd[0] == "call" and is_callee(parent.term(dd[1]), PARSER + "current") for dd, _ in origins(parent, ct["args"][0])):
                        return True
        if d[0] == "call":
            t = fn.term(d[1])
            # current().map(|tok| tok.id)  -> (.. as Some).0
            if is_callee(t, "std::option::Option::<T>::map") and any(
                    dd[0] == "call" and is_callee(fn.term(dd[1]), PARSER + "current") for dd, _ in origins(fn, t["args"][0])):
                cl = fn.local_ty(op_local(t["args"][1])).peel_refs() if op_local(t["args"][1]) is not None else None
                cf = F.fn(cl.d.get("closure", "")) if cl is not None and cl.kind() == "closure" else None
                if cf is not None:
                    rs = tables.result_of_arm(cf, 0)
                    if rs and all(r[0] == "param" and r[2][-1:] == ("id",) for r in rs):
                        return True
            if is_callee(t, PARSER + "current") and p[-1:] == ("id",):
                return True
    return False


def _no_advance_between(F, fn, start_bb, end_bb):
    """no call that may advance the lexer on any path start_bb -> end_bb (exclusive of end_bb's own call)"""
    region = fn.reachable(start_bb) & ({end_bb} | {b for b in range(len(fn.blocks)) if end_bb in fn.reachable(b)})
    for b in region:
        if b == end_bb:
            continue
        t = fn.term(b)
        if t["k"] == "call" and takes_mut_parser(F, t):
            return False
    return True


def current_kinds_at(F, fn, bb, depth=0):
    """kinds the current token can have when block bb of fn starts its call (None = unknown)"""
    if depth > 4:
        return None
    # (1) current_matches(K') true edge
    from .guards import _bool_edges, _dominated_by_edge
    for b2, t2 in fn.calls():
        if is_callee(t2, PARSER + "current_matches"):
            e = _bool_edges(fn, b2)
            if e and _dominated_by_edge(fn, bb, e[0], e[2]) and _no_advance_between(F, fn, e[2], bb):
                return resolve_token_set(F, fn, t2["args"][1])
    # (2) dispatch arm on the current kind
    for sb in range(len(fn.blocks)):
        sw = tables.arms_complete(fn, sb)
        if not sw or sw[1].peel_refs().adt() != "frontend::lexer::TokenType":
            continue
        if not is_current_kind_place(F, fn, sw[0]):
            continue
        by_target = {}
        for v, tg in sw[2].items():
            by_target.setdefault(tg, set()).add(v)
        for tg, vs in by_target.items():
            if (tg == bb or _dominated_by_edge(fn, bb, sb, tg)) and _no_advance_between(F, fn, tg, bb):
                return vs
    # (3) nothing in this body: the call must be the first advancing operation; ask the callers
    if not _no_advance_between(F, fn, 0, bb):
        return None
    if fn.kind == "closure":
        use = closure_use(F, fn)
        if not use:
            return None
        parent, cb, ct = use
        return current_kinds_at(F, parent, cb, depth + 1)
    cs = [c for c in callers_of(F, fn.path) if not c[0].in_test_file()]
    if not cs:
        return None
    out = set()
    for cf, cb, ct in cs:
        r = current_kinds_at(F, cf, cb, depth + 1)
        if r is None:
            return None
        out |= r
    return out


def consume_sites(F):
    """[(fn, bb, term)] calls of Parser::consume"""
    return [c for c in callers_of(F, PARSER + "consume") if not c[0].in_test_file()]


def check_consume_site(F, fn, bb, t):
    """(ok, text): the kinds the current token can have at this consume(K) are inside K; resolved per caller when K or the
    knowledge depends on the caller"""
    K = tables.token_set_of(fn, t["args"][1])
    if K is not None:
        kinds = current_kinds_at(F, fn, bb)
        if kinds is None:
            return False, "cannot determine which token is current at consume(%s) in %s" % (sorted(K), fn.path)
        if not kinds <= K:
            return False, "consume(%s) in %s can run when the current token is %s" % (sorted(K), fn.path, sorted(kinds - K))
        return True, "current in %s" % sorted(kinds)
    # K is a parameter: pair each caller's argument with that caller's knowledge
    pidx = None
    for d, p in origins(fn, t["args"][1]):
        if d[0] == "param":
            pidx = d[1]
    if pidx is None or not _no_advance_between(F, fn, 0, bb):
        return False, "token set of consume in %s not recognised" % fn.path
    cs = [c for c in callers_of(F, fn.path) if not c[0].in_test_file()]
    if not cs:
        return False, "no caller of %s" % fn.path
    for cf, cb, ct in cs:
        Kc = resolve_token_set(F, cf, ct["args"][pidx - 1])
        kinds = current_kinds_at(F, cf, cb)
        if Kc is None or kinds is None:
            return False, "cannot pair token set and current token for the call of %s in %s" % (fn.path, cf.path)
        if not kinds <= Kc:
            return False, "%s calls %s with %s while the current token can be %s" % (cf.path, fn.path, sorted(Kc), sorted(kinds - Kc))
    return True, "paired per caller (%d)" % len(cs)
