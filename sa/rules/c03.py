"""C03 — expressions evaluate by the value rules (kind level): dispatch, operand order, short-circuit, fold direction,
kind tables, rendering constants."""
from .. import kind, kindtables as kt
from ..kind import E, is_e, c
from ..core import op_place, op_local, callee_def
from ..flow import origins
from ..props import prop
from . import common, kind_rules
from .common import is_callee, flows_into, find_method

ORD = "std::cmp::Ordering"
RES = "std::result::Result"
OPT = "std::option::Option"
BO = "frontend::ast::BinaryOperator"
UO = "frontend::ast::UnaryOperator"
VAL = "exec::val::Val"
VE = "analysis::visit::VisitExpr"
VP = "analysis::visit::VisitProgram"
OPFN = "exec::produce_val::binary_operator_fold::op"


def op_models():
    def m_compare(I, fn, st, t, args, depth):
        who = (kt.term(args[0]), kt.term(args[1]))
        for o in ("Less", "Equal", "Greater"):
            yield E(RES, "Ok", E(OPT, "Some", E(ORD, o))), None, ((("compare",) + who, o),)
        yield E(RES, "Ok", E(OPT, "None")), None, ((("compare",) + who, "None"),)
        yield E(RES, "Err", ("sym", "cmperr")), None, ((("compare",) + who, "Err"),)

    def m_truthy(I, fn, st, t, args, depth):
        who = kt.term(args[0])
        yield c(True), None, ((("truthy", who), "T"),)
        yield c(False), None, ((("truthy", who), "F"),)

    def m_equals(I, fn, st, t, args, depth):
        who = (kt.term(args[0]), kt.term(args[1]))
        yield c(True), None, ((("equals",) + who, "T"),)
        yield c(False), None, ((("equals",) + who, "F"),)

    models = {"exec::val::Val::compare": m_compare, "exec::val::Val::is_truthy": m_truthy, "exec::val::Val::equals": m_equals}
    for n in ("plus", "subtract", "multiply", "divide", "negate"):
        models["exec::val::Val::" + n] = kind.m_opaque("Val::" + n)
    return models


def op_outcomes(ctx):
    """{operator: set of (result term, frozenset of decisions)} for binary_operator_fold::op(operator, a, b, this)"""
    if "op_outcomes" in ctx.cache:
        return ctx.cache["op_outcomes"]
    F = ctx.F
    fn = F.fn(OPFN)
    if fn is None or BO not in F.adts:
        ctx.cache["op_outcomes"] = None
        return None
    I = kind.Interp(F, models=op_models())
    out = {}
    for v in F.adts[BO]["variants"]:
        op = v["name"]
        res = set()
        for o in I.run(fn, [E(BO, op), ("sym", "a"), ("sym", "b"), ("sym", "this")]):
            dec = []
            for ct, tk in o.conds:
                if isinstance(ct, tuple) and ct and ct[0] in ("called", "truthy", "equals", "compare"):
                    dec.append((ct, tk))
                else:
                    dec.append((("other", kt.term(ct) if isinstance(ct, tuple) else str(ct)), tk))
            res.add((kt.term(o.ret), tuple(dec)))
        out[op] = res
    ctx.cache["op_outcomes"] = out
    ctx.cache["op_incomplete"] = list(I.incomplete)
    return out


def expected_op(op):
    """the outcomes the language rules prescribe for one operator, in the same encoding"""
    B_OK = (("called", "b"), "ok")
    B_ERR = (("called", "b"), "err")
    exp = set()
    arith = {"Plus": "plus", "Minus": "subtract", "Multiply": "multiply", "Divide": "divide"}
    if op in arith:
        exp.add(("Ok(%s(a,b()))" % arith[op], (B_OK,)))
        exp.add(("Err(b!)", (B_ERR,)))
    elif op in ("And", "Or", "Nor"):
        # b is evaluated only when a does not decide; the result agrees with truthiness
        short_on = {"And": "F", "Or": "T", "Nor": "T"}[op]
        short_val = {"And": False, "Or": True, "Nor": False}[op]
        go = "T" if short_on == "F" else "F"
        exp.add(("Ok(B(%s))" % short_val, ((("truthy", "a"), short_on),)))
        exp.add(("Err(b!)", ((("truthy", "a"), go), B_ERR)))
        for bt in ("T", "F"):
            bv = bt == "T"
            val = {"And": bv, "Or": bv, "Nor": not bv}[op]
            exp.add(("Ok(B(%s))" % val, ((("truthy", "a"), go), B_OK, (("truthy", "b()"), bt))))
    elif op in ("Eq", "NotEq"):
        exp.add(("Err(b!)", (B_ERR,)))
        for et in ("T", "F"):
            val = (et == "T") == (op == "Eq")
            exp.add(("Ok(B(%s))" % val, (B_OK, (("equals", "a", "b()"), et))))
    else:
        holds = {"Greater": {"Greater"}, "GreaterEq": {"Greater", "Equal"}, "Less": {"Less"}, "LessEq": {"Less", "Equal"}}[op]
        exp.add(("Err(b!)", (B_ERR,)))
        exp.add(("Err(cmperr)", (B_OK, (("compare", "a", "b()"), "Err"))))
        exp.add(("Ok(B(False))", (B_OK, (("compare", "a", "b()"), "None"))))
        for o in ("Less", "Equal", "Greater"):
            exp.add(("Ok(B(%s))" % (o in holds), (B_OK, (("compare", "a", "b()"), o))))
    return exp


def dispatch_rule(ctx, rule):
    rep = ctx.rep
    outs = op_outcomes(ctx)
    fn = ctx.F.fn(OPFN)
    if outs is None:
        rep.fail(rule, "anchor", "binary_operator_fold::op / BinaryOperator not found")
        return
    rep.analysed(fn)
    rep.exhaustive["binary_operator_fold::op"] = True
    if ctx.cache.get("op_incomplete"):
        rep.fail(rule, "incomplete", "the interpretation of op was cut off (too many paths): tables are not decided", fn.loc())
    rep.floor(rule, len(outs), 13, "operators")
    for op, got in sorted(outs.items()):
        exp = expected_op(op)
        ok = got == exp
        why = ""
        if not ok:
            extra = sorted(got - exp)
            missing = sorted(exp - got)
            why = "operator %s: " % op
            if extra:
                why += "unexpected outcome %s when %s; " % (extra[0][0], list(extra[0][1]))
            if missing:
                why += "missing outcome %s when %s" % (missing[0][0], list(missing[0][1]))
        rep.ob(rule, "op::" + op, ok, why, fn.loc(), how="outcome table over {b ok/err} x {truthiness / ordering / equality} equals the language rule (%d outcomes)" % len(exp))


def unary_rule(ctx, rule):
    F, rep = ctx.F, ctx.rep
    fn = find_method(F, VE, "visit_unary_expression", "exec::produce_val::ProduceVal")
    if fn is None:
        rep.fail(rule, "anchor::unary", "ProduceVal::visit_unary_expression not found")
        return
    rep.analysed(fn)
    models = op_models()
    PVO = "exec::produce_val::ProduceValOutput"

    def m_visit(I, f, st, t, args, depth):
        yield E(RES, "Ok", E(PVO, "ProduceValOutput", ("sym", "operand"))), None, ((("called", "operand"), "ok"),)
        yield E(RES, "Err", ("sym", "operand!")), None, ((("called", "operand"), "err"),)

    def m_negate(I, f, st, t, args, depth):
        yield E(RES, "Ok", ("call", "Val::negate", (args[0],))), None, ((("negate",), "ok"),)
        yield E(RES, "Err", ("sym", "negerr")), None, ((("negate",), "err"),)
    models["analysis::visit::VisitExpr::visit_expression"] = m_visit
    models["exec::val::Val::negate"] = m_negate
    I = kind.Interp(F, models=models)
    UE = "frontend::ast::UnaryExpression"
    want = {
        "Minus": {"Ok(ProduceValOutput(negate(operand)))", "Err(negerr)", "Err(operand!)"},
        "Not": {"Ok(ProduceValOutput(B(False)))@T", "Ok(ProduceValOutput(B(True)))@F", "Err(operand!)"},
    }
    for opv in ("Minus", "Not"):
        e = E(UE, "UnaryExpression", E(UO, opv), ("sym", "operand_expr"))
        got = set()
        for o in I.run(fn, [("sym", "self"), e]):
            s = kt.term(o.ret)
            tr = [tk for ct, tk in o.conds if isinstance(ct, tuple) and ct and ct[0] == "truthy" and ct[1] == "operand"]
            if tr:
                s += "@" + tr[0]
            got.add(s)
        ok = got == want[opv]
        rep.ob(rule, "unary::" + opv, ok, "" if ok else "unary %s evaluates to %s; the rule is %s" % (opv, sorted(got), sorted(want[opv])), fn.loc(),
               how="Minus -> negate(operand), Not -> Boolean(!is_truthy(operand))")


def fold_rule(ctx, rule):
    """fold direction and operand roles of binary_operator_fold, and its two callers"""
    F, rep = ctx.F, ctx.rep
    bf = F.fn("exec::produce_val::binary_operator_fold")
    if bf is None:
        rep.fail(rule, "anchor", "binary_operator_fold not found")
        return
    rep.analysed(bf)
    tf = [(bi, t) for bi, t in bf.calls() if callee_def(t) == "std::iter::Iterator::try_fold"]
    if tf:
        # shape A: rhs.try_fold(lhs, |a, b| op(operator, a, b, this))
        ok = len(tf) == 1
        why = "" if ok else "expected one try_fold, found %d" % len(tf)
        if ok:
            bi, t = tf[0]
            init = origins(bf, t["args"][1])
            it = origins(bf, t["args"][0])
            if not any(d[0] == "param" and d[1] == 2 for d, _ in init):
                ok, why = False, "the fold does not start from lhs"
            elif not any(d[0] == "param" and d[1] == 3 for d, _ in it):
                ok, why = False, "the fold does not run over the rhs iterator"
            elif t["dest"]["l"] != 0:
                ok, why = False, "the fold result is not returned"
        rep.ob(rule, "fold::try_fold(lhs)", ok, why, bf.loc(), how="rhs.try_fold(lhs, ..) returned")
        # the folding closure hands (operator, accumulator, element, this) to op in that order
        cl = [f for f in F.closures_of(bf)]
        ok2, why2 = False, "folding closure not recognised"
        for cf in cl:
            cs = [(bi, t) for bi, t in cf.calls() if callee_def(t) == OPFN]
            if len(cs) == 1:
                t = cs[0][1]
                a = origins(cf, t["args"][1])
                b = origins(cf, t["args"][2])
                ok2 = any(d[0] == "param" and d[1] == 2 for d, _ in a) and any(d[0] == "param" and d[1] == 3 for d, _ in b) and t["dest"]["l"] == 0
                why2 = "" if ok2 else "op is not called as op(operator, accumulator, element, this)"
        rep.ob(rule, "fold::accumulator-is-left-operand", ok2, why2, bf.loc(), how="|a, b| op(operator, a, b, this)")
    else:
        # shape B: let mut acc = lhs; for b in rhs { acc = op(operator, acc, b, this)?; } Ok(acc)
        ops = [(bi, t) for bi, t in bf.calls() if callee_def(t) == OPFN]
        nexts = [bi for bi, t in bf.calls() if t["callee"].get("name") == "next" and any(d == ("param", 3) for d, _ in kind_deep(bf, t["args"][0]))]
        ok = len(ops) == 1 and len(nexts) == 1
        why = "" if ok else "neither try_fold nor a recognisable loop (one op call, one next on rhs): %d / %d" % (len(ops), len(nexts))
        ok2, why2 = ok, why
        if ok:
            ob, ot = ops[0]
            acc = {d for d, _ in origins(bf, ot["args"][1])}

            def from_op(d):
                if d == ("call", ob):
                    return True
                if d[0] == "call" and bf.term(d[1])["callee"].get("name") == "branch":
                    return all(x == ("call", ob) for x, _ in origins(bf, bf.term(d[1])["args"][0]))
                return False
            acc_ok = ("param", 2) in acc and all(d == ("param", 2) or from_op(d) for d in acc)
            elem_ok = any(d == ("call", nexts[0]) for d, _ in kind_deep(bf, ot["args"][2])) and not any(d == ("param", 2) for d, _ in kind_deep(bf, ot["args"][2]))
            brs = [bi for bi, t in bf.calls() if callee_def(t) == "std::ops::Try::branch" and any(d == ("call", ob) for d, _ in origins(bf, t["args"][0]))]
            rets = [(bi, si, st) for bi, si, st in bf.assigns() if st["pl"]["l"] == 0 and isinstance(st["rv"].get("agg"), dict) and st["rv"]["agg"].get("variant") == "Ok"]
            ret_ok = bool(rets) and all(all(d == ("param", 2) or from_op(d) for d, _ in origins(bf, st["rv"]["ops"][0])) for _, _, st in rets)
            if not acc_ok:
                ok2, why2 = False, "the accumulator handed to op is not lhs / the previous result"
            elif not elem_ok:
                ok2, why2 = False, "the element handed to op is not the next operand of rhs"
            if not brs:
                ok, why = False, "the result of op is not checked with `?`: an error would not end the fold"
            elif not ret_ok:
                ok, why = False, "the fold does not return the accumulator"
            elif any(t["callee"].get("name") in ("rev", "next_back") for bi, t in bf.calls()):
                ok, why = False, "the operands are taken from the back"
        rep.ob(rule, "fold::try_fold(lhs)", ok, why, bf.loc(), how="acc = lhs; for b in rhs { acc = op(..)? }; Ok(acc)")
        rep.ob(rule, "fold::accumulator-is-left-operand", ok2, why2, bf.loc(), how="op(operator, acc, b, this)")
    # callers: rhs iterator is once(first).chain(rest) (forward), lhs evaluated first
    for owner, mname, trait in (("exec::produce_val::ProduceVal", "visit_binary_expression", VE), ("exec::exec_stmt::ExecStmt", "visit_assignment", VP)):
        fn = find_method(F, trait, mname, owner)
        if fn is None:
            rep.fail(rule, "anchor::" + mname, "%s::%s not found" % (owner, mname))
            continue
        rep.analysed(fn)
        # the call may sit in the method itself or in a private helper it delegates the folding to
        hosts = [b for b in common.bodies_with_helpers(F, fn, depth=1) if b.kind != "closure"]
        found = [(b, bi, t) for b in hosts for bi, t in b.calls() if callee_def(t) == "exec::produce_val::binary_operator_fold"]
        cs = [(bi, t) for b, bi, t in found]
        ok = len(cs) == 1
        why = "" if ok else "expected one call of binary_operator_fold, found %d" % len(cs)
        if ok:
            fn = found[0][0]
            rep.analysed(fn)
            bi, t = cs[0]
            revs = [b2 for b2, t2 in fn.calls() if is_callee(t2, "std::iter::Iterator::rev")]
            if revs:
                ok, why = False, "the operand list is reversed"
            # the lhs value is evaluated before the fold and is its second argument
            lhs_src = [d[1] for d, _ in kind_deep(fn, t["args"][1]) if d[0] == "call" and fn.term(d[1])["callee"].get("name") in ("visit_expression", "visit_assignment_lhs")]
            if ok and not lhs_src:
                ok, why = False, "the left operand handed to the fold is not the evaluated lhs / destination"
            # rhs: once(first).chain(rest.iter()) or ExpressionList::iter
            names = {fn.term(d[1])["callee"].get("name") for d, _ in kind_deep(fn, t["args"][2]) if d[0] == "call"}
            if ok and not ({"chain", "once"} <= names or "iter" in names):
                ok, why = False, "the rhs iterator is not the operand list in source order (%s)" % sorted(x for x in names if x)
        rep.ob(rule, "fold::caller::" + mname, ok, why, fn.loc(), how="binary_operator_fold(op, lhs value, operands in order, self)")
        if mname == "visit_binary_expression" and len(cs) == 1:
            # no value of a binary expression is produced by other code than the fold: every non-error path of the method (and of
            # the helper hosting the fold, if any) passes the fold call
            method = find_method(F, trait, mname, owner)
            host, fbi, _ = found[0]
            ok3, why3 = True, ""
            if common.path_to_return_avoiding(host, [fbi]) and not _only_through_empty_first_draw(host, fbi):
                ok3, why3 = False, "%s can return a value without passing binary_operator_fold: some operator / operand combinations are decided by other code than the operator table" % host.path.split("::")[-1]
            elif host is not method:
                via = [bi for bi, t in method.calls() if callee_def(t) == host.path]
                if not via or common.path_to_return_avoiding(method, via):
                    ok3, why3 = False, "visit_binary_expression can return a value without passing the helper that folds"
            rep.ob(rule, "fold::caller::" + mname + "::every-path-through-fold", ok3, why3, method.loc(),
                   how="no non-error path from entry to return avoids the fold call")


def _only_through_empty_first_draw(host, fbi):
    """the fold is called once per operand in a loop over `once(first).chain(rest)`: the only way round the call is the loop's `next()`
    yielding None at once, which an iterator that starts with once(..) never does; every further round passes the fold again"""
    draws = []
    for bi, t in host.calls():
        if t["callee"].get("name") == "next" and t["args"]:
            names = {host.term(d[1])["callee"].get("name") for d, _ in kind_deep(host, t["args"][0]) if d[0] == "call"}
            if "once" in names and "chain" in names and not names & {"skip", "filter", "skip_while", "filter_map", "step_by", "rev"}:
                draws.append(bi)
    if len(draws) != 1:
        return False
    n = draws[0]
    if common.path_to_return_avoiding(host, [fbi, n]):
        return False          # some way round avoids the loop altogether
    # going round again without the fold?
    return n not in host.reachable_from_succs(n, avoid=[fbi])


def kind_deep(fn, operand, depth=0, seen=None):
    """origins looking through every argument of the producing calls"""
    seen = seen if seen is not None else set()
    out = set()
    for d, p in origins(fn, operand):
        out.add((d, p))
        if d[0] == "call" and d[1] not in seen and depth < 10:
            seen.add(d[1])
            for a in fn.term(d[1])["args"]:
                out |= kind_deep(fn, a, depth + 1, seen)
        elif d[0] == "agg" and depth < 10:
            st = fn.stmts(d[1])[d[2]]
            for o in st["rv"]["ops"]:
                out |= kind_deep(fn, o, depth + 1, seen)
        elif d[0] == "op" and depth < 10 and ("op", d[1], d[2]) not in seen:
            seen.add(("op", d[1], d[2]))
            from ..flow import rvalue_operands
            for o in rvalue_operands(fn.stmts(d[1])[d[2]]["rv"]):
                out |= kind_deep(fn, o, depth + 1, seen)
    return out


def incdec_rule(ctx, rule):
    F, rep = ctx.F, ctx.rep
    EXEC = "exec::exec_stmt::ExecStmt"
    inc = find_method(F, VP, "visit_inc", EXEC)
    dec = find_method(F, VP, "visit_dec", EXEC)
    for name, fn, negated in (("visit_inc", inc, False), ("visit_dec", dec, True)):
        if fn is None:
            rep.fail(rule, "anchor::" + name, "ExecStmt::%s not found" % name)
            continue
        rep.analysed(fn)
        cs = [(bi, t) for bi, t in fn.calls() if (callee_def(t) or "").endswith("visit_inc_dec")]
        ok = len(cs) == 1
        why = "" if ok else "expected one call of visit_inc_dec"
        if ok:
            t = cs[0][1]
            neg = False
            direct = False
            for d, p in origins(fn, t["args"][2]):
                if d[0] == "op":
                    st = fn.stmts(d[1])[d[2]]
                    if st["rv"].get("un") == "neg" and any(pp[-1:] == ("amount",) for dd, pp in origins(fn, st["rv"]["a"])):
                        neg = True
                if d[0] == "param" and p[-1:] == ("amount",):
                    direct = True
            ok = (neg and not direct) if negated else (direct and not neg)
            why = "" if ok else "%s passes %s" % (name, "the amount un-negated" if negated else "something other than the amount")
        rep.ob(rule, "incdec::" + name, ok, why, fn.loc(), how="visit_inc_dec(dest, %samount)" % ("-" if negated else ""))
    # the helper applies the amount in one step: exactly one Val::inc, in the write closure itself (not under an iterator
    # combinator or a loop), whose argument is the `amount` parameter, unchanged -- `x + k` is one IEEE addition, not k additions
    helper = None
    for f in F.all_fns(tests=False):
        if f.kind != "closure" and f.path.startswith(EXEC) and f.path.endswith("::visit_inc_dec"):
            helper = f
    if helper is None:
        rep.fail(rule, "anchor::visit_inc_dec", "ExecStmt::visit_inc_dec not found")
    else:
        rep.analysed(helper)
        sites = [(b, bi, t) for b in F.with_closures(helper) for bi, t in b.calls() if callee_def(t) == "exec::val::Val::inc"]
        ok = len(sites) == 1
        why = "" if ok else "expected one call of Val::inc under visit_inc_dec, found %d" % len(sites)
        if ok:
            b, bi, t = sites[0]
            cyc = set()
            for scc in b.sccs():
                cyc |= set(scc)
            amt = next((i for i in range(1, helper.argc + 1) if helper.local_name(i) == "amount"), None)
            if b.kind != "closure" or b.d.get("parent") != helper.path:
                ok, why = False, "Val::inc is called from %s, not directly from the write closure of visit_inc_dec: the amount is applied piecewise" % b.path
            elif bi in cyc:
                ok, why = False, "Val::inc is called in a loop: the amount is applied in several steps (k roundings instead of one)"
            else:
                src = set(origins(b, t["args"][1]))
                ups = {int(p[0]) for d, p in src if d == ("param", 1) and len(p) == 1 and str(p[0]).isdigit()}
                if len(src) != 1 or len(ups) != 1:
                    ok, why = False, "the argument of Val::inc is not a captured variable handed on unchanged (%s)" % sorted(map(str, src))
                else:
                    # what was captured
                    cap = None
                    for pbi, psi, ps in helper.assigns():
                        a = ps["rv"].get("agg")
                        if isinstance(a, dict) and a.get("closure") == b.path:
                            cap = ps["rv"]["ops"][list(ups)[0]]
                    csrc = {d for d, p in origins(helper, cap)} if cap is not None else set()
                    if csrc != {("param", amt)}:
                        ok, why = False, "the value handed to Val::inc is not the `amount` parameter itself (%s)" % sorted(map(str, csrc))
        rep.ob(rule, "incdec::one-step", ok, why, helper.loc(), how="|val| val.inc(amount), once")
    # inc on the value: Boolean toggles on odd amounts, Number adds the amount
    T = kind_rules.tables(ctx)
    fn = F.fn("exec::val::Val::inc")
    if fn is not None:
        outs = T.I.run(fn, [kt.mk("Number", "self"), ("sym", "x")])
        terms = {kt.term(o.refs.get(1)) for o in outs if 1 in o.refs}
        ok = terms == {"N(add(self.0,cast:IntToFloat(x)))"}
        rep.ob(rule, "inc::Number-adds-amount", ok, "" if ok else "inc on a number computes %s" % sorted(terms), fn.loc(), how="n + x as f64")


def term_anchor_rule(ctx, rule):
    """operand order and operator identity in the (Number, Number) cells, and the comparison inside one kind"""
    F, rep = ctx.F, ctx.rep
    T = kind_rules.tables(ctx)
    want = {"plus": "N(add(self.0,other.0))", "subtract": "N(sub(self.0,other.0))", "multiply": "N(mul(self.0,other.0))", "divide": "N(div(self.0,other.0))"}
    for name, w in want.items():
        fn = T.fn(name)
        if fn is None:
            continue
        got = {kt.term(o.ret) for o in T.I.run(fn, [kt.mk("Number", "self"), kt.mk("Number", "other")])}
        ok = got == {w}
        rep.ob(rule, "term::%s::NN" % name, ok, "" if ok else "%s(Number, Number) computes %s, not %s" % (name, sorted(got), w), fn.loc(), how=w)
    fn = T.fn("negate")
    if fn is not None:
        got = {kt.term(o.ret) for o in T.I.run(fn, [kt.mk("Number", "self")])}
        ok = got == {"Ok(N(neg(self.0)))"}
        rep.ob(rule, "term::negate::N", ok, "" if ok else "negate(Number) computes %s" % sorted(got), fn.loc(), how="Ok(N(neg(self.0)))")
    fn = T.fn("compare")
    if fn is not None:
        for k, callee in (("Number", "partial_cmp(self.0,other.0)"), ("String", "cmp(self.0,other.0)")):
            got = set()
            for o in T.I.run(fn, [kt.mk(k, "self"), kt.mk(k, "other")]):
                got.add(kt.term(o.ret))
            ok = any(callee in g for g in got) and not any(callee.replace("self.0,other.0", "other.0,self.0") in g for g in got)
            # ... and by nothing else: every outcome is that one comparison (or, for numbers, "unordered")
            allowed = {"Ok(Some(%s))" % callee} | ({"Ok(None)"} if k == "Number" else set())
            ok = ok and got <= allowed
            rep.ob(rule, "term::compare::%s" % k, ok, "" if ok else "compare(%s, %s) does not order (self, other) with %s: %s" % (k, k, callee, sorted(got)), fn.loc(), how=callee)
    truthy_terms(ctx, rule)


def truthy_terms(ctx, rule):
    """is_truthy per value kind, at term level (also used by C04: conditions of if/while/until)"""
    F, rep = ctx.F, ctx.rep
    T = kind_rules.tables(ctx)
    fn = T.fn("is_truthy")
    if fn is None:
        rep.fail(rule, "anchor::is_truthy", "Val::is_truthy not found")
    if fn is not None:
        got = {k: {kt.term(o.ret) for o in T.I.run(fn, [kt.mk(k, "self")])} for k in kt.KINDS}
        want_t = {"Undefined": {"False"}, "Null": {"False"}, "Boolean": {"self.0"}, "Number": {"ne(self.0,0.0)"}, "String": {"True"}, "Array": {"True"}}
        for k in kt.KINDS:
            ok = got[k] == want_t[k]
            rep.ob(rule, "term::is_truthy::%s" % kt.LET[k], ok, "" if ok else "is_truthy(%s) is %s, the rule is %s" % (k, sorted(got[k]), sorted(want_t[k])), fn.loc(), how=str(sorted(want_t[k])))


def rendering_rule(ctx, rule):
    """the texts plus_coerced substitutes for scalars are the ones to_string_for_output renders"""
    F, rep = ctx.F, ctx.rep
    T = kind_rules.tables(ctx)
    pc = T.fn("plus_coerced")
    ts = T.fn("to_string_for_output")
    if pc is None or ts is None:
        rep.fail(rule, "anchor", "plus_coerced / to_string_for_output not found")
        return

    def payload_terms(v):
        v = kind_rules._strip(v)
        if is_e(v, VAL) and v[2] == "String":
            return kt.term(v[3][0])
        return kt.term(v)

    for k in ("Undefined", "Null", "Boolean", "Number"):
        subs = set()
        for o in T.I.run(pc, [kt.mk("String", "self"), kt.mk(k, "other")]):
            r = kind_rules._strip(o.ret)
            if r[0] == "t" and len(r[1]) == 2:
                subs.add(payload_terms(r[1][1]))
        outs = set()
        for o in T.I.run(ts, [kt.mk(k, "other")]):
            outs.add(payload_terms(o.ret))
        ok = bool(subs) and subs == outs
        rep.ob(rule, "render::" + kt.LET[k], ok, "" if ok else "string + %s appends %s, but printing a %s value gives %s" % (k, sorted(subs), k, sorted(outs)), pc.loc(),
               how="same text: %s" % sorted(subs))


@prop("C03")
def c03(ctx):
    rep = ctx.rep
    rep.rule("C03.R1", "dispatch, operand roles, short-circuit and derived comparisons: KIND interprets binary_operator_fold::op for each of the "
             "13 operators with an opaque fallible right operand `b` and Val::{compare,is_truthy,equals} enumerated over their finite outcome "
             "sets; the outcome table (result, whether and when b is called, which operands each Val method receives) must equal the "
             "language rule. Unary Minus/Not likewise")
    rep.rule("C03.R3", "fold direction: binary_operator_fold is rhs.try_fold(lhs, |a, b| op(operator, a, b, this)); both callers pass the "
             "evaluated left operand and the operand list in source order (no reversal)")
    rep.rule("C03.R4", "visit_inc passes the amount, visit_dec its negation; inc on a number adds the amount")
    rep.rule("C03.R5", "kind tables (36 cells each for plus/subtract/multiply/divide/equals/compare, 6 each for negate/is_truthy/inc/decay/"
             "to_string_for_output) computed by KIND equal the reviewed reference spec/kind_tables.json; term-level anchors fix operator and "
             "operand order in the same-kind cells")
    rep.rule("C03.R6", "rendering constants agree: the text plus_coerced substitutes for mysterious/null/booleans/numbers is the text "
             "to_string_for_output renders for that value")
    rep.trust("KIND models of Option/Result/Try/Cow/Rc combinators (sa/kind.py); payloads are symbolic and never evaluated")
    dispatch_rule(ctx, "C03.R1")
    unary_rule(ctx, "C03.R1")
    fold_rule(ctx, "C03.R3")
    incdec_rule(ctx, "C03.R4")
    rep.rule("C03.R7", "leaves of expression evaluation: the literal table (mysterious -> Undefined, null -> Null, true/false -> that Boolean, "
             "a number -> that Number, a string -> that String) computed by KIND over all literal kinds; a poetic number literal -> "
             "Number(compute_value of that literal); a subscript expression -> index(value of .array, value of .subscript) with the array "
             "evaluated first; a name / pronoun -> a clone of the looked-up value, lookup errors propagated")
    leaves_rule(ctx, "C03.R7")
    n = kind_rules.compare_with_reference(ctx, "C03.R5", "binary", ["plus", "subtract", "multiply", "divide", "equals", "compare"])
    n += kind_rules.compare_with_reference(ctx, "C03.R5", "unary", ["negate", "is_truthy", "inc", "decay", "to_string_for_output"])
    rep.floor("C03.R5", n, 246, "table cells")
    term_anchor_rule(ctx, "C03.R5")
    rendering_rule(ctx, "C03.R6")
    rep.rule("C03.R8", "canonical rendering of numbers: in the interpreter no float-to-integer conversion (which saturates, truncates and loses "
             "the sign of zero) is turned into text -- a number's text is the f64's own Display (rule shared with C08.R6 / C18.R6)")
    from .c18 import text_from_cast_rule
    text_from_cast_rule(ctx, "C03.R8", scope=lambda fn: fn.file.startswith("src/exec/"), min_fns=60)
    rep.rule("C03.R10", "the string/number cell of equality and ordering reads the string with `str::parse::<f64>` applied to the string itself (no "
             "trimming: a padded numeric string is not a number) -- rule shared with C07.R10")
    from .c07 import string_to_number_rule as _s2n
    _s2n(ctx, "C03.R10")
    rep.rule("C03.R9", "string * number: the sign of the count is tested on the number itself -- in Val::multiply every float-to-integer "
             "conversion (which truncates towards zero and maps NaN to 0) is executed only on the true edge of a comparison of that same "
             "float with 0 (`b >= 0.0`), so a count in (-1, 0) or NaN gives mysterious like every other negative count, not the empty string")
    mul = ctx.F.fn("exec::val::Val::multiply")
    if mul is None:
        rep.fail("C03.R9", "anchor", "Val::multiply not found")
    else:
        from ..guards import _dominated_by_edge
        rep.analysed(mul)
        casts = [(bi, si, st) for bi, si, st in mul.assigns() if st["rv"].get("cast") == "FloatToInt"]
        ok, why = True, ""
        for bi, si, st in casts:
            src = frozenset((d, p) for d, p in origins(mul, st["rv"]["a"]) if d[0] != "const")
            guarded = False
            for b2, s2, st2 in mul.assigns():
                op = st2["rv"].get("bin")
                if op not in ("ge", "gt", "le", "lt"):
                    continue
                a_, b_ = st2["rv"]["a"], st2["rv"]["b"]

                def zero(o):
                    c_ = o.get("const")
                    if c_ is not None:
                        return c_.get("bits") in ("0", 0) or str(c_.get("f64", "")) in ("0.0", "0", "-0.0") or str(c_.get("int", "")) == "0"
                    return False
                same_a = frozenset((d, p) for d, p in origins(mul, a_) if d[0] != "const") == src
                same_b = frozenset((d, p) for d, p in origins(mul, b_) if d[0] != "const") == src
                if same_a and zero(b_) and op in ("ge", "gt"):
                    want_true = True
                elif same_b and zero(a_) and op in ("le", "lt"):
                    want_true = True
                elif same_a and zero(b_) and op in ("lt", "le"):
                    want_true = False
                elif same_b and zero(a_) and op in ("gt", "ge"):
                    want_true = False
                else:
                    continue
                sw = mul.term(b2)
                if sw["k"] != "switch":
                    continue
                zero_t = [tg for v, tg in sw["targets"] if v == "0"]
                if not zero_t:
                    continue
                tg = sw["otherwise"] if want_true else zero_t[0]
                if tg == bi or _dominated_by_edge(mul, bi, b2, tg):
                    guarded = True
            if not guarded:
                ok, why = False, "Val::multiply converts the count to an integer (line %s) without having tested the sign of the float: -0.5 and NaN truncate to 0 and give \"\" where every negative count gives mysterious" % st.get("line")
        rep.ob("C03.R9", "sign-before-truncation::multiply", ok and bool(casts), why or ("" if casts else "no float-to-integer conversion found in Val::multiply"), mul.loc(),
               how="%d conversion(s), each on the `>= 0` edge of the same float" % len(casts))



def leaves_rule(ctx, rule, only_subscript=False):
    F, rep = ctx.F, ctx.rep
    if only_subscript:
        class _Only:
            """report wrapper that keeps only the subscript obligations"""
            def __init__(self, inner):
                self._i = inner
            def __getattr__(self, n):
                return getattr(self._i, n)
            def ob(self, r, key, *a, **k):
                if key.startswith("subscript::"):
                    self._i.ob(r, key, *a, **k)
            def fail(self, r, key, *a, **k):
                if "subscript" in key:
                    self._i.fail(r, key, *a, **k)
        rep = _Only(rep)
    PV = "exec::produce_val::ProduceVal"
    LE = "frontend::ast::LiteralExpression"
    WR = "frontend::ast::WithRange"
    fn = find_method(F, VE, "visit_literal_expression", PV)
    if fn is None:
        rep.fail(rule, "anchor::visit_literal_expression", "ProduceVal::visit_literal_expression not found")
    else:
        rep.analysed(fn)
        I = kind.Interp(F)
        want = {"Mysterious": ((), "Ok(ProduceValOutput(U))"), "Boolean": ((("sym", "b"),), "Ok(ProduceValOutput(B(b)))"), "Null": ((), "Ok(ProduceValOutput(L))"),
                "Number": ((("sym", "n"),), "Ok(ProduceValOutput(N(n)))"), "String": ((("sym", "s"),), "Ok(ProduceValOutput(S(s)))")}
        kinds = {v["name"] for v in F.adts.get(LE, {"variants": []})["variants"]}
        ok = kinds == set(want)
        rep.ob(rule, "literal::kinds", ok, "" if ok else "literal kinds are %s, the table knows %s" % (sorted(kinds), sorted(want)), fn.loc(), how=str(sorted(kinds)))
        for v, (args, w) in sorted(want.items()):
            if v not in kinds:
                continue
            e = E(WR, "WithRange", E(LE, v, *args), ("sym", "range"))
            got = {kt.term(o.ret) for o in I.run(fn, [("sym", "self"), e])}
            ok = got == {w}
            rep.ob(rule, "literal::" + v, ok, "" if ok else "the literal %s evaluates to %s, the rule is %s" % (v, sorted(got), w), fn.loc(), how=w)
        rep.exhaustive["C03.R7 literal kinds"] = True
    # poetic number literal
    fn = find_method(F, VE, "visit_poetic_number_literal", PV)
    if fn is None:
        rep.fail(rule, "anchor::visit_poetic_number_literal", "ProduceVal::visit_poetic_number_literal not found")
    else:
        rep.analysed(fn)
        I = kind.Interp(F, models={"frontend::ast::PoeticNumberLiteral::compute_value": lambda I_, f, st, t, args, depth: iter([(("call", "compute_value", (kind._short(args[0]),)), None, ())])})
        got = {kt.term(o.ret) for o in I.run(fn, [("sym", "self"), ("sym", "p")])}
        ok = got == {"Ok(ProduceValOutput(N(compute_value(p))))"}
        rep.ob(rule, "poetic::Number(compute_value)", ok, "" if ok else "a poetic number literal evaluates to %s" % sorted(got), fn.loc(), how="N(compute_value(p))")
    # subscript: index(array value, subscript value), array first
    fn = find_method(F, VE, "visit_array_subscript", PV)
    if fn is None:
        rep.fail(rule, "anchor::visit_array_subscript", "ProduceVal::visit_array_subscript not found")
    else:
        rep.analysed(fn)
        idx = [(bi, t) for bi, t in fn.calls() if callee_def(t) == "exec::val::Val::index"]
        ok, why = len(idx) == 1, "" if len(idx) == 1 else "expected one call of Val::index, found %d" % len(idx)
        if ok:
            bi, t = idx[0]
            def child_of(op):
                fields = set()
                for d, p in kind_deep(fn, op):
                    if d == ("param", 2) and p:
                        fields.add(p[0])
                return fields
            a, b = child_of(t["args"][0]), child_of(t["args"][1])
            if a != {"array"} or b != {"subscript"}:
                ok, why = False, "Val::index is applied to (value of %s, value of %s), not (array, subscript)" % (sorted(a), sorted(b))
            else:
                ev = [(b2, t2) for b2, t2 in fn.calls() if (t2["callee"].get("name") or "").startswith("visit_")]
                order = []
                for b2, t2 in ev:
                    fs = set()
                    for d, p in kind_deep(fn, t2["args"][1]) if len(t2["args"]) > 1 else []:
                        if d == ("param", 2) and p:
                            fs.add(p[0])
                    order.append((b2, fs))
                arr = [b2 for b2, fs in order if fs == {"array"}]
                sub = [b2 for b2, fs in order if fs == {"subscript"}]
                if len(arr) != 1 or len(sub) != 1 or not fn.dominates(arr[0], sub[0]):
                    ok, why = False, "the array operand is not evaluated (once) before the subscript"
                elif not flows_into_(fn, bi, {"copy": {"l": 0, "p": []}}):
                    ok, why = False, "the result of Val::index is not what the expression yields"
                elif common.path_to_return_avoiding(fn, [bi]):
                    ok, why = False, "for some values the subscript expression yields something without asking Val::index: what is not indexable (or not a key) is no longer an error on that path"
        rep.ob(rule, "subscript::index(array,subscript)", ok, why, fn.loc(), how="array first, then subscript, index(array, subscript) returned")
    # names and pronouns: a clone of the looked-up value
    for m, look in (("visit_variable_name", "lookup_var"), ("visit_pronoun", "last_access")):
        fn = find_method(F, VE, m, PV)
        if fn is None:
            rep.fail(rule, "anchor::" + m, "ProduceVal::%s not found" % m)
            continue
        rep.analysed(fn)
        names = set()
        for body in common.bodies_with_helpers(F, fn):
            for bi, t in body.calls():
                names.add(t["callee"].get("name"))
        looks = [(bi, t) for bi, t in fn.calls() if t["callee"].get("name") == look]
        ok = len(looks) == 1 and "clone" in names and flows_into_(fn, looks[0][0], {"copy": {"l": 0, "p": []}})
        rep.ob(rule, "leaf::" + m, ok, "" if ok else "%s does not yield a clone of the value found by %s (calls: %s)" % (m, look, sorted(n for n in names if n)), fn.loc(),
               how="%s(..).map(clone) returned, error converted" % look)


def flows_into_(fn, src_bb, operand):
    from .common import flows_into
    return flows_into(fn, src_bb, operand)
