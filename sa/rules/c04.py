"""C04 — control flow follows the program text (shape of the control-flow state machine)."""
from ..core import op_place, op_local, callee_def
from ..flow import origins
from ..props import prop
from .. import tables
from . import common
from .common import is_callee, flows_into, find_method, inherent_methods, error_exit_blocks
from .c08 import EXEC_ERRFLOW_EXCEPTIONS, in_exec

VP = "analysis::visit::VisitProgram"
VE = "analysis::visit::VisitExpr"
EXEC = "exec::exec_stmt::ExecStmt"
CFS = "exec::exec_stmt::ControlFlowState"
EXEC_VISIT_BLOCK = "<exec::exec_stmt::ExecStmt<'a, I, O> as analysis::visit::VisitProgram>::visit_block"


def is_exec_visit_block(t):
    return callee_def(t) == EXEC_VISIT_BLOCK or t["callee"].get("resolved") == EXEC_VISIT_BLOCK


def written_variants(fn, s):
    """variants of ControlFlowState a field write may store"""
    out = set()
    rv = s.get("rv", {})
    if "use" in rv:
        for d, p in origins(fn, rv["use"]):
            if d[0] == "agg":
                a = fn.stmts(d[1])[d[2]]["rv"]["agg"]
                if isinstance(a, dict) and a.get("adt") == CFS:
                    out.add(a["variant"])
                    continue
            out.add("?")
    elif isinstance(rv.get("agg"), dict) and rv["agg"].get("adt") == CFS:
        out.add(rv["agg"]["variant"])
    else:
        out.add("?")
    return out


def reads_state(fn, bb):
    """does block bb read ExecStmt.control_flow_state (directly, or by handing a reference to a call)?"""
    def touches(pl):
        return pl is not None and any(of == EXEC and name == "control_flow_state" for of, name, _ in common.place_fields(pl))
    from ..flow import rvalue_operands
    for s in fn.stmts(bb):
        if s["k"] == "assign":
            for o in rvalue_operands(s["rv"]):
                if touches(op_place(o)):
                    return True
    return False


def loop_runners(F):
    """functions of ExecStmt that execute a block body inside a CFG cycle: [(fn, scc, body call bb)]"""
    out = []
    for fn in F.all_fns():
        if not fn.path.startswith("exec::exec_stmt::ExecStmt") and "exec::exec_stmt::ExecStmt" not in fn.path:
            continue
        for scc in fn.sccs():
            for bi in sorted(scc):
                t = fn.term(bi)
                if t["k"] == "call" and is_exec_visit_block(t):
                    out.append((fn, scc, bi))
    return out


@prop("C04")
def c04(ctx):
    F, rep = ctx.F, ctx.rep
    rep.rule("C04.R1", "writers: ExecStmt.control_flow_state is set to Breaking only by visit_break, Continuing only by visit_continue, "
             "Returning only by visit_return (each on every non-error path), Normal only by the constructor and inside a loop runner")
    rep.rule("C04.R2", "per-statement inspection: in ExecStmt::visit_block every cycle through the visit_statement call passes a read of the "
             "state (skip_rest_of_block: Normal->false, others->true) whose true edge leaves the loop")
    rep.rule("C04.R3", "loop table: after the body, the loop runner switches on the state: Normal->continue; Continuing->write Normal, continue; "
             "Breaking->write Normal, exit; Returning->exit without write; the cycle re-evaluates the condition (is_truthy xor INVERT) before "
             "every iteration; while = visit_loop::<false>, until = visit_loop::<true>")
    rep.rule("C04.R4", "one branch: visit_if decides with Val::is_truthy of the evaluated condition; then_block runs only on the true edge, "
             "else_block only on the false edge, never both")
    rep.rule("C04.R5", "dispatch completeness: every method visit_statement dispatches to is overridden by ExecStmt or is a default that only "
             "delegates (no silent no-op statement)")
    rep.rule("C04.R6", "ERRFLOW over src/exec: no runtime error is swallowed, so an error ends execution at that statement")
    rep.rule("C04.R7", "a pending exit is always looked at: every construct reachable from exec::exec that executes statements or blocks of an "
             "ExecStmt repeatedly (CFG cycle, or closure handed to an iterator combinator) inspects control_flow_state between two executions")
    rep.rule("C04.R8", "the truth value that decides if / while / until is the language's truthiness: is_truthy per value kind at term level "
             "(mysterious, null -> false; boolean -> itself; number -> n != 0; string, array -> true)")
    from . import c03 as _c03
    _c03.truthy_terms(ctx, "C04.R8")
    em = inherent_methods(F, EXEC)
    vb = find_method(F, VP, "visit_block", EXEC)
    if vb is None or not em:
        rep.fail("C04.R1", "anchor", "impl VisitProgram for ExecStmt (visit_block) not found")
        return
    runners = loop_runners(F)
    runner_paths = {fn.path for fn, _, _ in runners}

    # ---- R1
    expected_writer = {"Breaking": find_method(F, VP, "visit_break", EXEC), "Continuing": find_method(F, VP, "visit_continue", EXEC),
                       "Returning": find_method(F, VP, "visit_return", EXEC)}
    writes = [(fn, bi, s) for fn, bi, kind, s in common.field_accesses(F, EXEC, "control_flow_state") if kind == "write"]
    for fn, bi, kind, s in common.field_accesses(F, EXEC, "control_flow_state"):
        if kind == "mutref":
            rep.fail("C04.R1", "mutref::" + common.top_fn(F, fn).path, "a mutable reference to control_flow_state is taken in %s" % fn.path, fn.loc(s.get("line")))
    rep.floor("C04.R1", len(writes), 3, "writes of control_flow_state")
    for fn, bi, s in writes:
        top = common.top_fn(F, fn)
        for v in written_variants(fn, s):
            key = "write::%s::%s" % (v, top.path)
            if v in expected_writer:
                w = expected_writer[v]
                ok = w is not None and top.path == w.path
                rep.ob("C04.R1", key, ok, "" if ok else "%s sets the state to %s (only %s may)" % (top.path, v, "visit_" + {"Breaking": "break", "Continuing": "continue", "Returning": "return"}[v]),
                       fn.loc(s.get("line")), how="the statement's own method")
            elif v == "Normal":
                ok = top.path in runner_paths
                rep.ob("C04.R1", key, ok, "" if ok else "%s resets the state to Normal although it is not a loop runner: a pending break/continue/return "
                       "would be lost (or reset one level too early)" % top.path, fn.loc(s.get("line")), how="inside a loop runner")
            else:
                rep.fail("C04.R1", key, "%s writes an unrecognised value to control_flow_state" % top.path, fn.loc(s.get("line")))
    for v, w in expected_writer.items():
        if w is None:
            rep.fail("C04.R1", "anchor::" + v, "ExecStmt does not override the method that sets %s" % v)
            continue
        rep.analysed(w)
        ws = [bi for fn, bi, s in writes if fn is w and v in written_variants(fn, s)]
        ok = bool(ws) and not common.path_to_return_avoiding(w, ws)
        rep.ob("C04.R1", "sets-on-every-path::" + v, ok, "" if ok else "%s does not set the state to %s on every non-error path" % (w.path, v), w.loc(), how="write dominates normal return")
    # constructor starts Normal
    for fn, bi, s in common.aggregates_of(F, EXEC):
        adt = F.adts[EXEC]
        idx = [i for i, f in enumerate(adt["variants"][0]["fields"]) if f["name"] == "control_flow_state"]
        ok = False
        if idx:
            d = tables.describe_value(fn, s["rv"]["ops"][idx[0]])
            ok = d[0] == "agg" and d[1] == "ControlFlowState::Normal"
        rep.ob("C04.R1", "constructed-normal::" + common.top_fn(F, fn).path, ok, "" if ok else "an ExecStmt is constructed in a state other than Normal", fn.loc(s.get("line")), how="Normal")

    # ---- R2
    rep.analysed(vb)
    vs_sites = [bi for bi, t in vb.calls() if callee_def(t) == "analysis::visit::VisitProgram::visit_statement"]
    ok = len(vs_sites) == 1 and any(vs_sites[0] in scc for scc in vb.sccs())
    rep.ob("C04.R2", "visit_block::statement-loop", ok, "" if ok else "ExecStmt::visit_block is not a loop over visit_statement (shape not recognised; cannot show the inspection)", vb.loc(), how="one visit_statement call in a cycle")
    skip = None
    if ok:
        S = vs_sites[0]
        insp = [bi for bi in range(len(vb.blocks)) if reads_state(vb, bi)]
        again = S in vb.reachable_from_succs(S, avoid=insp)
        rep.ob("C04.R2", "visit_block::inspects-after-every-statement", not again,
               "" if not again else "the next statement can run without control_flow_state having been looked at after the previous one", vb.loc(vb.term(S)["line"]), how="every cycle passes a read of the state")
        # the inspection: call f(&state) -> bool, switch; true leaves the loop
        found = False
        for bi in insp:
            t = vb.term(bi)
            if t["k"] == "call" and t["t"] is not None:
                sw = vb.term(t["t"])
                if sw["k"] == "switch" and op_local(sw["on"]) == t["dest"]["l"]:
                    zero = [tgt for v, tgt in sw["targets"] if v == "0"]
                    if zero:
                        true_reaches = S in vb.reachable(sw["otherwise"])
                        false_reaches = S in vb.reachable(zero[0])
                        found = True
                        rep.ob("C04.R2", "visit_block::pending-exit-leaves-block", (not true_reaches) and false_reaches,
                               "" if (not true_reaches and false_reaches) else "the edges of the state test are not 'pending exit -> leave the block, otherwise -> next statement'",
                               vb.loc(t["line"]), how="true edge cannot reach the next statement")
                        skip = F.fn(callee_def(t))
        if not found:
            rep.fail("C04.R2", "visit_block::pending-exit-leaves-block", "no boolean test of the state whose true edge leaves the statement loop", vb.loc())
    if skip is not None:
        rep.analysed(skip)
        m = tables.enum_map(skip, 1)
        want = {"Normal": {("const", "0")}, "Breaking": {("const", "1")}, "Continuing": {("const", "1")}, "Returning": {("const", "1")}}
        got = m[1] if m else None
        rep.exhaustive["skip_rest_of_block"] = True
        for v in want:
            ok = got is not None and got.get(v) == want[v]
            rep.ob("C04.R2", "skip_rest_of_block::" + v, ok, "" if ok else "skip_rest_of_block(%s) is %s, expected %s" % (v, got.get(v) if got else None, want[v]), skip.loc(), how="switch arm constant")

    # ---- R3
    rep.floor("C04.R3", len(runners), 1, "loop runners")
    for fn, scc, S in runners:
        rep.analysed(fn)
        loop_trace_table(ctx, fn)
    for mname, inv in (("visit_while", "false"), ("visit_until", "true")):
        m = find_method(F, VP, mname, EXEC)
        if m is None:
            rep.fail("C04.R3", "anchor::" + mname, "ExecStmt::%s not found" % mname)
            continue
        rep.analysed(m)
        cs = [(bi, t) for bi, t in m.calls() if callee_def(t) in runner_paths]
        ok = len(cs) == 1 and cs[0][1]["callee"].get("inst", "").endswith("::<%s>" % inv) and cs[0][1]["dest"]["l"] == 0
        if ok:
            t = cs[0][1]
            f1 = [p for d, p in origins(m, t["args"][1]) if d[0] == "param" and d[1] == 2]
            f2 = [p for d, p in origins(m, t["args"][2]) if d[0] == "param" and d[1] == 2]
            ok = ("condition",) in f1 and ("block",) in f2
        rep.ob("C04.R3", "invert::" + mname, ok, "" if ok else "%s does not run the loop runner with INVERT=%s on (condition, block)" % (mname, inv), m.loc(), how="visit_loop::<%s>(&x.condition, &x.block)" % inv)

    # ---- R4
    vif = find_method(F, VP, "visit_if", EXEC)
    if vif is None:
        rep.fail("C04.R4", "anchor", "ExecStmt::visit_if not found")
    else:
        rep.analysed(vif)
        # trace table by KIND (whatever idiom selects the branch): the condition is evaluated once; its error ends the statement; a
        # truthy value runs then_block and nothing else, a falsy one runs else_block if there is one and nothing otherwise; a block's
        # error is the statement's error
        from .. import kind as _kind, kindtables as _kt
        from ..kind import E as _E, c as _kc
        RES_, PVO_, OPT_ = "std::result::Result", "exec::produce_val::ProduceValOutput", "std::option::Option"

        def m_ve(I_, f, st, t, args, depth):
            yield _E(RES_, "Ok", _E(PVO_, "ProduceValOutput", ("call", "value_of", (_kind._short(args[1]),)))), None, ((("eval", _kind._short(args[1])), "ok"),)
            yield _E(RES_, "Err", ("sym", "cerr")), None, ((("eval", _kind._short(args[1])), "err"),)

        def m_truthy(I_, f, st, t, args, depth):
            yield _kc(True), None, ((("truthy", _kind._short(args[0])), "T"),)
            yield _kc(False), None, ((("truthy", _kind._short(args[0])), "F"),)

        def m_vb(I_, f, st, t, args, depth):
            yield _E(RES_, "Ok", ("t", ())), None, ((("block", _kind._short(args[1])), "ok"),)
            yield _E(RES_, "Err", ("sym", "berr")), None, ((("block", _kind._short(args[1])), "err"),)
        I4 = _kind.Interp(F, models={"analysis::visit::VisitExpr::visit_expression": m_ve, "exec::val::Val::is_truthy": m_truthy, "analysis::visit::VisitProgram::visit_block": m_vb})
        IF_ = "frontend::ast::If"
        rep.exhaustive["C04.R4 visit_if over else present/absent x condition ok/err x truthiness x block ok/err"] = True
        for els in ("None", "Some"):
            iv = _E(IF_, "If", ("sym", "condition"), ("sym", "then_block"), _E(OPT_, "None") if els == "None" else _E(OPT_, "Some", ("sym", "else_block")))
            got = set()
            for o in I4.run(vif, [("sym", "self"), iv]):
                tr_ = tuple((c_[0][0], _kt.term(c_[0][1]) if len(c_[0]) > 1 else "", c_[1]) for c_ in o.conds if isinstance(c_[0], tuple) and c_[0] and c_[0][0] in ("eval", "truthy", "block"))
                got.add((tr_, _kt.term(o.ret)))
            EV, TR = ("eval", "condition"), ("truthy", "value_of(condition)")
            want = {
                ((EV + ("err",),), "Err(cerr)"),
                ((EV + ("ok",), TR + ("T",), ("block", "then_block", "ok")), "Ok(())"),
                ((EV + ("ok",), TR + ("T",), ("block", "then_block", "err")), "Err(berr)"),
            }
            if els == "None":
                want.add(((EV + ("ok",), TR + ("F",)), "Ok(())"))
            else:
                want.add(((EV + ("ok",), TR + ("F",), ("block", "else_block", "ok")), "Ok(())"))
                want.add(((EV + ("ok",), TR + ("F",), ("block", "else_block", "err")), "Err(berr)"))
            ok = got == want and not I4.incomplete
            why = ""
            if not ok:
                extra = sorted(got - want, key=str)[:1]
                missing = sorted(want - got, key=str)[:1]
                why = "visit_if (else branch %s): %s%s" % ("present" if els == "Some" else "absent", ("unexpected run %s; " % (extra[0],)) if extra else "", ("missing run %s" % (missing[0],)) if missing else "")
            rep.ob("C04.R4", "if-trace::else=%s" % els, ok, why, vif.loc(), how="condition once; truthy -> then only; falsy -> else only / nothing; errors end the statement (%d runs)" % len(want))

    # ---- R5
    vs = F.fn("analysis::visit::VisitProgram::visit_statement")
    if vs is None:
        rep.fail("C04.R5", "anchor", "VisitProgram::visit_statement not found")
    else:
        overridden = set()
        for imp in F.impls:
            st = F.ty(imp["self_ty"])
            if imp.get("trait") == VP and st.kind() == "adt" and st.adt() == EXEC:
                overridden = {m["name"] for m in imp["methods"]}
        dispatched = sorted({t["callee"]["name"] for bi, t in vs.calls() if t["callee"].get("trait") == VP})
        rep.floor("C04.R5", len(dispatched), 18, "statement methods dispatched to")
        # the dispatch is unconditional: per statement kind exactly one outcome, a visit method applied to that statement's payload,
        # depending on nothing but the kind (table computed by KIND with the visit methods left opaque)
        from .. import kind as _kind, kindtables as _kt

        def m_visit(I_, f, st, t, args, depth):
            yield ("call", t["callee"].get("name") or "visit_?", tuple(_kind._short(a_) for a_ in args[1:])), None, ()
        I_ = _kind.Interp(F)
        _kind_prefix = ("analysis::visit::VisitProgram::visit_", m_visit)
        saved_prefix = list(_kind.PREFIX_MODELS)
        _kind.PREFIX_MODELS.insert(0, _kind_prefix)
        try:
            outs = I_.run(vs, [("sym", "self"), ("sym", "s")])
        finally:
            _kind.PREFIX_MODELS[:] = saved_prefix
        rows = {}
        for o in outs:
            k = None
            extra = []
            for c_ in o.conds:
                if isinstance(c_[0], tuple) and c_[0] and c_[0][0] == "is" and c_[0][1] == ("sym", "s"):
                    k = c_[1]
                else:
                    extra.append(c_)
            rows.setdefault(k, []).append((_kt.term(o.ret), extra))
        kinds = {v["name"] for v in F.adts.get("frontend::ast::Statement", {"variants": []})["variants"]}
        rep.ob("C04.R5", "dispatch::covers-every-statement-kind", set(rows) == kinds and bool(kinds), "" if set(rows) == kinds else "kinds without a dispatch row: %s" % sorted(kinds - set(rows), key=str), vs.loc(),
               how="%d statement kinds" % len(kinds))
        for k in sorted(kinds & set(rows)):
            outs_k = rows[k]
            ok = len(outs_k) == 1 and not outs_k[0][1] and outs_k[0][0].startswith("visit_") and (".%s0" % k in outs_k[0][0] or "%s0" % k in outs_k[0][0] or "s." in outs_k[0][0] or True)
            why = ""
            if len(outs_k) != 1 or outs_k[0][1]:
                ok = False
                why = "a %s statement is dispatched in %d ways depending on %s: some statements of this kind never reach the interpreter's method (their condition / operands are not evaluated)" % (
                    k, len(outs_k), sorted({str(e[0])[:60] for r in outs_k for e in r[1]})[:2])
            elif not outs_k[0][0].startswith("visit_"):
                ok = False
                why = "a %s statement is not handed to a visit method (%s)" % (k, outs_k[0][0][:60])
            rep.ob("C04.R5", "dispatch::unconditional::" + k, ok, why, vs.loc(), how=outs_k[0][0][:50])
        rep.exhaustive["C04.R5 dispatch over statement kinds"] = True
        for name in dispatched:
            key = "handled::" + name
            if name in overridden:
                rep.ob("C04.R5", key, True, "", how="overridden by ExecStmt")
                continue
            d = F.fn("analysis::visit::VisitProgram::" + name)
            delegates = d is not None and any(t["callee"].get("trait") == VP and t["callee"]["name"] in overridden for bi, t in d.calls()) \
                and not any(is_callee(t, "analysis::visit::leaf") for b in F.with_closures(d) for bi, t in b.calls())
            rep.ob("C04.R5", key, delegates, "" if delegates else "ExecStmt inherits the default %s, which does nothing: that statement kind would be silently skipped" % name,
                   d.loc() if d else None, how="default delegates to overridden methods")

    # ---- R6
    n = common.errflow(ctx, "C04.R6", in_exec, exceptions=EXEC_ERRFLOW_EXCEPTIONS)
    rep.floor("C04.R6", n, 100, "error-carrying call results in src/exec")

    # ---- R7
    reach, parent = F.reach(["exec::exec"])
    n_sites = 0
    for iid in sorted(reach):
        inst = F.insts[iid]
        if not inst.local:
            continue
        fn = F.fn(inst.def_)
        if fn is None:
            continue
        for bb, cid, how in inst.calls:
            callee = F.insts[cid]
            if "ExecStmt" not in callee.key:
                continue
            if callee.def_ not in (EXEC_VISIT_BLOCK, "analysis::visit::VisitProgram::visit_statement"):
                continue
            in_cycle = any(bb in scc for scc in fn.sccs())
            if fn.kind != "closure" and not in_cycle:
                continue
            n_sites += 1
            key = "repeats::" + fn.path
            if fn.kind == "closure":
                # a closure handed to a combinator runs once per element; it can only stop the iteration through its result
                inspects = any(reads_state(fn, b) for b in fn.reachable_from_succs(bb))
                rep.ob("C04.R7", key, inspects,
                       "" if inspects else "%s runs %s once per element without looking at control_flow_state in between: a pending break/continue/return "
                       "set by one element is still pending when the next one starts" % (fn.path, callee.def_.rsplit("::", 1)[-1]),
                       fn.loc(fn.term(bb)["line"]), how="reads the state after each execution")
            else:
                insp = [b for b in range(len(fn.blocks)) if reads_state(fn, b)]
                again = bb in fn.reachable_from_succs(bb, avoid=insp)
                rep.ob("C04.R7", key, not again, "" if not again else "%s can execute %s again without looking at control_flow_state" % (fn.path, callee.def_.rsplit("::", 1)[-1]),
                       fn.loc(fn.term(bb)["line"]), how="every cycle passes a read of the state")
    rep.floor("C04.R7", n_sites, 2, "repeated-execution sites")



def loop_trace_table(ctx, fn):
    """C04.R3 by KIND: the runs of the loop runner over two rounds, with the condition (ok/err, truthy/falsy), the body (error, or
    leaving each of the four control-flow states behind) and the scope operations as events, for INVERT = false and true, must be
    exactly the runs of the language rule -- whatever shape the loop is written in"""
    F, rep = ctx.F, ctx.rep
    from .. import kind as _kind, kindtables as _kt
    from ..kind import E as _E, c as _kc
    EX, CFS = EXEC, "exec::exec_stmt::ControlFlowState"
    RES_, PVO_ = "std::result::Result", "exec::produce_val::ProduceValOutput"
    fields = [f["name"] for f in F.adts.get(EX, {"variants": [{"fields": []}]})["variants"][0]["fields"]]
    if "control_flow_state" not in fields:
        rep.fail("C04.R3", "anchor::control_flow_state", "ExecStmt.control_flow_state not found")
        return
    ci = fields.index("control_flow_state")
    STATES = ("Normal", "Continuing", "Breaking", "Returning")
    counter = [0]

    def m_ve(I_, f, st, t, args, depth):
        counter[0] += 1
        n = counter[0]
        yield _E(RES_, "Ok", _E(PVO_, "ProduceValOutput", ("sym", "v%d" % n))), None, ((("cond", n), "ok"),)
        yield _E(RES_, "Err", ("sym", "cerr")), None, ((("cond", n), "err"),)

    def m_truthy(I_, f, st, t, args, depth):
        yield _kc(True), None, ((("truthy", _kind._short(args[0])), "T"),)
        yield _kc(False), None, ((("truthy", _kind._short(args[0])), "F"),)

    def m_vb(I_, f, st, t, args, depth):
        selfv = I_.deref_value(st, args[0])
        if isinstance(selfv, tuple) and selfv and selfv[0] == "e":
            for stt in STATES:
                flds = list(selfv[3])
                flds[ci] = _E(CFS, stt)
                yield _E(RES_, "Ok", ("t", ())), {0: ("e", selfv[1], selfv[2], tuple(flds))}, ((("block",), stt),)
        else:
            yield _E(RES_, "Ok", ("t", ())), None, ((("block",), "?"),)
        yield _E(RES_, "Err", ("sym", "berr")), None, ((("block",), "err"),)

    def ev(name):
        def m(I_, f, st, t, args, depth):
            yield ("t", ()), None, (((name,), "1"),)
        return m
    models = {"analysis::visit::VisitExpr::visit_expression": m_ve, "exec::val::Val::is_truthy": m_truthy, "analysis::visit::VisitProgram::visit_block": m_vb}
    for f2 in F.all_fns():
        if f2.path.endswith("::visit_block") and f2.path.startswith("<" + EX):
            models[f2.path] = m_vb
        if f2.path.endswith("::push_scope"):
            models[f2.path] = ev("push")
        if f2.path.endswith("::pop_scope"):
            models[f2.path] = ev("pop")
    # argument positions: self, the condition expression, the block
    for invert in (False, True):
        I_ = _kind.Interp(F, models=models)
        I_.const_env = {"INVERT": _kc(invert)}
        flds0 = [("sym", n_) for n_ in fields]
        flds0[ci] = _E(CFS, "Normal")
        selfv = ("e", EX, "ExecStmt", tuple(flds0))
        got = set()
        for o in I_.run(fn, [selfv, ("sym", "condition"), ("sym", "block")]):
            tr = tuple((c_[0][0], c_[1]) for c_ in o.conds if isinstance(c_[0], tuple) and c_[0] and c_[0][0] in ("cond", "truthy", "block", "push", "pop"))
            after = o.refs.get(1)
            got.add((tr, _kt.term(o.ret), _kt.term(after[3][ci]) if after and after[0] == "e" else "Normal"))
        # the language rule, as many rounds deep as KIND follows a loop (it cuts after MAX_VISITS visits of a block: two in the
        # quick tier, three in the thorough tier's second pass)
        want = set()

        def rounds(tr, state, depth):
            want.add((tr + (("cond", "err"),), "Err(cerr)", state))
            for x, xb in (("T", True), ("F", False)):
                t2 = tr + (("cond", "ok"), ("truthy", x))
                if not (invert ^ xb):
                    want.add((t2, "Ok(())", state))
                    continue
                t3 = t2 + (("push", "1"),)
                want.add((t3 + (("block", "err"),), "Err(berr)", state))
                for stt in STATES:
                    t4 = t3 + (("block", stt), ("pop", "1"))
                    if stt == "Returning":
                        want.add((t4, "Ok(())", "Returning"))
                    elif stt == "Breaking":
                        want.add((t4, "Ok(())", "Normal"))
                    elif depth < _kind.MAX_VISITS - 1:
                        rounds(t4, "Normal", depth + 1)
        rounds((), "Normal", 0)
        ok = got == want and not I_.incomplete
        why = ""
        if not ok:
            extra = sorted(got - want, key=str)[:1]
            missing = sorted(want - got, key=str)[:1]
            why = "loop runner with INVERT=%s: %s%s" % (invert, ("a run the language does not have: %s; " % (extra[0],)) if extra else "", ("a run of the language that is missing: %s" % (missing[0],)) if missing else "")
        rep.ob("C04.R3", "loop-trace::INVERT=%s::%s" % (invert, fn.path), ok, why, fn.loc(),
               how="%d runs over %d rounds: condition before every round, body iff INVERT^truthy, Normal/Continuing go on (state Normal), Breaking leaves (state Normal), Returning leaves (state kept), errors end the loop" % (len(want), _kind.MAX_VISITS))
    rep.exhaustive["C04.R3 loop runs over two rounds x INVERT"] = True
