"""C10 — determinism: ORDER (nondeterminism sources must reach order-insensitive consumers) + TYPES."""
from ..core import op_place, op_local, callee_def
from ..flow import origins
from ..props import prop
from . import common
from .common import is_callee

HASH_ITER_PREFIXES = ("std::collections::hash_map::", "std::collections::hash_set::", "hashbrown::")
HASH_CONTAINERS = ("std::collections::HashMap", "std::collections::HashSet", "hashbrown::HashMap", "hashbrown::HashSet",
                   "std::collections::hash_map::HashMap", "std::collections::hash_set::HashSet")

# consumers whose result does not depend on the order of the elements
ORDER_INSENSITIVE = {
    "all", "any", "count", "len", "is_empty", "min", "max", "sorted", "sorted_unstable", "size_hint",
}
# consumers that are order-insensitive only when collecting into another hash container
COLLECTORS = {"collect", "from_iter", "extend"}

# reviewed: one site each (site key -> reason)
REVIEWED_ORDER = {
    "consumer::exec::val::Array::val_iter::sorted_unstable_by#0":
        "sorts the (key, value) pairs of ONE HashMap comparing the keys: keys of a map are pairwise distinct, so the comparison is a "
        "strict total order on the elements and the result does not depend on the input order",
}

# adaptors that select or pair elements by their position in the iteration
POSITIONAL_ADAPTORS = {"take", "skip", "step_by", "take_while", "skip_while", "map_while", "enumerate", "zip", "scan", "dedup", "dedup_by",
                       "dedup_by_key", "tuple_windows", "chunks", "peekable", "nth", "last", "first", "interleave", "batching"}

# sorting entry points
STABLE_SORTS = {"sort", "sort_by", "sort_by_key", "sort_by_cached_key", "sorted", "sorted_by", "sorted_by_key", "sorted_by_cached_key"}
UNSTABLE_WHOLE_ITEM = {"sort_unstable", "sorted_unstable"}
UNSTABLE_KEYED = {"sort_unstable_by", "sort_unstable_by_key", "sorted_unstable_by", "sorted_unstable_by_key",
                  "select_nth_unstable", "select_nth_unstable_by", "select_nth_unstable_by_key"}
REVIEWED_UNSTABLE = {
    "sort::exec::val::Array::val_iter::sorted_unstable_by":
        "compares the keys of one HashMap's entries: no two elements compare equal",
}

OTHER_SOURCES = (
    ("std::time::", "wall-clock / monotonic time"),
    ("std::thread::", "threads"),
    ("std::process::id", "process id"),
    ("std::collections::hash_map::RandomState", "random hasher state"),
    ("std::hash::RandomState", "random hasher state"),
    ("std::hash::random::", "random hasher state"),
    ("std::collections::hash_map::DefaultHasher", "explicit hasher"),
    ("std::hash::DefaultHasher", "explicit hasher"),
    ("rand::", "randomness"),
    ("getrandom::", "randomness"),
    ("fastrand::", "randomness"),
    ("std::ptr::const_ptr::<impl *const T>::addr", "address"),
    ("std::ptr::mut_ptr::<impl *mut T>::addr", "address"),
    ("std::ptr::const_ptr::<impl *const T>::expose_provenance", "address"),
    ("core::fmt::rt::Argument::<'_>::new_pointer", "address formatting {:p}"),
)
ENV_OK = ("std::env::args", "std::env::args_os")


def key_eq_hash_rule(ctx, rule):
    F, rep = ctx.F, ctx.rep
    eq = F.fn("<dyn exec::val::Key as std::cmp::PartialEq>::eq")
    hs = F.fn("<dyn exec::val::Key as std::hash::Hash>::hash")
    for name, fn, trait, want_keys in (("eq", eq, "std::cmp::PartialEq::eq", 2), ("hash", hs, "std::hash::Hash::hash", 1)):
        if fn is None:
            rep.fail(rule, "anchor::" + name, "impl %s for dyn Key not found" % name)
            continue
        rep.analysed(fn)
        keys = [bi for bi, t in fn.calls() if callee_def(t) == "exec::val::Key::to_key"]
        core = [(bi, t) for bi, t in fn.calls() if callee_def(t) == trait and "exec::val::DictKeyRef" in (t["callee"].get("inst") or "")]
        others = [callee_def(t) for bi, t in fn.calls() if bi not in keys and bi not in [b for b, _ in core]]
        switches = [bi for bi in range(len(fn.blocks)) if fn.term(bi)["k"] == "switch" and not fn.blocks[bi]["cleanup"]]
        ok, why = True, ""
        if len(keys) != want_keys or len(core) != 1:
            ok, why = False, "expected %d to_key() call(s) and one DictKeyRef %s, found %d / %d" % (want_keys, name, len(keys), len(core))
        elif core[0][1]["dest"]["l"] != 0 and name == "eq":
            ok, why = False, "the DictKeyRef comparison is not returned unchanged"
        elif switches or others:
            ok, why = False, "%s for dyn Key does more than compare / hash the two to_key() results (%s): it is no longer guaranteed that equal keys hash alike" % (name, others or "it branches")
        elif common.path_to_return_avoiding(fn, [core[0][0]], through_errors=True):
            ok, why = False, "a path avoids the DictKeyRef %s" % name
        rep.ob(rule, "dyn-key::%s-is-DictKeyRef-%s-of-to_key" % (name, name), ok, why, fn.loc(), how="to_key() %s to_key()" % ("==" if name == "eq" else "hashed"))
    for tr in ("std::cmp::PartialEq", "std::hash::Hash"):
        imps = [im for im in F.impls if im.get("trait") == tr and "DictKeyRef" in im.get("trait_ref", "") and im.get("trait_ref", "").startswith("<exec::val::DictKeyRef")]
        ok = len(imps) == 1 and bool(imps[0].get("derived"))
        rep.ob(rule, "DictKeyRef::%s-derived" % tr.rsplit("::", 1)[-1], ok, "" if ok else "%s for DictKeyRef is not the derived impl (found %d): equality and hash may disagree" % (tr, len(imps)), None, how="#[derive]")


def has_hash_iter(ty):
    for t in ty.walk():
        if t.kind() == "adt" and t.adt().startswith(HASH_ITER_PREFIXES) and not t.adt().endswith(("::HashMap", "::HashSet", "RandomState", "DefaultHasher", "Entry", "OccupiedEntry", "VacantEntry")):
            return True
    return False


def contains_hash_container(F, ty, seen=None):
    """TYPES: does the type closure (through fields of local ADTs and generic arguments) contain a hash container?"""
    seen = seen if seen is not None else set()
    for t in ty.walk():
        if t.i in seen:
            continue
        seen.add(t.i)
        if t.kind() == "adt":
            p = t.adt()
            if p in HASH_CONTAINERS:
                return True
            if p in F.adts:
                for v in F.adts[p]["variants"]:
                    for f in v["fields"]:
                        if contains_hash_container(F, F.ty(f["ty"]), seen):
                            return True
    return False


def scope_fns(F):
    for fn in F.all_bodies(tests=False, derived=True):
        yield fn


@prop("C10")
def c10(ctx):
    F, rep = ctx.F, ctx.rep
    rep.rule("C10.R1", "ORDER: every value whose type contains a hash-table iterator (std hash_map / hash_set iterators, also behind "
             "`impl Iterator`, revealed in MIR) may only be consumed by an order-insensitive consumer (all/any/count/min/max/len, a "
             "whole-item sort, collection into another hash container) or an adaptor whose result still carries the iterator type; "
             "anything else needs a one-site reviewed entry")
    rep.rule("C10.R2", "no other nondeterminism source in the library: time, threads, process id, random hasher state, randomness, "
             "addresses ({:p}, pointer->integer casts), environment other than args; observable {:?} output never formats a type whose "
             "closure contains a hash container")
    # state kept between two runs in one process is a nondeterminism source of its own: the same text, linted twice with one Linter,
    # must give the same report (rule shared with C19.R6)
    from .c19 import fresh_state
    fresh_state(ctx, "C10.R4")
    rep.rule("C10.R5", "the bytes read and written do not depend on how the streams deliver them: the I/O shape rules of C08 re-checked here -- "
             "one complete write (write_fmt / write_all, never a partial `write`) per say, one read_line per listen, and the fault table of "
             "Environment::{output,input} (C08.R1, R2, R7): a short write, an interrupted call or a line arriving in two chunks gives the "
             "same run as any other delivery of the same bytes")
    from . import c08 as _c08
    common.rerun_under(ctx, _c08.c08, "C10.R5", keep=lambda r: r in ("C08.R1", "C08.R2", "C08.R7"))
    rep.rule("C10.R6", "dictionary lookups do not depend on the hasher's seed: for the borrowed key type `dyn Key`, equality and hash are both "
             "functions of to_key() alone -- eq is exactly the (derived) DictKeyRef equality of the two to_key() results and hash exactly the "
             "(derived) DictKeyRef hash of to_key(), each returned unchanged on every path; an equality coarser than the hash finds an entry "
             "only when two different keys happen to land in the same bucket, which varies from run to run")
    key_eq_hash_rule(ctx, "C10.R6")
    rep.rule("C10.R3", "sorting: unstable sorts are accepted only on whole items (equal means identical); keyed unstable sorts need a "
             "reviewed entry; the lint report is sorted with the stable slice::sort_by_key")
    rep.trust("std and the dependencies are themselves deterministic; hash containers are order-insensitive when used by key only")
    n_carriers = 0
    n_consumers = 0
    used_reviews = set()
    for fn in scope_fns(F):
        has_any = False
        ordinal = {}
        for bi, t in fn.calls():
            rep.call_sites += 1
            c = t["callee"]
            if "indirect" in c:
                continue
            arg_carrier = False
            for a in t["args"]:
                pl = op_place(a)
                if pl is None:
                    continue
                ty = fn.local_ty(pl["l"])
                if has_hash_iter(ty):
                    arg_carrier = True
            dest_ty = fn.local_ty(t["dest"]["l"])
            dest_carrier = has_hash_iter(dest_ty)
            if dest_carrier and not arg_carrier:
                n_carriers += 1
                has_any = True
                top = common.top_fn(F, fn)
                rep.ob("C10.R1", "source::%s::%s" % (top.path, c["name"]), True, "", fn.loc(t["line"]), how="hash-order source; consumers checked by type")
            if not arg_carrier:
                continue
            has_any = True
            if dest_carrier:
                # adaptor: the result is checked at its own consumer -- unless the adaptor itself selects by position
                if c["name"] in POSITIONAL_ADAPTORS:
                    rep.fail("C10.R1", "positional::%s::%s" % (fn.path, c["name"]),
                             "%s applies %s to a hash-table iterator: which elements pass depends on the iteration order (the per-process hash seed), whatever is done with them afterwards" % (fn.path, c["def"]),
                             fn.loc(t["line"]))
                continue
            name = c["name"]
            top = common.top_fn(F, fn)
            n = ordinal.get(name, 0)
            ordinal[name] = n + 1
            key = "consumer::%s::%s#%d" % (fn.path, name, n)
            n_consumers += 1
            if name in ORDER_INSENSITIVE:
                rep.ob("C10.R1", key, True, "", fn.loc(t["line"]), how="order-insensitive consumer %s" % c["def"])
            elif name in UNSTABLE_KEYED and _keys_of_one_map(F, fn, t):
                rep.ob("C10.R1", key, True, "", fn.loc(t["line"]), how="sorted by the keys of the one map it came from: a strict total order, independent of the input order")
            elif name in ("next", "for_each", "collect", "extend", "from_iter") and _collected_then_sorted(F, fn, bi, t):
                rep.ob("C10.R1", key, True, "", fn.loc(t["line"]), how="the entries are collected into a vector that is sorted by their (pairwise distinct) keys before anything else reads it")
            elif name in COLLECTORS and any(tt.kind() == "adt" and tt.adt() in HASH_CONTAINERS for tt in dest_ty.walk()):
                rep.ob("C10.R1", key, True, "", fn.loc(t["line"]), how="collected into another hash container")
            elif name in ("drop", "drop_in_place"):
                rep.ob("C10.R1", key, True, "", fn.loc(t["line"]), how="dropped")
            elif key in REVIEWED_ORDER:
                used_reviews.add(key)
                rep.ob("C10.R1", key, True, "", fn.loc(t["line"]), how="reviewed: " + REVIEWED_ORDER[key])
            else:
                rep.fail("C10.R1", key, "%s consumes a hash-table iterator in iteration order (%s): the result depends on the per-process hash seed" % (
                    fn.path, c["def"]), fn.loc(t["line"]))
        if has_any:
            rep.analysed(fn)
        # returning a carrier is fine (callers see it by type); storing one into a field is not tracked: flag
        for bi, si, s in fn.assigns():
            if s["pl"]["p"] and "use" in s["rv"]:
                pl = op_place(s["rv"]["use"])
                if pl is not None and not pl["p"] and has_hash_iter(fn.local_ty(pl["l"])):
                    if any(isinstance(e, dict) and "f" in e and e.get("of") not in ("tuple", "closure", "other") for e in s["pl"]["p"]):
                        rep.fail("C10.R1", "stored::%s" % fn.path, "a hash-table iterator is stored into a data structure field; its consumers cannot be tracked", fn.loc(s["line"]))
    rep.floor("C10.R1", n_carriers, 1, "hash-iteration sources")
    rep.notes["hash_iteration_sources"] = n_carriers
    rep.notes["hash_iteration_consumers"] = n_consumers

    # hash containers in the data model (evidence) — used by key only is implied by R1 (no iterator is ever produced)
    holders = []
    for p, adt in sorted(F.adts.items()):
        for v in adt["variants"]:
            for f in v["fields"]:
                ty = F.ty(f["ty"])
                if any(t.kind() == "adt" and t.adt() in HASH_CONTAINERS for t in ty.walk()):
                    holders.append("%s.%s" % (p, f["name"]))
    rep.notes["hash_container_fields"] = holders

    # ---- R2 other sources
    n_checked = 0
    for fn in scope_fns(F):
        for bi, t in fn.calls():
            c = t["callee"]
            if "indirect" in c:
                continue
            d = c.get("resolved") or c["def"]
            n_checked += 1
            for prefix, what in OTHER_SOURCES:
                if d.startswith(prefix) or c["def"].startswith(prefix):
                    rep.fail("C10.R2", "source::%s::%s" % (common.top_fn(F, fn).path, c["name"]), "%s uses %s (%s): a nondeterminism source" % (fn.path, d, what), fn.loc(t["line"]))
            if (d.startswith("colored::") or c["def"].startswith("colored::")) and not fn.file.startswith("src/cli/"):
                rep.fail("C10.R2", "source::%s::%s" % (common.top_fn(F, fn).path, c["name"]),
                         "%s styles text with %s outside the command-line layer: whether escape codes are emitted depends on the terminal and on environment variables (NO_COLOR, CLICOLOR ...), so a library result is not a function of program and input" % (fn.path, d), fn.loc(t["line"]))
            if (d.startswith("std::env::") or c["def"].startswith("std::env::")) and not c["def"].startswith(ENV_OK):
                rep.fail("C10.R2", "source::%s::%s" % (common.top_fn(F, fn).path, c["name"]), "%s reads the process environment (%s)" % (fn.path, d), fn.loc(t["line"]))
            # observable Debug output
            if c["def"].endswith("Argument::<'_>::new_debug") or c["def"].endswith("Argument::<'_>::new_debug_noop"):
                if fn.is_derived():
                    continue
                targs = [F.ty(i) for i in c.get("targs", [])]
                bad = [x for x in targs if contains_hash_container(F, x)]
                key = "debug-format::%s" % common.top_fn(F, fn).path
                rep.ob("C10.R2", key, not bad, "" if not bad else "%s formats %s with {:?}; the type contains a hash container whose Debug output is in hash order" % (fn.path, bad[0].s),
                       fn.loc(t["line"]), how="formatted type has no hash container")
        for bi, si, s in fn.assigns():
            rv = s["rv"]
            if rv.get("cast") in ("PointerExposeProvenance", "PointerExposeAddress"):
                rep.fail("C10.R2", "ptr-to-int::%s" % common.top_fn(F, fn).path, "%s casts a pointer to an integer: addresses vary between runs" % fn.path, fn.loc(s["line"]))
    rep.ob("C10.R2", "scan", True, "", how="%d call sites scanned for time/thread/random/address/environment sources" % n_checked)

    # ---- R3 sorting
    n_sorts = 0
    for fn in scope_fns(F):
        for bi, t in fn.calls():
            c = t["callee"]
            if "indirect" in c:
                continue
            name = c["name"]
            d = c["def"]
            if not d.startswith(("core::slice::<impl [T]>::", "std::slice::<impl [T]>::", "itertools::Itertools::", "std::vec::Vec", "alloc::slice::<impl [T]>::")):
                continue
            if name in STABLE_SORTS:
                n_sorts += 1
                rep.ob("C10.R3", "sort::%s::%s" % (common.top_fn(F, fn).path, name), True, "", fn.loc(t["line"]), how="stable sort")
            elif name in UNSTABLE_WHOLE_ITEM:
                n_sorts += 1
                rep.ob("C10.R3", "sort::%s::%s" % (common.top_fn(F, fn).path, name), True, "", fn.loc(t["line"]), how="unstable sort of whole items: equal elements are indistinguishable")
            elif name in UNSTABLE_KEYED:
                n_sorts += 1
                key = "sort::%s::%s" % (common.top_fn(F, fn).path, name)
                if _keys_of_one_map(F, fn, t) or _sort_of_collected_map_entries(F, fn, bi):
                    rep.ob("C10.R3", key, True, "", fn.loc(t["line"]), how="automatic: the elements are the (key, value) entries of ONE hash map and the comparator compares the keys: no two elements compare equal")
                elif key in REVIEWED_UNSTABLE:
                    rep.ob("C10.R3", key, True, "", fn.loc(t["line"]), how="reviewed: " + REVIEWED_UNSTABLE[key])
                else:
                    rep.fail("C10.R3", key, "%s sorts with %s: elements with equal keys keep an unspecified (here: hash-dependent or input-dependent) order" % (fn.path, d), fn.loc(t["line"]))
    rep.floor("C10.R3", n_sorts, 1, "sort calls")
    pp = F.find_fn("linter::postprocess")
    if pp is None:
        rep.fail("C10.R3", "anchor::postprocess", "linter::postprocess not found")
    else:
        rep.analysed(pp)
        sorts = [(bi, t) for bi, t in pp.calls() if t["callee"].get("name", "").startswith(("sort", "sorted"))]
        ok = len(sorts) == 1 and sorts[0][1]["callee"]["name"] in STABLE_SORTS and common.sort_key_fields(F, pp, sorts[0][1]) == {"line"}
        rep.ob("C10.R3", "lint-report-stable-sort", ok, "" if ok else "the lint report is not sorted with a stable sort on the line alone (ties would not keep pass order)", pp.loc(), how="stable sort by line")



def _hash_iter_sources(F, fn, operand, depth=0):
    """hash-map iteration calls (iter / keys / values / into_iter / drain on a hash container) an operand derives from"""
    from .c03 import kind_deep
    out = set()
    for d, p in kind_deep(fn, operand):
        if d[0] == "call":
            t = fn.term(d[1])
            if t["callee"].get("name") in ("iter", "iter_mut", "into_iter", "keys", "values", "drain") and t["args"]:
                pl = op_place(t["args"][0])
                if pl is not None:
                    ty = fn.local_ty(pl["l"])
                    if any(tt.kind() == "adt" and tt.adt() in HASH_CONTAINERS for tt in ty.walk()):
                        out.add(d[1])
    return out


def _keys_of_one_map(F, fn, sort_term):
    """the sorted data are the entries of exactly one hash map (iter(): (key, value) pairs) and the comparator orders by field .0"""
    from ..core import place_fields
    from ..flow import rvalue_operands
    srcs = _hash_iter_sources(F, fn, sort_term["args"][0])
    if len(srcs) != 1 or fn.term(next(iter(srcs)))["callee"].get("name") not in ("iter", "iter_mut", "into_iter", "drain"):
        return False
    if len(sort_term["args"]) < 2:
        return False
    l = op_local(sort_term["args"][1])
    cf = None
    if l is not None:
        ty = fn.local_ty(l).peel_refs()
        if ty.kind() == "closure":
            cf = F.fn(ty.d["closure"])
    if cf is None:
        return False
    idx = set()
    for body in F.with_closures(cf):
        for bi, t in body.calls():
            if t["callee"].get("name") in ("cmp", "partial_cmp"):
                for a in t["args"][:2]:
                    for d, p in origins(body, a):
                        if d[0] == "param" and d[1] >= 2:
                            idx.add(tuple(str(x) for x in p[:1]))
            elif t["callee"].get("name") not in ("deref", "borrow", "as_ref", "clone"):
                return False
    return idx == {("0",)}


def _collected_then_sorted(F, fn, bi, t):
    """items drawn from ONE hash map in a loop / by collect end up in a Vec that is sorted by key before any other use"""
    from ..flow import Labels
    srcs = _hash_iter_sources(F, fn, t["args"][0])
    if len(srcs) != 1:
        return False
    lab = Labels(F, fn, {(fn.path, t["dest"]["l"]): {"entry"}}, through_mut=True)
    vecs = [i for i in range(len(fn.locals)) if fn.local_ty(i).kind() == "adt" and (fn.local_ty(i).adt() or "").endswith(("::Vec", "::SmallVec", "::VecDeque")) and "entry" in lab.lab.get((fn.path, i), set())]
    if not vecs:
        return False
    # a vector that is only a moved copy of another labelled vector is the same vector later on
    def moved_from(i):
        ds = fn.defs().get(i, [])
        return len(ds) == 1 and ds[0][0] == "stmt" and "use" in ds[0][3]["rv"] and op_place(ds[0][3]["rv"]["use"]) is not None and op_place(ds[0][3]["rv"]["use"])["l"] in vecs
    aliases = [i for i in vecs if moved_from(i)]
    vecs = [i for i in vecs if i not in aliases]
    if not vecs:
        return False
    for v in vecs:
        def refs_v(o, depth=0):
            pl = op_place(o)
            if pl is None or depth > 5:
                return False
            if pl["l"] == v or pl["l"] in aliases:
                return True
            for d in fn.defs().get(pl["l"], []):
                if d[0] == "stmt" and "ref" in d[3]["rv"] and (d[3]["rv"]["ref"]["l"] == v or refs_v({"copy": d[3]["rv"]["ref"]}, depth + 1)):
                    return True
                if d[0] == "stmt" and "use" in d[3]["rv"] and refs_v(d[3]["rv"]["use"], depth + 1):
                    return True
                if d[0] == "call" and d[2]["callee"].get("name") in ("deref", "deref_mut", "as_mut_slice", "as_slice", "as_mut", "as_ref", "borrow_mut", "borrow") and d[2]["args"] and refs_v(d[2]["args"][0], depth + 1):
                    return True
            return False
        sorts = [(b2, t2) for b2, t2 in fn.calls() if t2["callee"].get("name") in UNSTABLE_KEYED | STABLE_SORTS | UNSTABLE_WHOLE_ITEM and t2["args"] and refs_v(t2["args"][0])]
        if not sorts:
            return False
        sb, stt = sorts[0]
        # comparator on the keys (field .0)
        l = op_local(stt["args"][1]) if len(stt["args"]) > 1 else None
        cf = None
        if l is not None:
            ty = fn.local_ty(l).peel_refs()
            if ty.kind() == "closure":
                cf = F.fn(ty.d["closure"])
        if cf is None:
            return False
        idx = set()
        for body in F.with_closures(cf):
            for b3, t3 in body.calls():
                if t3["callee"].get("name") in ("cmp", "partial_cmp"):
                    for a in t3["args"][:2]:
                        for d, p in origins(body, a):
                            if d[0] == "param" and d[1] >= 2:
                                idx.add(tuple(str(x) for x in p[:1]))
        if idx != {("0",)}:
            return False
        # every other reader of the vector comes after the sort
        for b2, t2 in fn.calls():
            if b2 == sb or not any(refs_v(a) for a in t2["args"]):
                continue
            if t2["callee"].get("name") in ("push", "push_back", "extend", "with_capacity", "new", "reserve", "drop", "deref", "deref_mut", "len", "capacity", "is_empty", "as_mut_slice"):
                continue
            if not fn.dominates(sb, b2):
                return False
        return sb
    return False


def _sort_of_collected_map_entries(F, fn, sort_bb):
    """is this sort the one that orders a vector filled from ONE hash map's entries by their keys?"""
    for bi, t in fn.calls():
        if t["callee"].get("name") in ("next", "collect", "extend", "from_iter", "for_each") and t["args"] and _hash_iter_sources(F, fn, t["args"][0]):
            r = _collected_then_sorted(F, fn, bi, t)
            if r is not False and r == sort_bb:
                return True
    return False
