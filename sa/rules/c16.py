"""C16 — visitors see every node exactly once (COVER) and the runner bridge forwards everything."""
from ..core import op_place, op_local, callee_def, callee_name
from ..flow import Labels, fieldpath, origins
from ..props import prop
from . import common

VE = "analysis::visit::VisitExpr"
VP = "analysis::visit::VisitProgram"
AST = "frontend::ast::"
WITHRANGE = "frontend::ast::WithRange"
TRANSPARENT = (
    "std::boxed::Box", "std::vec::Vec", "std::option::Option", "std::sync::Arc", "std::rc::Rc",
    WITHRANGE, "frontend::ast::WithLoc",
)


def node_of(ty):
    """(ADT path of the node a visit method is about, label prefix) or (None, ())"""
    t = ty.peel_refs()
    prefix = ()
    guard = 0
    while t.kind() == "adt" and t.adt() == WITHRANGE and guard < 4:
        guard += 1
        prefix = prefix + ((WITHRANGE, "0"),)
        t = t.args()[0].peel_refs()
    if t.kind() == "adt" and t.adt().startswith(AST):
        return t.adt(), prefix
    return None, ()


def trait_methods(F, trait):
    return F.traits[trait]["methods"]


def visitable_set(F, traits):
    out = set()
    for tr in traits:
        for m in trait_methods(F, tr):
            fn = F.fn(m["def"])
            if fn is None or fn.argc < 2:
                continue
            n, _ = node_of(fn.local_ty(2))
            if n:
                out.add(n)
    return out


def contains_visitable(F, ty, vis, seen=None, helpers_exclude=None):
    """helpers_exclude: ADTs that are visitable under *some* trait: they are nodes, not helpers, and are not looked
    into when they are not visitable for the trait at hand"""
    seen = seen if seen is not None else set()
    helpers_exclude = helpers_exclude if helpers_exclude is not None else ALL_NODES.get(id(F), set())
    t = ty.peel_refs()
    if t.i in seen:
        return False
    seen.add(t.i)
    k = t.kind()
    if k == "adt":
        p = t.adt()
        if p in vis:
            return True
        if p in TRANSPARENT:
            return any(contains_visitable(F, a, vis, seen) for a in t.args())
        if p.startswith(AST) and p in F.adts and p not in helpers_exclude:
            # a non-visitable helper ADT of the syntax tree (e.g. InputDest): look inside
            for v in F.adts[p]["variants"]:
                for f in v["fields"]:
                    if contains_visitable(F, F.ty(f["ty"]), vis, seen):
                        return True
        return False
    if k in ("tuple", "slice", "array"):
        return any(contains_visitable(F, c, vis, seen) for c in t.components())
    return False


ALL_NODES = {}


def expected_children(F, node, prefix, vis):
    adt = F.adts[node]
    out = []
    for v in adt["variants"]:
        for f in v["fields"]:
            if contains_visitable(F, F.ty(f["ty"]), vis):
                lab = ("%s.%s" % (v["name"], f["name"])) if adt["kind"] == "enum" else f["name"]
                out.append(prefix + ((node, lab),))
    return out


def is_ast_adt(of):
    return isinstance(of, str) and of.startswith(AST)


def extend_label(label, pl):
    return label + fieldpath(pl, is_ast_adt, owners=True)


def lstr(L):
    return "/".join(x[1] for x in L)


def compat(a, b):
    n = min(len(a), len(b))
    return a[:n] == b[:n]


def covers(l, L, vis):
    """does a value labelled l present the child L to a visit method?  l may stop at L or continue below it
    only through helper ADTs that are not themselves visitable (WithRange, InputDest): going *into* a visitable
    child bypasses that child's own visit method and presents only a part of it."""
    if len(l) < len(L) or l[:len(L)] != L:
        return False
    return all(owner not in vis for owner, _ in l[len(L):])


def is_visit_call(t):
    c = t["callee"]
    if "indirect" in c:
        return False
    tr = c.get("trait") or c.get("impl_trait")
    return tr in (VE, VP) and c.get("name", "").startswith("visit_")


def pruned_reaches_return_avoiding(fn, lab, label, site_bb):
    """True iff some path entry -> normal return avoids `site_bb`, after removing error exits and, at
    switches on the discriminant of a place the label goes through, the arms of other variants."""
    removed_edges = set()
    blocked = set()
    for bi, b in enumerate(fn.blocks):
        t = b["term"]
        if t["k"] == "call" and (callee_def(t) or "").endswith("FromResidual<std::result::Result<std::convert::Infallible, E>>>::from_residual"):
            blocked.add(bi)
        if t["k"] == "call" and "from_residual" in (callee_def(t) or ""):
            blocked.add(bi)
        if t["k"] == "switch":
            # find the discriminant read feeding this switch
            ol = op_local(t["on"])
            if ol is None:
                continue
            for d in fn.defs().get(ol, []):
                if d[0] != "stmt" or "discr" not in d[3]["rv"]:
                    continue
                pl = d[3]["rv"]["discr"]
                for l in lab.place_labels(fn, pl):
                    if not compat(l, label) or len(l) > len(label):
                        continue
                    ty = fn.facts.ty(d[3]["rv"]["of"]).peel_refs()
                    adt = ty.adt()
                    keep = None
                    if len(l) < len(label) and adt in fn.facts.adts:
                        want = label[len(l)][1].split(".")[0]
                        for v in fn.facts.adts[adt]["variants"]:
                            if v["name"] == want:
                                keep = v["discr"]
                    elif adt == "std::option::Option":
                        keep = "1"
                    if keep is not None:
                        for val, tgt in t["targets"]:
                            if val != keep:
                                removed_edges.add((bi, tgt))
                        if not any(val == keep for val, _ in t["targets"]):
                            pass
                        else:
                            removed_edges.add((bi, t["otherwise"]))
    rets = set(fn.return_blocks())
    seen = set()
    st = [0]
    while st:
        b = st.pop()
        if b in seen or b in blocked or b == site_bb:
            continue
        seen.add(b)
        if b in rets:
            return True
        for s in fn.succs()[b]:
            if (b, s) not in removed_edges:
                st.append(s)
    return False


DROPPING = ("split_last", "split_first", "split_at", "skip", "take", "filter", "filter_map", "step_by", "skip_while", "take_while", "map_while",
            "first", "last", "nth", "get", "truncate", "pop", "drain", "dedup", "retain", "chunks", "windows", "find", "position")


def cover_method(ctx, rule, fn, vis, who):
    """COVER check of one traversal method; returns number of expected children"""
    F = ctx.F
    rep = ctx.rep
    if fn.argc < 2:
        return 0
    node, prefix = node_of(fn.local_ty(2))
    if node is None or node not in F.adts:
        return 0
    rep.analysed(fn)
    exp = expected_children(F, node, prefix, vis)
    lab = Labels(F, fn, {(fn.path, 2): {()}}, extend=extend_label)
    bodies = F.with_closures(fn)
    sites = []  # (body, bb, labels of argument 1)
    for body in bodies:
        for bi, t in body.calls():
            rep.call_sites += 1
            if is_visit_call(t) and len(t["args"]) >= 2:
                sites.append((body, bi, lab.op_labels(body, t["args"][1]), t))
    # delegation: the whole node is handed to another visit method about the same node
    whole = [(b, bi, t) for b, bi, ls, t in sites if prefix in ls or () in ls]
    if whole and exp:
        key = "%s::%s::<whole node>" % (who, fn.name)
        ok = len(whole) == 1 and callee_def(whole[0][2]) != fn.path
        b_, bi_, t_ = whole[0]
        why = "" if ok else "the node is delegated %d times" % len(whole)
        if ok and pruned_reaches_return_avoiding(b_, lab, prefix, bi_):
            ok, why = False, "a non-error path skips the delegation to %s" % callee_def(t_)
        rep.ob(rule, key, ok, why, b_.loc(t_["line"]), how="node delegated as a whole to %s" % callee_def(t_))
        return len(exp)
    for L in exp:
        key = "%s::%s::%s" % (who, fn.name, lstr(L))
        hits = [(b, bi, t) for b, bi, ls, t in sites if any(covers(l, L, vis) for l in ls)]
        partial = [(b, bi, t) for b, bi, ls, t in sites if any(compat(l, L) and len(l) > len(L) for l in ls)]
        if len(hits) == 0 and partial:
            b_, bi_, t_ = partial[0]
            rep.fail(rule, key, "child `%s` of %s is only visited in part: %s is handed a component of it, bypassing the "
                     "child's own visit method" % (lstr(L), node, callee_def(t_)), b_.loc(t_["line"]))
            continue
        if len(hits) == 0:
            rep.fail(rule, key, "child `%s` of %s is never passed to a visit method in %s" % (lstr(L), node, fn.path), fn.loc())
            continue
        if len(hits) > 1:
            rep.fail(rule, key, "child `%s` of %s reaches %d visit call sites in %s (visited more than once)" % (
                lstr(L), node, len(hits), fn.path), fn.loc(hits[1][2]["line"]))
            continue
        body, bi, t = hits[0]
        # a list-typed child is visited element by element: nothing on the way may drop elements
        droppers = [(b, bi2, t2) for b in bodies for bi2, t2 in b.calls()
                    if t2["callee"].get("name") in DROPPING and "indirect" not in t2["callee"] and t2["args"]
                    and any(compat(l, L) for l in lab.op_labels(b, t2["args"][0]))]
        if droppers:
            b_, bi_, t_ = droppers[0]
            rep.fail(rule, key, "child `%s` of %s is only visited in part: %s is applied to it before its elements are visited, so some elements are never shown to the visitor" % (
                lstr(L), node, t_["callee"].get("name")), b_.loc(t_["line"]))
            continue
        # the visit must happen on every non-error path (within the variant's arm)
        ok = True
        why = ""
        if pruned_reaches_return_avoiding(body, lab, L, bi):
            ok = False
            why = "a non-error path through %s skips the visit of child `%s`" % (body.path, lstr(L))
        # the call must not sit in a CFG cycle (that would visit it repeatedly)
        for scc in body.sccs():
            if bi in scc:
                from .evalonce import _drawn_from_iterator
                if len(t["args"]) > 1 and _drawn_from_iterator(body, t["args"][1]):
                    continue   # one element of a sequence child per round
                ok = False
                why = "the visit of child `%s` sits in a loop of %s" % (lstr(L), body.path)
        cur = body
        while ok and cur.kind == "closure":
            parent = F.fn(cur.d["parent"])
            use_bb = None
            for pb, s in ((pb, s) for pb, blk in enumerate(parent.blocks) for s in blk["stmts"]):
                if s["k"] == "assign" and isinstance(s["rv"].get("agg"), dict) and s["rv"]["agg"].get("closure") == cur.path:
                    cl_local = s["pl"]["l"]
                    # the call the closure is handed to
                    for cb, ct in parent.calls():
                        if any(op_local(a) == cl_local for a in ct["args"]):
                            use_bb = cb
                    if use_bb is None:
                        use_bb = pb
            if use_bb is None:
                ok = False
                why = "closure %s holding the visit of `%s` is never used" % (cur.path, lstr(L))
                break
            if pruned_reaches_return_avoiding(parent, lab, L, use_bb):
                ok = False
                why = "a non-error path through %s skips the combinator that visits child `%s`" % (parent.path, lstr(L))
            cur = parent
        rep.ob(rule, key, ok, why, body.loc(t["line"]), how="one unconditional visit call: %s" % (callee_def(t)))
    return len(exp)


LAZY = ("map", "chain", "filter", "filter_map", "flat_map", "zip", "rev", "enumerate", "skip", "take", "cloned",
        "copied", "once", "iter", "into_iter", "peekable", "inspect")


def contains_visit(F, fn):
    for body in F.with_closures(fn):
        for bi, t in body.calls():
            if is_visit_call(t):
                return True
    return False


def flows_into(fn, src_bb, operand, depth=0, seen=None):
    """does the result of the call at src_bb flow (through moves and through other calls' arguments) into operand?"""
    seen = seen if seen is not None else set()
    for d, _ in origins(fn, operand):
        if d[0] == "call":
            if d[1] == src_bb:
                return True
            if d[1] in seen or depth > 12:
                continue
            seen.add(d[1])
            for a in fn.term(d[1])["args"]:
                if flows_into(fn, src_bb, a, depth + 1, seen):
                    return True
        elif d[0] == "agg":
            st = fn.stmts(d[1])[d[2]]
            for o in st["rv"]["ops"]:
                if flows_into(fn, src_bb, o, depth + 1, seen):
                    return True
    return False


def first_error_stops(ctx, rule, fn, who):
    """R5: between two visit events of one body the earlier result is checked with `?` (or handed to the later,
    short-circuiting, combinator)"""
    F = ctx.F
    rep = ctx.rep
    n = 0
    for body in F.with_closures(fn):
        events = []
        for bi, t in body.calls():
            c = t["callee"]
            if "indirect" in c:
                continue
            if is_visit_call(t):
                events.append((bi, t))
                continue
            d = c["def"]
            if d == "analysis::visit::combine_all":
                events.append((bi, t))
                continue
            if c.get("name") in LAZY and d.startswith(("std::iter::", "core::slice::", "std::vec::")):
                continue
            # eager call receiving a closure that visits
            for a in t["args"]:
                l = op_local(a)
                if l is None:
                    continue
                ty = body.local_ty(l).peel_refs()
                if ty.kind() == "closure":
                    cf = F.fn(ty.d["closure"])
                    if cf is not None and contains_visit(F, cf):
                        events.append((bi, t))
                        break
        for ai, at in events:
            checked = set()
            for bi, t in body.calls():
                if (callee_def(t) or "") == "std::ops::Try::branch" and t["args"]:
                    if any(d[0] == "call" and d[1] == ai for d, _ in origins(body, t["args"][0])):
                        checked.add(bi)
            # result returned directly?
            returned = at["dest"]["l"] == 0
            region = body.reachable_from_succs(ai, avoid=checked)
            for bi2, bt in events:
                if bi2 == ai and ai not in region:
                    continue
                if bi2 in region:
                    n += 1
                    key = "%s::%s::%s->%s" % (who, body.path.rsplit("::", 2)[-2] + "::" + body.path.rsplit("::", 1)[-1] if body.kind == "closure" else body.name,
                                              at["callee"].get("name"), bt["callee"].get("name"))
                    ok = any(flows_into(body, ai, a) for a in bt["args"])
                    rep.ob(rule, key + "#%d" % bi2 if False else key, ok,
                           "" if ok else "after %s (line %s) the walk can reach %s (line %s) without the first result having been "
                           "checked: an error returned by the first callback would not end the walk" % (
                               callee_def(at), at["line"], callee_def(bt), bt["line"]),
                           body.loc(bt["line"]), how="earlier result feeds the short-circuiting combinator")
            if not returned and not checked:
                # result neither checked nor returned: fine only if it flows into a later event (handled above) or the return value
                pass
    return n


def order_method(ctx, rule, fn, vis, who):
    """children are visited in field order: for two children of one variant, the visit of the later field never precedes
    (can never be followed by) the visit of the earlier one"""
    F, rep = ctx.F, ctx.rep
    if fn.argc < 2:
        return 0
    node, prefix = node_of(fn.local_ty(2))
    if node is None or node not in F.adts:
        return 0
    exp = expected_children(F, node, prefix, vis)
    if len(exp) < 2:
        return 0
    lab = Labels(F, fn, {(fn.path, 2): {()}}, extend=extend_label)
    from ..guards import _closure_use
    sites = {}

    def anchor_of(body, bi):
        """blocks of fn at which the site executes"""
        if body.path == fn.path:
            return {bi}
        use = _closure_use(F, body)
        if use is None:
            return set()
        parent, cb, ct = use
        nm = ct["callee"].get("name")
        out = set()
        if nm in LAZY and "indirect" not in ct["callee"]:
            # evaluated where the lazy iterator is consumed
            frontier, seen = [cb], set()
            while frontier:
                src = frontier.pop()
                if src in seen:
                    continue
                seen.add(src)
                for b2, t2 in parent.calls():
                    if b2 != src and any(d[0] == "call" and d[1] == src for a in t2["args"] for d, _ in origins(parent, a)):
                        if t2["callee"].get("name") in LAZY:
                            frontier.append(b2)
                        else:
                            out |= anchor_of(parent, b2)
            return out
        return anchor_of(parent, cb)
    for body in F.with_closures(fn):
        for bi, t in body.calls():
            if is_visit_call(t) and len(t["args"]) >= 2:
                ls = lab.op_labels(body, t["args"][1])
                for L in exp:
                    if any(covers(l, L, vis) for l in ls):
                        sites.setdefault(L, set()).update(anchor_of(body, bi))
    n = 0
    for i, L1 in enumerate(exp):
        for L2 in exp[i + 1:]:
            v1 = L1[-1][1].split(".")[0] if "." in L1[-1][1] else None
            v2 = L2[-1][1].split(".")[0] if "." in L2[-1][1] else None
            if v1 != v2 or L1 not in sites or L2 not in sites:
                continue
            n += 1
            bad = None
            for a in sites[L1]:
                for b in sites[L2]:
                    if a != b and a in fn.reachable(b) and b not in fn.reachable(a):
                        bad = (a, b)
                    elif a != b and a in fn.reachable(b) and b in fn.reachable(a):
                        bad = None  # both in one loop: not decided here
            ok = bad is None
            rep.ob(rule, "%s::%s::%s<%s" % (who, fn.name, lstr(L1), lstr(L2)), ok,
                   "" if ok else "in %s child `%s` is visited after child `%s`, although it is declared before it: callbacks are presented out of field order" % (fn.path, lstr(L1), lstr(L2)),
                   fn.loc(fn.term(bad[0])["line"]) if bad else fn.loc(), how="visited in declaration order")
    return n


def kind_deep_(fn, operand):
    from .c03 import kind_deep
    return kind_deep(fn, operand)


SHORT_CIRCUIT = ("try_fold", "try_for_each", "try_rfold", "try_collect")


def lazy_consumers(ctx, rule, fn, who):
    F, rep = ctx.F, ctx.rep
    n = 0
    for body in F.with_closures(fn):
        for bi, t in body.calls():
            c = t["callee"]
            if "indirect" in c or c.get("name") not in LAZY or not t["args"]:
                continue
            holds = False
            for a in t["args"][1:]:
                l = op_local(a)
                if l is None:
                    continue
                ty = body.local_ty(l).peel_refs()
                if ty.kind() == "closure":
                    cf = F.fn(ty.d["closure"])
                    if cf is not None and contains_visit(F, cf):
                        holds = True
            if not holds:
                continue
            n += 1
            # consumers: calls that receive the iterator (through further lazy adaptors)
            frontier = [bi]
            seen = set()
            consumers = []
            while frontier:
                src = frontier.pop()
                if src in seen:
                    continue
                seen.add(src)
                for b2, t2 in body.calls():
                    if b2 == src or not t2["args"]:
                        continue
                    if not any(d[0] == "call" and d[1] == src for a in t2["args"] for d, _ in origins(body, a)):
                        continue
                    c2 = t2["callee"]
                    nm = c2.get("name")
                    if nm in LAZY and "indirect" not in c2 and (c2.get("def") or "").startswith(("std::iter::", "core::iter::")):
                        frontier.append(b2)
                    elif nm in ("drop", "drop_in_place"):
                        continue
                    else:
                        consumers.append((b2, t2))
            key = "%s::%s::%s@%s" % (who, fn.name, c.get("name"), body.path.rsplit("::", 1)[-1] if body.kind == "closure" else "body")
            if body.term(bi)["dest"]["l"] == 0 and not consumers:
                # the lazy iterator itself is returned: its consumer is the caller's business
                rep.ob(rule, key, True, "", body.loc(t["line"]), how="returned to the caller")
                continue
            bad = None
            for b2, t2 in consumers:
                c2 = t2["callee"]
                nm = c2.get("name")
                d2 = c2.get("def") or ""
                if d2 == "analysis::visit::combine_all" or nm in SHORT_CIRCUIT:
                    continue
                if nm == "collect" and body.local_ty(t2["dest"]["l"]).s.startswith(("std::result::Result<", "std::option::Option<")):
                    continue
                bad = (b2, t2)
                break
            ok = bad is None and bool(consumers)
            why = ""
            if bad is not None:
                why = "the visits mapped lazily at line %s are consumed by %s (line %s), which drains the iterator: after the first error the remaining children are still visited" % (
                    t["line"], bad[1]["callee"].get("def"), bad[1]["line"])
            elif not consumers:
                why = "the lazily mapped visits at line %s are never consumed" % t["line"]
            rep.ob(rule, key, ok, why, body.loc(t["line"]), how="consumed by %s" % sorted({x[1]["callee"].get("name") for x in consumers}))
    return n


@prop("C16")
def c16(ctx):
    F = ctx.F
    rep = ctx.rep
    rep.rule("C16.R1", "COVER: for every traversal method (VisitExpr defaults; the VisitProgram method table of "
             "ExprVisitorRunner; the base VisitProgram defaults) each visitable child of the node type - derived from "
             "the ADT definitions of the tree being analysed - flows into exactly one visit_* call that is executed on "
             "every non-error path (within its variant's arm) and is not in a loop")
    rep.rule("C16.R2", "bridge: impl VisitExpr for ExprVisitorRunner overrides every trait method; each body is one call "
             "of the same-named method on self.inner with the same argument, returned unchanged")
    rep.rule("C16.R4", "combine_all folds with try_fold from Default::default(), accumulator on the left of combine; "
             "no error is dropped, defaulted or rewritten in analysis/visit.rs (ERRFLOW)")
    rep.trust("rustc MIR construction and callee resolution; the fact extractor; label propagation is flow-insensitive "
              "and treats every call result as derived from all its arguments")
    if VE not in F.traits or VP not in F.traits:
        rep.fail("C16.R1", "anchor", "traits VisitExpr / VisitProgram not found")
        return
    n_children = 0
    n_methods = 0
    ALL_NODES[id(F)] = visitable_set(F, [VE, VP])
    # (a) VisitExpr defaults
    vis_e = visitable_set(F, [VE])
    for m in trait_methods(F, VE):
        if m["has_default"]:
            fn = F.fn(m["def"])
            if fn:
                n_methods += 1
                n_children += cover_method(ctx, "C16.R1", fn, vis_e, "VisitExpr-default")
    # (c) base VisitProgram defaults
    vis_p = visitable_set(F, [VP])
    for m in trait_methods(F, VP):
        if m["has_default"]:
            fn = F.fn(m["def"])
            if fn:
                n_methods += 1
                n_children += cover_method(ctx, "C16.R1", fn, vis_p, "VisitProgram-default")
    # (b) method table of the runner
    vis_both = vis_e | vis_p
    runner_impl = None
    bridge_impl = None
    for imp in F.impls:
        st = F.ty(imp["self_ty"])
        if st.kind() == "adt" and st.adt() == "analysis::visit::ExprVisitorRunner":
            if imp.get("trait") == VP:
                runner_impl = imp
            if imp.get("trait") == VE:
                bridge_impl = imp
    if runner_impl is None or bridge_impl is None:
        rep.fail("C16.R1", "anchor", "impl VisitProgram / VisitExpr for ExprVisitorRunner not found")
        return
    overridden = {m["name"]: m["def"] for m in runner_impl["methods"]}
    for m in trait_methods(F, VP):
        d = overridden.get(m["name"], m["def"])
        fn = F.fn(d)
        if fn:
            n_methods += 1
            n_children += cover_method(ctx, "C16.R1", fn, vis_both, "runner")
    rep.floor("C16.R1", n_children, 75, "visitable children")
    # ---- R5 first error ends the walk
    rep.rule("C16.R5", "stop at first error: in every traversal method, on every path from one visit event (visit_* call, "
             "eager combinator holding a visiting closure, combine_all) to the next, the earlier result has gone through `?` "
             "(Try::branch) or is an input of the later short-circuiting combinator")
    seen_fns = set()
    n5 = 0
    for m in trait_methods(F, VE):
        if m["has_default"] and F.fn(m["def"]):
            n5 += first_error_stops(ctx, "C16.R5", F.fn(m["def"]), "VisitExpr-default")
    for m in trait_methods(F, VP):
        if m["has_default"] and F.fn(m["def"]):
            n5 += first_error_stops(ctx, "C16.R5", F.fn(m["def"]), "VisitProgram-default")
        d = overridden.get(m["name"])
        if d and F.fn(d):
            n5 += first_error_stops(ctx, "C16.R5", F.fn(d), "runner")
    rep.notes["C16.R5.pairs"] = n5
    rep.notes["C16.R1.methods"] = n_methods
    # lazily mapped visits must be drained by a short-circuiting consumer
    rep.rule("C16.R6", "a lazy iterator whose closure visits (children.iter().map(|c| self.visit_x(c))) is consumed only by a short-circuiting "
             "consumer -- combine_all (try_fold, decided by R3), try_fold, try_for_each, or collect into a Result --: fold, for_each, "
             "count, last, collect into a Vec ... drain it, so the callbacks after the first error still run")
    n6 = 0
    todo = []
    for m in trait_methods(F, VE):
        if m["has_default"] and F.fn(m["def"]):
            todo.append((F.fn(m["def"]), "VisitExpr-default"))
    for m in trait_methods(F, VP):
        if m["has_default"] and F.fn(m["def"]):
            todo.append((F.fn(m["def"]), "VisitProgram-default"))
        d = overridden.get(m["name"])
        if d and F.fn(d):
            todo.append((F.fn(d), "runner"))
    for fn, who in todo:
        n6 += lazy_consumers(ctx, "C16.R6", fn, who)
    rep.floor("C16.R6", n6, 3, "lazily mapped visits")
    rep.rule("C16.R8", "projection helpers are total: a helper of the syntax tree (InputDest::opt, WithRange::as_ref, ExpressionList::iter ..) through "
             "which a traversal method reaches a child decides only on its own variant, never on the shape of the child it hands on -- "
             "table computed by KIND; a helper that returns the child for some shapes only hides the others from every visitor")
    n8 = 0
    helpers = {}
    for fn, who in todo:
        lab8 = Labels(F, fn, {(fn.path, 2): {()}}, extend=extend_label)
        for body in F.with_closures(fn):
            for bi, t in body.calls():
                c = t["callee"]
                if "indirect" in c or is_visit_call(t):
                    continue
                h = F.fn(c.get("resolved") or c.get("def") or "")
                if h is None or not h.mir or h.is_derived() or h.kind == "closure" or not h.file.endswith("frontend/ast.rs"):
                    continue
                if t["args"] and lab8.op_labels(body, t["args"][0]):
                    helpers.setdefault(h.path, (h, fn))
    from .. import kind as _kind
    for hp, (h, user) in sorted(helpers.items()):
        n8 += 1
        rep.analysed(h)
        I8 = _kind.Interp(F)
        args8 = [("sym", "self")] + [("sym", "a%d" % i) for i in range(2, h.argc + 1)]
        deep = set()
        try:
            outs8 = I8.run(h, args8)
        except Exception as e:  # noqa: BLE001
            outs8 = []
            deep.add("analysis error %r" % (e,))
        for o in outs8:
            for c_ in o.conds:
                if isinstance(c_[0], tuple) and c_[0] and c_[0][0] == "is" and c_[0][1] == ("sym", "self"):
                    continue
                deep.add(str(c_[0])[:90])
        ok = not deep and bool(outs8)
        rep.ob("C16.R8", "projection-total::" + hp, ok, "" if ok else "%s (used by %s) decides on %s: it hands the child on only for some shapes of it" % (hp, user.path, sorted(deep)[:2]), h.loc(),
               how="decides on its own variant only (%d outcomes)" % len(outs8))
    rep.floor("C16.R8", n8, 1, "projection helpers used by the traversal")
    rep.rule("C16.R7", "children in field order: for two visitable children of one node (same variant), the call site that visits the field "
             "declared later is never followed by the one that visits the field declared earlier (closures are placed where they "
             "run: eager combinators at their call, lazily mapped closures at the consumer of the iterator)")
    n7 = 0
    for fn, who in todo:
        n7 += order_method(ctx, "C16.R7", fn, vis_both if who == "runner" else (vis_e if who == "VisitExpr-default" else vis_p), who)
    rep.floor("C16.R7", n7, 1, "ordered child pairs")

    # ---- R2 bridge
    bridged = {m["name"]: m["def"] for m in bridge_impl["methods"]}
    n = 0
    for m in trait_methods(F, VE):
        key = "bridge::" + m["name"]
        d = bridged.get(m["name"])
        if d is None:
            rep.fail("C16.R2", key, "ExprVisitorRunner does not forward VisitExpr::%s to the inner visitor (the trait default "
                     "would run on the runner instead)" % m["name"])
            continue
        fn = F.fn(d)
        rep.analysed(fn)
        calls = list(fn.calls())
        ok = len(calls) == 1
        why = "" if ok else "expected exactly one call, found %d" % len(calls)
        if ok:
            bi, t = calls[0]
            c = t["callee"]
            if not (c.get("trait") == VE and c.get("name") == m["name"]):
                ok, why = False, "forwards to %s instead of VisitExpr::%s" % (callee_def(t), m["name"])
            else:
                recv = origins(fn, t["args"][0])
                if not any(d_[0] == "param" and d_[1] == 1 and p == ("inner",) for d_, p in recv):
                    ok, why = False, "receiver is not self.inner"
                for ai in range(1, len(t["args"])):
                    src = origins(fn, t["args"][ai])
                    if not any(d_[0] == "param" and d_[1] == ai + 1 and p == () for d_, p in src):
                        ok, why = False, "argument %d is not passed through unchanged" % ai
                if t["dest"]["l"] != 0 or t["dest"]["p"]:
                    ok, why = False, "the inner result is not returned unchanged"
        n += 1
        rep.ob("C16.R2", key, ok, why, fn.loc(), how="single forwarding call")
    rep.floor("C16.R2", n, 23, "bridge methods")

    # ---- R4 combine_all
    ca = F.fn("analysis::visit::combine_all")
    if ca is None:
        rep.fail("C16.R4", "anchor", "analysis::visit::combine_all not found")
    else:
        rep.analysed(ca)
        tf = [(bi, t) for bi, t in ca.calls() if (callee_def(t) or "").endswith("Iterator::try_fold")]
        comb = []
        for body in F.with_closures(ca):
            for bi, t in body.calls():
                if (callee_def(t) or "").endswith("Combine::combine"):
                    comb.append((body, bi, t))
        if tf:
            # shape A: iter.try_fold(T::default(), |acc, x| x.map(|x| acc.combine(x)))
            ok = len(tf) == 1
            why = "" if ok else "expected one Iterator::try_fold call, found %d" % len(tf)
            if ok:
                bi, t = tf[0]
                init = origins(ca, t["args"][1])
                init_calls = [ca.term(d[1]) for d, _ in init if d[0] == "call"]
                if not (len(init_calls) == 1 and (callee_def(init_calls[0]) or "").endswith("Default::default")):
                    ok, why = False, "the fold does not start from Default::default()"
                if t["dest"]["l"] != 0:
                    ok, why = False, "the fold result is not returned unchanged"
            rep.ob("C16.R4", "combine_all::try_fold", ok, why, ca.loc(), how="try_fold(Default::default(), ..) returned")
            ok = len(comb) == 1
            why = "" if ok else "expected one Combine::combine call under combine_all, found %d" % len(comb)
            if ok:
                body, bi, t = comb[0]
                a0 = origins(body, t["args"][0])
                a1 = origins(body, t["args"][1])
                # accumulator is captured (closure environment, local 1); the new element is the closure parameter (local 2)
                if not any(d[0] == "param" and d[1] == 1 for d, _ in a0):
                    ok, why = False, "the accumulator is not the left operand of combine"
                if not any(d[0] == "param" and d[1] == 2 for d, _ in a1):
                    ok, why = False, "the new element is not the right operand of combine"
            rep.ob("C16.R4", "combine_all::combine-order", ok, why, ca.loc(), how="acc.combine(x)")
        else:
            # shape B: an explicit loop -- acc = T::default(); for x in iter { acc = acc.combine(x?) }; Ok(acc)
            defaults = [bi for bi, t in ca.calls() if (callee_def(t) or "").endswith("Default::default")]
            nexts = [bi for bi, t in ca.calls() if t["callee"].get("name") == "next"]
            top_comb = [(bi, t) for body, bi, t in comb if body.path == ca.path]
            ok = len(defaults) == 1 and len(nexts) == 1 and len(top_comb) == 1 and len(comb) == 1
            why = "" if ok else "neither try_fold nor a recognisable loop (one Default::default, one next, one combine): %d / %d / %d" % (len(defaults), len(nexts), len(comb))
            if ok:
                cb, ct = top_comb[0]
                acc_src = {d for d, _ in origins(ca, ct["args"][0])}
                if not acc_src <= {("call", defaults[0]), ("call", cb)} or ("call", defaults[0]) not in acc_src:
                    ok, why = False, "the left operand of combine is not the accumulator started from Default::default()"
                item = kind_deep_(ca, ct["args"][1])
                if ok and not any(d == ("call", nexts[0]) for d, _ in item):
                    ok, why = False, "the right operand of combine is not the element drawn from the iterator"
                # the element is checked with `?` before it is combined
                brs = [bi for bi, t in ca.calls() if (callee_def(t) or "") == "std::ops::Try::branch" and any(d == ("call", nexts[0]) for d, _ in kind_deep_(ca, t["args"][0]))]
                if ok and not any(ca.dominates(b_, cb) for b_ in brs):
                    ok, why = False, "the element is not checked with `?` before it is combined: the fold does not stop at the first error"
                # Ok(acc) returned
                rets = [(bi, si, st) for bi, si, st in ca.assigns() if st["pl"]["l"] == 0 and isinstance(st["rv"].get("agg"), dict) and st["rv"]["agg"].get("variant") == "Ok"]
                if ok and not (rets and all({d for d, _ in origins(ca, st["rv"]["ops"][0])} <= {("call", defaults[0]), ("call", cb)} for _, _, st in rets)):
                    ok, why = False, "the accumulator is not what combine_all returns"
                # the loop goes forward over the iterator that was passed in
                if ok and any(t["callee"].get("name") in ("rev", "next_back") for bi, t in ca.calls()):
                    ok, why = False, "the iterator is consumed backwards"
            rep.ob("C16.R4", "combine_all::try_fold", ok, why, ca.loc(), how="loop from Default::default(), `?` on every element, Ok(acc)")
            rep.ob("C16.R4", "combine_all::combine-order", ok, why, ca.loc(), how="acc = acc.combine(x?)")
    common.errflow(ctx, "C16.R4", lambda fn: fn.file.endswith("analysis/visit.rs"), forbid_map_err=True)
    # ---- R9 every other place that combines results: earlier on the left
    rep.rule("C16.R9", "results are folded in the order they were produced: at every Combine::combine call of the traversal code (outside "
             "combine_all, see R4) every visit whose result is (part of) the receiver is executed before every visit whose result is (part "
             "of) the argument; in a closure handed to try_fold / fold the accumulator is the receiver and never the argument")
    from ..guards import _closure_use
    n9 = 0
    for fn in F.all_bodies(tests=False):
        if not fn.file.endswith("analysis/visit.rs") or common.top_fn(F, fn).path == "analysis::visit::combine_all":
            continue
        for bi, t in fn.calls():
            if not (callee_def(t) or "").endswith("Combine::combine") or len(t["args"]) < 2:
                continue
            n9 += 1
            rep.analysed(common.top_fn(F, fn))
            ok, why = True, ""
            use = _closure_use(F, fn) if fn.kind == "closure" else None
            if use and use[2]["callee"].get("name") in ("try_fold", "fold", "try_rfold", "rfold"):
                acc_r = any(d[0] == "param" and d[1] == 2 for d, _ in kind_deep_(fn, t["args"][0]))
                acc_a = any(d[0] == "param" and d[1] == 2 for d, _ in kind_deep_(fn, t["args"][1]))
                if acc_a or not acc_r:
                    ok, why = False, "in the fold closure the accumulator is %s of combine: each new result is put in front of the earlier ones" % ("the argument" if acc_a else "not the receiver")
            else:
                def vis(o):
                    return {d[1] for d, _ in kind_deep_(fn, o) if d[0] == "call" and ((fn.term(d[1])["callee"].get("name") or "").startswith("visit_") or callee_def(fn.term(d[1])) == "analysis::visit::combine_all")}
                left, right = vis(t["args"][0]), vis(t["args"][1])
                # (flow-insensitive origins of a loop-carried accumulator include later results: only what can have run before this
                # combine counts)
                left = {a for a in left if bi in fn.reachable_from_succs(a)}
                right = {b for b in right if bi in fn.reachable_from_succs(b)}
                for a in left:
                    for b in right:
                        if a != b and a in fn.reachable_from_succs(b) and b not in fn.reachable_from_succs(a):
                            ok, why = False, "the receiver of combine holds the result of %s (line %s), which is produced after the argument's %s (line %s): the results are folded against the order in which they were produced" % (
                                fn.term(a)["callee"].get("name"), fn.term(a)["line"], fn.term(b)["callee"].get("name"), fn.term(b)["line"])
            rep.ob("C16.R9", "combine-order::%s#%d" % (common.top_fn(F, fn).path, sum(1 for b2, t2 in fn.calls() if b2 < bi and (callee_def(t2) or "").endswith("Combine::combine"))), ok, why, fn.loc(t["line"]),
                   how="receiver produced before the argument / accumulator on the left")
    rep.floor("C16.R9", n9, 12, "Combine::combine call sites in the traversal code")
