"""C07 — split, join, cast and rounding transform values exactly and only their target (protocol, dispatch, kind tables, census)."""
from .. import tables
from ..core import callee_def, op_local, op_place
from ..flow import origins
from ..props import prop
from . import common, kind_rules
from . import census_rules as cr
from .common import is_callee, find_method, inherent_methods, flows_into
from .c03 import kind_deep

VP = "analysis::visit::VisitProgram"
EXEC = "exec::exec_stmt::ExecStmt"
MUT = "frontend::ast::Mutation"


def recv_kind(fn, t):
    pl = op_place(t["args"][0]) if t["args"] else None
    if pl is None:
        return ""
    s = fn.local_ty(pl["l"]).peel_refs().s
    if s.startswith("exec::write_val::WriteVal"):
        return "write"
    if s.startswith("exec::produce_val::ProduceVal"):
        return "read"
    return ""


def arg_field(fn, operand):
    """first field of the Mutation node the argument refers to (operand / dest / param) or None"""
    for d, p in kind_deep(fn, operand):
        if d[0] == "param" and p and p[0] in ("operand", "dest", "param"):
            return p[0]
    return None


@prop("C07")
def c07(ctx):
    F, rep = ctx.F, ctx.rep
    rep.rule("C07.R1", "protocol of mutation_helper: the `with` parameter is evaluated once, before the branch on the destination, and handed "
             "on unchanged (pure projection / clone); with a destination the operand is only read (ProduceVal), the transformation runs once "
             "on that copy and exactly one write goes to the destination; without, exactly one write goes to the operand and nothing else "
             "is written")
    rep.rule("C07.R2", "dispatch: Cut -> Val::split, Join -> Val::join, Cast -> Val::cast on (value, parameter); Up -> round_up -> f64::ceil, "
             "Down -> round_down -> f64::floor, Nearest -> round_nearest -> f64::round")
    rep.rule("C07.R3", "kind tables of split / join / cast over operand kind x parameter kind (absent or one of six) and of the three rounding "
             "operations equal the reviewed reference: wrong operand kind -> InvalidOperationForType, wrong delimiter kind -> "
             "Invalid{Split,Join}Delimiter in the empty and the non-empty case, non-string element -> InvalidArrayElementForJoin, "
             "radix problems -> InvalidStringToIntegerRadix, parameter on a number cast -> UnexpectedParameter..")
    rep.rule("C07.R5", "exact text primitives: split takes its pieces from str::split(delimiter) (non-empty delimiter) or str::chars (empty "
             "delimiter), mapped element-wise and collected -- no other adaptor (filter, skip, take, splitn, split_terminator, trim ..) "
             "in the chain; join builds its text with a library join (Itertools::join / slice::join) over the array's value iterator "
             "and the delimiter, or, if written by hand, decides where a separator goes by position only (never by looking at the text "
             "accumulated so far or at an element)")
    text_primitives(ctx, "C07.R5")
    rep.rule("C07.R6", "exact integrality: Val::try_to_integer succeeds exactly when the number equals a rounding of itself (an `==` between f and "
             "trunc / floor / round / ceil of f): no tolerance, so a radix or a code point that is not an integer is an error")
    integrality_rule(ctx, "C07.R6")
    rep.rule("C07.R7", "exactly and only the target (EVAL-ONCE, shared with C06.R8, on the mutation and rounding statements): the operand of "
             "cut / join / cast / turn is addressed by one evaluation -- read here and written there lets a side-effecting subscript select "
             "two different elements")
    from . import evalonce
    evalonce.run(ctx, "C07.R7", evalonce.REVIEWED, 3, only=lambda fn: fn.name in ("visit_mutation", "mutation_helper", "visit_rounding"))
    rep.rule("C07.R8", "no silent wrap-around on the way from a number to a code point / radix / index: in src/exec every integer `as` cast whose "
             "target type cannot hold every value of the source type (i64 -> u32, usize -> u32, signed -> unsigned ...) is executed only where "
             "comparisons with constants on the dominating edges confine the value to the target's range; a checked conversion (try_into / "
             "try_from) is not a cast and is what the code uses today")
    narrowing_rule(ctx, "C07.R8")
    rep.rule("C07.R9", "numbers stay floats: a float-to-integer conversion (`as`, which saturates and maps NaN to 0) occurs in src/exec only in the "
             "reviewed places -- the three index conversions of Array / string indexing, the repetition count of `*` (sign-guarded, C03.R9) and "
             "try_to_integer (exactness decided by R6) -- or in a helper only those call; in particular the rounding operations never go "
             "through an integer.  And a string is cast to a number with a radix by i64::from_str_radix applied to the string itself: no "
             "part of the sign / digit syntax is handled by hand")
    float_to_int_rule(ctx, "C07.R9")
    rep.rule("C07.R10", "a string is read as a number by `str::parse::<f64>` applied to the string itself -- everywhere in src/exec (the cast without "
             "a radix, the string/number cell of equality and ordering): no other target type (an integer parse rejects what the float parser "
             "accepts, and overflows) and no trimming or other preparation of the text; and the writer of a rounding statement only "
             "dispatches on the direction -- it never assigns to the target itself (no kind of operand is converted first)")
    string_to_number_rule(ctx, "C07.R10")
    vr_ = find_method(F, VP, "visit_rounding", EXEC) if "find_method" in globals() else None
    if vr_ is not None:
        rep.analysed(vr_)
        bad = None
        for b in F.with_closures(vr_):
            if b.kind != "closure":
                continue
            for bi, si, st in b.assigns():
                pl = st["pl"]
                if pl["p"] and pl["p"][0] == "deref" and pl["l"] >= 2 and pl["l"] <= b.argc and len(pl["p"]) == 1:
                    bad = (b, st.get("line"))
        rep.ob("C07.R10", "rounding-writer-only-dispatches", bad is None,
               "" if bad is None else "the writer closure of visit_rounding assigns to the target itself (line %s) before rounding: an operand of another kind is replaced by a number instead of being a runtime error" % bad[1],
               bad[0].loc(bad[1]) if bad else vr_.loc(), how="no `*v = ..` in the writer")
    rep.rule("C07.R4", "CENSUS restricted to the transformation code (Val::{split,join,cast,try_to_integer,round_*}, mutation_helper, "
             "visit_mutation, visit_rounding): no panicking callee precondition is left open (radix range, code point conversion)")
    em = inherent_methods(F, EXEC)
    mh = em.get("mutation_helper")
    if mh is None:
        rep.fail("C07.R1", "anchor", "ExecStmt::mutation_helper not found")
    else:
        rep.analysed(mh)
        bodies = F.with_closures(mh)
        # (a) parameter evaluation: one site, in a closure mapped over m.param, before the branch on m.dest
        pe = []
        for b in bodies:
            for bi, t in b.calls():
                if is_callee(t, "analysis::visit::VisitExpr::visit_expression") and recv_kind(b, t) == "read":
                    pe.append((b, bi, t))
        ok = len(pe) == 1
        why = "" if ok else "expected one evaluation of the `with` parameter, found %d" % len(pe)
        dest_sw = None
        for bi in range(len(mh.blocks)):
            sw = tables.switch_on_discr(mh, bi)
            if sw and any(nm == "dest" for of, nm, _ in common.place_fields(sw[0])) or (sw and any(p[:1] == ("dest",) for d, p in origins(mh, {"copy": {"l": sw[0]["l"], "p": []}}))):
                dest_sw = bi
        if ok:
            b0, bi0, t0 = pe[0]
            # what is evaluated is m.param (whatever idiom: map over the Option, match, if let), wherever the site sits
            from ..flow import Labels
            lab = Labels(F, mh, {(mh.path, i): {("m",)} for i in range(1, mh.argc + 1) if mh.local_name(i) == "m"},
                         extend=lambda l, pl: l + tuple(nm for of, nm, _ in common.place_fields(pl) if of == "frontend::ast::Mutation")[:1] if len(l) == 1 else l)
            flds = {l[1] for l in lab.op_labels(b0, t0["args"][1]) if len(l) == 2}
            anchors = common.site_anchors(F, mh, b0, bi0)
            if flds != {"param"}:
                ok, why = False, "the expression evaluated is %s of the mutation, not its `with` parameter" % (sorted(flds) or "not a field")
            elif dest_sw is None or not anchors or not all(dest_sw in mh.reachable(a_) and a_ not in mh.reachable_from_succs(dest_sw) for a_ in anchors):
                ok, why = False, "the parameter is not evaluated before the branch on the destination"
            elif any(a_ in scc for scc in mh.sccs() for a_ in anchors):
                ok, why = False, "the parameter is evaluated in a loop"
        rep.ob("C07.R1", "parameter-evaluated-once-before-branch", ok, why, mh.loc(), how="one evaluation of m.param, placed before the branch on m.dest")
        # (b) handed on unchanged
        impure = []
        for b in bodies:
            if b.kind != "closure" or (pe and b is pe[0][0]):
                continue
            for bi, t in b.calls():
                d = callee_def(t) or ""
                name = t["callee"].get("name", "") if "indirect" not in t["callee"] else ""
                if name in ("clone", "call", "call_mut", "call_once") or d == "std::ops::Try::branch" or d == "std::ops::FromResidual::from_residual":
                    continue
                impure.append((b, t))
        rep.ob("C07.R1", "parameter-passed-unchanged", not impure,
               "" if not impure else "%s applies %s on the way: the parameter (or the value) is transformed before the operation sees it" % (impure[0][0].path, callee_def(impure[0][1])),
               mh.loc(), how="closures in mutation_helper only project, clone and call the transformation")
        # (c)/(d) the two branches
        if dest_sw is None:
            rep.fail("C07.R1", "branch-on-destination", "no branch on m.dest found", mh.loc())
        else:
            sw = tables.arms_complete(mh, dest_sw)
            some_t, none_t = sw[2].get("Some"), sw[2].get("None")
            r_some = mh.reachable(some_t, avoid=[none_t]) - mh.reachable(none_t, avoid=[some_t])
            r_none = mh.reachable(none_t, avoid=[some_t]) - mh.reachable(some_t, avoid=[none_t])

            def sites(region):
                reads, writes, muts = [], [], []
                for bi, t in mh.calls():
                    if bi not in region:
                        continue
                    k = recv_kind(mh, t)
                    if k == "read" and t["callee"].get("name", "").startswith("visit_"):
                        reads.append((bi, t, arg_field(mh, t["args"][1])))
                    elif k == "write" and t["callee"].get("name", "").startswith("visit_"):
                        writes.append((bi, t, arg_field(mh, t["args"][1])))
                    if t["callee"].get("name") in ("call", "call_mut", "call_once") and any(d[0] == "param" and d[1] == 3 for d, _ in origins(mh, t["args"][0])):
                        muts.append((bi, t))
                return reads, writes, muts
            reads, writes, muts = sites(r_some)
            ok = [x[2] for x in reads] == ["operand"] and [x[2] for x in writes] == ["dest"] and len(muts) == 1
            why = "" if ok else "with a destination: reads %s, writes %s, %d direct transformation calls (expected read operand, one transformation, write dest)" % (
                [x[2] for x in reads], [x[2] for x in writes], len(muts))
            if ok:
                rb, wb, mb = reads[0][0], writes[0][0], muts[0][0]
                if not (mh.dominates(rb, mb) and mh.dominates(mb, wb)):
                    ok, why = False, "with a destination the order is not read operand, transform, write destination"
                elif not flows_into(mh, rb, muts[0][1]["args"][1]):
                    ok, why = False, "the transformation is not applied to the copy read from the operand"
            rep.ob("C07.R1", "into-destination-leaves-operand", ok, why, mh.loc(), how="read(operand) -> mutate(copy, param) -> write(dest)")
            reads, writes, muts = sites(r_none)
            ok = not reads and [x[2] for x in writes] == ["operand"] and not muts
            why = "" if ok else "without a destination: reads %s, writes %s" % ([x[2] for x in reads], [x[2] for x in writes])
            if ok:
                # the raw writer's closure calls the transformation exactly once on the written value
                wt = writes[0][1]
                cl_ok = False
                for b in bodies:
                    if b.kind == "closure":
                        cs = [(bi, t) for bi, t in b.calls() if t["callee"].get("name") in ("call", "call_mut", "call_once")]
                        if len(cs) == 1 and b.argc >= 2 and any(d[0] == "param" and d[1] == 2 for d, _ in kind_deep(b, cs[0][1]["args"][1])):
                            cl_ok = True
                if not cl_ok:
                    ok, why = False, "the in-place writer does not apply the transformation once to the written value"
            rep.ob("C07.R1", "in-place-replaces-operand", ok, why, mh.loc(), how="write(operand) with mutate inside the writer")
    # ---- R2
    vm = find_method(F, VP, "visit_mutation", EXEC)
    vr = find_method(F, VP, "visit_rounding", EXEC)
    want_m = {"Cut": "exec::val::Val::split", "Join": "exec::val::Val::join", "Cast": "exec::val::Val::cast"}
    want_r = {"Up": "exec::val::Val::round_up", "Down": "exec::val::Val::round_down", "Nearest": "exec::val::Val::round_nearest"}
    for fn, want, what, nargs in ((vm, want_m, "visit_mutation", 2), (vr, want_r, "visit_rounding", 1)):
        if fn is None:
            rep.fail("C07.R2", "anchor::" + what, "ExecStmt::%s not found" % what)
            continue
        rep.analysed(fn)
        found = {}
        for b in F.with_closures(fn):
            for bi in range(len(b.blocks)):
                sw = tables.arms_complete(b, bi)
                if not sw or sw[1].peel_refs().adt() not in ("frontend::ast::MutationOperator", "frontend::ast::RoundingDirection"):
                    continue
                for v, tg in sw[2].items():
                    calls = [callee_def(b.term(x)) for x in sorted(b.reachable(tg, avoid=[y for vv, y in sw[2].items() if y != tg])) if b.term(x)["k"] == "call"
                             and (callee_def(b.term(x)) or "").startswith("exec::val::Val::")]
                    tcs = [b.term(x) for x in sorted(b.reachable(tg, avoid=[y for vv, y in sw[2].items() if y != tg])) if b.term(x)["k"] == "call"
                           and (callee_def(b.term(x)) or "").startswith("exec::val::Val::")]
                    found[v] = (calls, b, tcs)
        rep.exhaustive[what + "_dispatch"] = True
        for v, callee in want.items():
            calls, b, tcs = found.get(v, ([], None, []))
            ok = calls == [callee]
            why = "" if ok else "%s dispatches %s to %s" % (what, v, calls or "nothing")
            if ok and nargs == 2:
                t = tcs[0]
                a0 = any(d[0] == "param" and d[1] == 2 for d, _ in origins(b, t["args"][0]))
                a1 = any(d[0] == "param" and d[1] == 3 for d, _ in origins(b, t["args"][1]))
                if not (a0 and a1):
                    ok, why = False, "%s is not called as (value, parameter)" % callee
            rep.ob("C07.R2", "dispatch::" + v, ok, why, fn.loc(), how=callee)
    for name, std in (("round_up", "ceil"), ("round_down", "floor"), ("round_nearest", "round")):
        fn = F.fn("exec::val::Val::" + name)
        if fn is None:
            rep.fail("C07.R2", "anchor::" + name, "Val::%s not found" % name)
            continue
        rep.analysed(fn)
        fl = [t["callee"].get("name") for bi, t in fn.calls() if "indirect" not in t["callee"] and "f64" in t["callee"]["def"]]
        ok = fl == [std]
        rep.ob("C07.R2", "rounding::" + name, ok, "" if ok else "%s uses f64::%s" % (name, fl), fn.loc(), how="f64::" + std)
    # ---- R3
    n = kind_rules.compare_with_reference(ctx, "C07.R3", "param", ["split", "join", "cast"])
    n += kind_rules.compare_with_reference(ctx, "C07.R3", "unary", ["round_up", "round_down", "round_nearest"])
    rep.floor("C07.R3", n, 140, "table cells")
    # ---- R4

    def only(fn):
        p = fn.path
        return any(x in p for x in ("Val::split", "Val::join", "Val::cast", "Val::try_to_integer", "Val::round_", "mutation_helper", "visit_mutation", "visit_rounding"))
    ns = cr.census_for(ctx, "C07.R4", "C07", "execution", cr.roots_exec, only=only)
    rep.floor("C07.R4", ns, 2, "census sites in the transformation code (both profiles)")



def _chain_between(fn, src_bb, allowed_mid, sink_names):
    """follow the result of the call at src_bb through calls that take it as first argument: (ok, offending callee or None, sink bb)"""
    cur = src_bb
    for _ in range(12):
        nxt = [(bi, t) for bi, t in fn.calls() if bi != cur and t["args"] and any(d[0] == "call" and d[1] == cur for d, _ in origins(fn, t["args"][0]))]
        if not nxt:
            return False, "nothing consumes the pieces", None
        bi, t = nxt[0]
        nm = t["callee"].get("name")
        if nm in sink_names:
            return True, None, bi
        if nm not in allowed_mid:
            return False, t["callee"].get("def"), None
        cur = bi
    return False, "chain too long", None


def text_primitives(ctx, rule):
    F, rep = ctx.F, ctx.rep
    sp = F.fn("exec::val::Val::split")
    jn = F.fn("exec::val::Val::join")
    if sp is None or jn is None:
        rep.fail(rule, "anchor", "Val::split / Val::join not found")
        return
    rep.analysed(sp)
    rep.analysed(jn)
    # ---- split
    srcs = [(bi, t) for bi, t in sp.calls() if (callee_def(t) or "").startswith(("core::str::<impl str>::", "std::str::<impl str>::", "alloc::str::<impl str>::"))
            and t["callee"].get("name") not in ("is_empty", "len", "as_bytes", "as_ptr")]
    names = sorted(t["callee"].get("name") for _, t in srcs)
    ok = names == ["chars", "split"]
    rep.ob(rule, "split::sources", ok, "" if ok else "Val::split takes its pieces from %s; the exact primitives are str::split (non-empty delimiter) and str::chars (empty delimiter)" % names,
           sp.loc(), how="str::split / str::chars")
    # what may stand between the pieces and the array: element-wise conversion and collection, by adaptor or by loop
    FORBIDDEN = ("filter", "filter_map", "skip", "take", "rev", "step_by", "skip_while", "take_while", "dedup", "splitn", "rsplit", "rsplitn", "split_terminator", "rsplit_terminator",
                 "split_whitespace", "split_ascii_whitespace", "split_inclusive", "trim", "trim_start", "trim_end", "trim_matches", "strip_prefix", "strip_suffix", "enumerate", "zip", "chunks",
                 "pop", "pop_back", "pop_front", "remove", "truncate", "retain", "sort", "reverse", "last", "nth", "peekable", "to_lowercase", "to_uppercase", "replace")
    used = sorted({t_["callee"].get("name") for b_ in F.with_closures(sp) for bi_, t_ in b_.calls() if "indirect" not in t_["callee"] and t_["callee"].get("name") in FORBIDDEN})
    from ..flow import Labels
    for bi, t in srcs:
        nm = t["callee"].get("name")
        lab = Labels(F, sp, {(sp.path, t["dest"]["l"]): {"pieces"}}, through_mut=True)
        # the pieces reach the array that replaces the operand (Array::with_arr / a collection converted into the value)
        reaches = False
        for bi2, t2 in sp.calls():
            if t2["callee"].get("name") in ("with_arr", "into", "from") and any("pieces" in lab.op_labels(sp, a) for a in t2["args"]):
                reaches = True
        good = reaches and not used
        bad = used[0] if used else "nothing that builds the array"
        rep.ob(rule, "split::chain::" + str(nm), good, "" if good else "between %s and the array built from it stands %s: pieces are dropped, merged or altered" % (nm, bad), sp.loc(t["line"]),
               how="%s -> element-wise -> array" % nm)
        if nm == "split":
            # the pattern is the delimiter, on the non-empty branch
            dl = {p for d, p in kind_deep(sp, t["args"][1]) if d == ("param", 2)}
            ie = [(b2, t2) for b2, t2 in sp.calls() if t2["callee"].get("name") == "is_empty" and (callee_def(t2) or "").startswith("core::str")]
            from ..guards import _bool_edges, _dominated_by_edge
            guarded = False
            for b2, t2 in ie:
                be = _bool_edges(sp, b2)
                if be and (be[1] == bi or _dominated_by_edge(sp, bi, be[0], be[1])):
                    guarded = True
            ok = bool(dl) and guarded
            rep.ob(rule, "split::pattern-is-the-delimiter", ok, "" if ok else ("the pattern handed to str::split is not the delimiter" if not dl else "str::split is not confined to the branch where the delimiter is non-empty"),
                   sp.loc(t["line"]), how="split(delim) under !delim.is_empty()")
    # ---- join
    lib = [(bi, t) for bi, t in jn.calls() if t["callee"].get("name") == "join" and (callee_def(t) or "") in ("itertools::Itertools::join", "alloc::slice::<impl [T]>::join", "std::slice::<impl [T]>::join", "alloc::slice::Join::join")]
    if lib:
        bi, t = lib[0]
        deep = kind_deep(jn, t["args"][0])
        from_iter = any(d[0] == "call" and jn.term(d[1])["callee"].get("name") == "val_iter" for d, _ in deep)
        mids = {jn.term(d[1])["callee"].get("name") for d, _ in deep if d[0] == "call"} - {"val_iter", "deref", "map", "into_iter", "iter"}
        dl = {p for d, p in kind_deep(jn, t["args"][1]) if d == ("param", 2)} if len(t["args"]) > 1 else set()
        ok = len(lib) == 1 and from_iter and not mids and bool(dl)
        why = ""
        if not ok:
            why = ("the joined sequence is not the array's value iterator" if not from_iter else
                   ("the elements pass through %s before being joined" % sorted(mids)) if mids else "the separator is not the delimiter")
        rep.ob(rule, "join::library-join(val_iter, delim)", ok, why, jn.loc(t["line"]), how=callee_def(t))
    else:
        # written by hand: every append of the delimiter is controlled by position only
        bodies = F.with_closures(jn)
        n = 0
        for body in bodies:
            for bi, t in body.calls():
                if t["callee"].get("name") in ("push_str", "push", "add_assign", "extend", "write_str") and len(t["args"]) > 1:
                    if not any(d == ("param", 2) or (d[0] == "param" and body.kind == "closure") for d, p in kind_deep(body, t["args"][1])):
                        continue
                    if not any(d == ("param", 2) for d, p in kind_deep(body, t["args"][1])):
                        continue
                    n += 1
                    bad = None
                    for sb in range(len(body.blocks)):
                        st = body.term(sb)
                        if st["k"] != "switch" or not body.dominates(sb, bi) or sb == bi:
                            continue
                        for d, p in kind_deep(body, st["on"]):
                            if d[0] == "call":
                                c2 = body.term(d[1])["callee"]
                                if c2.get("name") in ("is_empty", "len", "ends_with", "starts_with", "last", "chars") and (c2.get("def") or "").startswith(("std::string::String::", "core::str::", "alloc::string::String::")):
                                    # does it look at the accumulator or an element (not at the delimiter)?
                                    if not any(dd == ("param", 2) for dd, pp in kind_deep(body, body.term(d[1])["args"][0])):
                                        bad = c2.get("def")
                    rep.ob(rule, "join::separator-by-position#%d" % (n - 1), bad is None,
                           "" if bad is None else "whether a separator is written depends on %s of the text built so far (or of an element): empty leading elements lose their separators" % bad,
                           body.loc(t["line"]), how="separator controlled by position")
        if n == 0:
            rep.fail(rule, "join::shape", "neither a library join nor a recognisable hand-written joining loop in Val::join: exactness of the joined text cannot be shown", jn.loc())



def integrality_rule(ctx, rule):
    F, rep = ctx.F, ctx.rep
    fn = F.fn("exec::val::Val::try_to_integer")
    if fn is None:
        rep.fail(rule, "anchor", "Val::try_to_integer not found")
        return
    rep.analysed(fn)
    ROUNDINGS = ("trunc", "floor", "round", "ceil", "round_ties_even")
    # the condition that decides: operand of bool::then / of the switch that separates Ok from Err
    conds = []
    for bi, t in fn.calls():
        if is_callee(t, "core::bool::<impl bool>::then", "core::bool::<impl bool>::then_some"):
            conds.append(t["args"][0])
    for sb in range(len(fn.blocks)):
        st = fn.term(sb)
        if st["k"] == "switch" and op_local(st["on"]) is not None and fn.local_ty(op_local(st["on"])).s == "bool":
            conds.append(st["on"])
    ok, why = False, "no deciding condition found"
    for cnd in conds:
        for d, p in origins(fn, cnd):
            if d[0] != "op":
                why = "the deciding condition is not a comparison of the number with its rounding"
                continue
            rv = fn.stmts(d[1])[d[2]]["rv"]
            if rv.get("bin") not in ("eq", "ne"):
                why = "try_to_integer decides with `%s`, not with an exact equality: numbers that are only close to an integer are accepted as that integer" % rv.get("bin")
                ok = False
                break
            sides = []
            for o in (rv["a"], rv["b"]):
                src = set(origins(fn, o))
                if src and all(dd == ("param", 1) for dd, pp in src):
                    sides.append("f")
                elif src and all(dd[0] == "call" and fn.term(dd[1])["callee"].get("name") in ROUNDINGS and
                                 all(x == ("param", 1) for x, _ in origins(fn, fn.term(dd[1])["args"][0])) for dd, pp in src):
                    sides.append("round(f)")
                else:
                    sides.append("?")
            if sorted(sides) == ["f", "round(f)"]:
                ok, why = True, ""
            else:
                ok, why = False, "the equality compares %s, not the number with a rounding of itself" % sides
        if ok:
            break
    rep.ob(rule, "exact-integrality", ok, why, fn.loc(), how="f == f.trunc()")


_INT = {"i8": (True, 8), "i16": (True, 16), "i32": (True, 32), "i64": (True, 64), "i128": (True, 128), "isize": (True, 64),
        "u8": (False, 8), "u16": (False, 16), "u32": (False, 32), "u64": (False, 64), "u128": (False, 128), "usize": (False, 64)}


def _range_of(tyname):
    sg, bits = _INT[tyname]
    return (-(1 << (bits - 1)), (1 << (bits - 1)) - 1) if sg else (0, (1 << bits) - 1)


def narrowing_rule(ctx, rule):
    from ..guards import _interval_at
    rep = ctx.rep
    n_fns = n_casts = 0
    for prof, F in sorted(ctx.facts.items()) if hasattr(ctx, "facts") and isinstance(ctx.facts, dict) else [("", ctx.F)]:
        for fn in F.all_bodies(tests=False):
            if not fn.file.startswith("src/exec/") or fn.is_derived() or not fn.mir:
                continue
            n_fns += 1
            k = 0
            for bi, si, st in fn.assigns():
                if st["rv"].get("cast") != "IntToInt":
                    continue
                a, b = F.ty(st["rv"]["from"]).s, F.ty(st["rv"]["to"]).s
                if a not in _INT or b not in _INT:
                    continue
                (alo, ahi), (blo, bhi) = _range_of(a), _range_of(b)
                if blo <= alo and ahi <= bhi:
                    continue
                n_casts += 1
                lo, hi = _interval_at(fn, bi, st["rv"]["a"])
                ok = lo is not None and hi is not None and blo <= lo and hi <= bhi
                rep.ob(rule, "narrowing::%s#%d%s" % (fn.path, k, (" @" + prof) if prof and prof != ctx.primary else ""), ok,
                       "" if ok else "%s converts %s to %s with `as` (line %s) where nothing confines the value to %s..=%s (known bounds: %s..=%s): out-of-range values wrap around instead of being rejected" % (
                           fn.path, a, b, st.get("line"), blo, bhi, lo, hi), fn.loc(st.get("line")), how="value within the target range on the dominating edges")
                k += 1
    rep.ob(rule, "scanned", n_fns >= 100, "" if n_fns >= 100 else "only %d bodies of src/exec found" % n_fns, None, how="%d bodies (both profiles), %d narrowing integer casts" % (n_fns, n_casts))


FLOAT_TO_INT_OK = {
    "exec::val::Array::index": "sequence index of a read",
    "exec::val::Array::index_or_insert": "sequence index of a write (bounded by try_reserve, D5 repair)",
    "exec::val::index_string_with": "character index of a string read",
    "exec::val::Val::multiply": "repetition count, only on the `>= 0` edge (C03.R9)",
    "exec::val::Val::try_to_integer": "after the exact integrality test (C07.R6)",
}


def float_to_int_rule(ctx, rule):
    from ..core import callee_def
    from .c03 import kind_deep
    F, rep = ctx.F, ctx.rep
    n = 0
    for fn in F.all_bodies(tests=False):
        if not fn.file.startswith("src/exec/") or fn.is_derived() or not fn.mir:
            continue
        casts = [(bi, si, st) for bi, si, st in fn.assigns() if st["rv"].get("cast") == "FloatToInt"]
        if not casts:
            continue
        top = common.top_fn(F, fn)
        n += len(casts)
        ok = top.path in FLOAT_TO_INT_OK
        how = FLOAT_TO_INT_OK.get(top.path, "")
        if not ok:
            callers = {common.top_fn(F, b2).path for b2, bi2, t2 in common.who_calls(F, lambda c: (c.get("resolved") or c.get("def")) == top.path)}
            if callers and callers <= set(FLOAT_TO_INT_OK):
                ok, how = True, "helper called only by %s" % sorted(x.rsplit("::", 1)[-1] for x in callers)
        rep.ob(rule, "float-to-int::%s" % top.path, ok,
               "" if ok else "%s converts a float to an integer with `as` (line %s): beyond the integer's range the value saturates, NaN becomes 0 and -0 loses its sign -- not one of the reviewed conversions" % (top.path, casts[0][2].get("line")),
               fn.loc(casts[0][2].get("line")), how=how)
    rep.floor(rule, n, 3, "float-to-integer conversions in src/exec")
    cast = F.fn("exec::val::Val::cast")
    if cast is None:
        rep.fail(rule, "anchor::cast", "Val::cast not found")
        return
    sites = [(b, bi, t) for b in F.with_closures(cast) for bi, t in b.calls() if t["callee"].get("name") == "from_str_radix"]
    ok, why = len(sites) == 1, "" if len(sites) == 1 else "expected one from_str_radix call in Val::cast, found %d" % len(sites)
    if ok:
        b, bi, t = sites[0]
        inst = t["callee"].get("inst") or callee_def(t) or ""
        if "i64" not in inst:
            ok, why = False, "the digits are parsed by %s, not by i64::from_str_radix: sign and range of the result are assembled by hand" % inst
        else:
            names = {b.term(d[1])["callee"].get("name") for d, p in kind_deep(b, t["args"][0]) if d[0] == "call"}
            extra = sorted(x for x in names if x not in ("deref", "as_str", "as_ref", "borrow", "as_mut", "deref_mut"))
            if extra:
                ok, why = False, "what is parsed is not the string itself but the result of %s: part of the number syntax is handled by hand" % extra
    rep.ob(rule, "radix-parse-is-i64-from_str_radix-of-the-string", ok, why, cast.loc(), how="i64::from_str_radix(s, radix)")


def string_to_number_rule(ctx, rule, prefix="src/exec/", floor=2):
    from ..core import callee_def
    F, rep = ctx.F, ctx.rep
    n = 0
    for fn in F.all_bodies(tests=False):
        if not fn.file.startswith(prefix) or fn.is_derived():
            continue
        for bi, t in fn.calls():
            if t["callee"].get("name") != "parse" or "str" not in (callee_def(t) or ""):
                continue
            n += 1
            inst = t["callee"].get("inst") or ""
            top = common.top_fn(F, fn)
            ok, why = True, ""
            if "::<f64>" not in inst:
                ok, why = False, "%s reads a string as a number with %s: what the float parser accepts (and how it rounds huge values) is no longer what decides" % (top.path, inst)
            else:
                names = common.deep_call_names(F, fn, t["args"][0])
                TEXT_PREP = {"trim", "trim_start", "trim_end", "trim_matches", "trim_start_matches", "trim_end_matches", "replace", "replacen", "strip_prefix",
                             "strip_suffix", "to_lowercase", "to_uppercase", "to_ascii_lowercase", "to_ascii_uppercase", "split", "split_whitespace", "splitn",
                             "rsplit", "split_once", "retain", "remove", "truncate", "filter", "lines", "concat", "join", "repeat", "format", "escape_debug"}
                extra = sorted(names & TEXT_PREP)
                if extra:
                    ok, why = False, "%s prepares the text with %s before parsing it as a number: strings the language does not read as numbers become numbers (or the reverse)" % (top.path, extra)
            rep.ob(rule, "string-as-number::%s#%d" % (top.path, sum(1 for b2, t2 in fn.calls() if b2 < bi and t2["callee"].get("name") == "parse")), ok, why, fn.loc(t["line"]), how="str::parse::<f64> of the string itself")
    rep.floor(rule, n, floor, "str::parse calls in " + prefix)
