"""C01 — lexing and parsing are total."""
from ..props import prop
from . import common
from . import census_rules as cr


@prop("C01")
def c01(ctx):
    rep = ctx.rep
    rep.rule("C01.R1", "CENSUS: every panic/UB-capable construct in a body reachable in the monomorphic call graph from "
             "frontend::parser::parse, Lexer::next and the Display impls of ParseError / ParseErrorLocation / Token / TokenType is "
             "enumerated, in the dev and the release profile, and must be discharged by an automatic rule or a one-site reviewed "
             "argument (several with a guard fact re-checked on every run)")
    n = cr.census_for(ctx, "C01.R1", "C01", "parsing", cr.roots_front)
    rep.floor("C01.R1", n, 90, "census sites (both profiles)")
