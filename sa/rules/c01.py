"""C01 — lexing and parsing are total."""
from ..props import prop
from . import common
from . import census_rules as cr


@prop("C01")
def c01(ctx):
    rep = ctx.rep
    rep.rule("C01.R1", "CENSUS: every panic/UB-capable construct in a body reachable in the monomorphic call graph from "
             "frontend::parser::parse, Lexer::next and the Display impls of ParseError / ParseErrorLocation / Token / TokenType is "
             "enumerated, in the dev and the release profile, and must be discharged by an automatic rule or a one-site reviewed "
             "argument (several with a guard fact re-checked on every run)")
    n = cr.census_for(ctx, "C01.R1", "C01", "parsing", cr.roots_front)
    rep.floor("C01.R1", n, 60, "census sites (both profiles)")
    rep.rule("C01.R2", "UNITS: every (start, end) / (start, len) / idx handed to substr, make_token_from, make_range, make_loc, advance_to and "
             "every byte range is dimensionally consistent (offset vs length), and no length taken from a converted copy of the text "
             "(to_lowercase, format ..) is used as a length of the source: with the reviewed per-caller arguments of C01.R1 this is what "
             "keeps the (unchecked in release) slicing in bounds and on character boundaries")
    from .c12 import units_rule
    units_rule(ctx, "C01.R2")
    progress_rules(ctx)
    dispatch_char_rule(ctx, "C01.R5")
    lexer_iterative_rule(ctx, "C01.R6")


def progress_rules(ctx):
    from .. import progress
    from .c13 import no_statement_rule
    F, rep = ctx.F, ctx.rep
    rep.rule("C01.R3", "PROGRESS/loops: every CFG cycle in lexer.rs and parser.rs contains a pivot call of a consuming primitive "
             "(match_and_consume, the lexer's next / find / take_while_ref, find_word_start, parse_statement, consume) such that removing "
             "the pivot block breaks every cycle of the component and the loop is left when the primitive yields nothing")
    rep.rule("C01.R4", "PROGRESS/recursion: after deleting the call edges guarded by consumption (dominated by consume(), by the positive "
             "edge of match_and_consume / expect_* / parse_identifier, or inside a closure mapped over such a result) the parser's call "
             "graph is acyclic; no-statement kinds are consumed or rejected by every loop that re-enters statement parsing")
    n_loops = 0
    for fn in progress.parser_fns(F):
        for scc, verdict in progress.loop_pivots(F, fn):
            n_loops += 1
            rep.analysed(fn)
            head = min(scc)
            key = "loop::%s#%d" % (fn.path, sorted(fn.term(b)["line"] for b in scc)[0] if False else list(sorted(scc))[0])
            key = "loop::%s::%s" % (fn.path, "+".join(sorted({(fn.term(b)["callee"].get("name") or "?") for b in scc if fn.term(b)["k"] == "call" and "indirect" not in fn.term(b)["callee"]}))[:80])
            ok = verdict is not None
            rep.ob("C01.R3", key, ok, "" if ok else "a loop in %s (line %s) has no consuming pivot: it can iterate without taking a token or character from the input" % (
                fn.path, fn.term(head)["line"]), fn.loc(fn.term(head)["line"]), how=verdict[1] if ok else "")
    rep.floor("C01.R3", n_loops, 6, "loops in the lexer and the parser")
    edges, cycles, n_edges, n_guarded = progress.recursion_cycles(F)
    rep.notes["parser_call_edges"] = {"total": n_edges, "guarded_by_consumption": n_guarded}
    rep.floor("C01.R4", n_edges, 60, "parser call edges")
    seen = set()
    for cyc in cycles:
        k = "->".join(x.rsplit("::", 1)[-1] for x in cyc)
        if k in seen:
            continue
        seen.add(k)
        rep.fail("C01.R4", "recursion::" + k, "the parser can recurse %s without consuming a token in between (unbounded recursion on some input)" % k,
                 F.fn(cyc[0]).loc() if F.fn(cyc[0]) else None)
    rep.ob("C01.R4", "recursion::acyclic-after-removing-guarded-edges", not cycles, "" if not cycles else "%d unguarded recursion cycles" % len(seen), None,
           how="%d of %d call edges are guarded by consumption; the rest form a DAG" % (n_guarded, n_edges))
    no_statement_rule(ctx, "C01.R4")



def dispatch_char_rule(ctx, rule):
    """the widths the lexer adds to a start offset (`start + 1` for a one-character token) are the widths of the characters it
    dispatched on -- provided the character dispatched on *is* the character at that offset"""
    from ..flow import origins
    F, rep = ctx.F, ctx.rep
    rep.rule(rule, "the character the lexer dispatches on is the character at the start offset: find_word_start hands on the (offset, "
             "character) pair it drew from the character iterator -- a pair it builds itself must take both components from one and "
             "the same drawn pair, never a substituted character (a 3-byte separator dispatched as '\\n' is sliced as one byte)")
    fw = F.fn("frontend::lexer::find_word_start")
    if fw is None:
        rep.fail(rule, "anchor", "frontend::lexer::find_word_start not found")
        return
    rep.analysed(fw)
    n = 0
    bad = None
    for body in F.with_closures(fw):
        for bi, si, st in body.assigns():
            if st["rv"].get("agg") != "tuple" or len(st["rv"].get("ops", [])) != 2:
                continue
            ty = body.local_ty(st["pl"]["l"]).s if not st["pl"]["p"] else ""
            if ty != "(usize, char)":
                continue
            n += 1
            roots = []
            for o in st["rv"]["ops"]:
                src = set(origins(body, o))
                roots.append(src)
            # both components are projections .0 / .1 of the same source value, nothing else
            def proj(src, f):
                return {(d, p[:-1]) for d, p in src if p and str(p[-1]) == f}
            a, b = proj(roots[0], "0"), proj(roots[1], "1")
            if not (a and a == b and len(roots[0]) == len(a) and len(roots[1]) == len(b)):
                bad = (body, st)
    ok = bad is None
    rep.ob(rule, "dispatch-on-the-character-at-the-offset", ok,
           "" if ok else "find_word_start builds an (offset, character) pair whose character is not the one drawn together with the offset: the lexer dispatches on a character that is not the one in the text",
           (bad[0].loc(bad[1].get("line")) if bad else fw.loc()), how="%d rebuilt pairs, all component-wise copies" % n)


def lexer_iterative_rule(ctx, rule):
    """the lexer does not recurse: its stack use does not grow with the length of the input"""
    from ..core import callee_def
    F, rep = ctx.F, ctx.rep
    rep.rule(rule, "the lexer is iterative: the call graph among the functions of lexer.rs (closures folded into their function, trait "
             "methods resolved to the local impl) has no cycle -- skipping n comments, blanks or ignorable characters takes a loop, not n "
             "stack frames, so a long run of them (which involves no nesting) cannot exhaust the stack")
    fns = {fn.path: fn for fn in F.all_fns(tests=False) if fn.file.endswith("frontend/lexer.rs") and fn.kind != "closure"}
    graph = {}
    for path, fn in fns.items():
        cs = set()
        for b in F.with_closures(fn):
            for bi, t in b.calls():
                for d in (t["callee"].get("resolved"), callee_def(t)):
                    if d in fns:
                        cs.add(d)
                # <Self as Iterator>::next on a lexer type resolves to the local impl
                inst = t["callee"].get("inst") or ""
                for p2 in fns:
                    if inst and inst == p2:
                        cs.add(p2)
        graph[path] = cs
    color, cyc = {}, []

    def dfs(u, stack):
        color[u] = 1
        stack.append(u)
        for v in sorted(graph.get(u, ())):
            if color.get(v) == 1:
                cyc.append(stack[stack.index(v):] + [v])
            elif v not in color:
                dfs(v, stack)
        stack.pop()
        color[u] = 2
    for u in sorted(graph):
        if u not in color:
            dfs(u, [])
    ok = not cyc and len(fns) >= 25
    rep.ob(rule, "lexer-call-graph-acyclic", ok,
           "" if ok else ("the lexer recurses: %s -- one stack frame per skipped / scanned item, so a long input without any nesting overflows the stack" % " -> ".join(x.rsplit("::", 2)[-2] + "::" + x.rsplit("::", 1)[-1] for x in cyc[0]) if cyc else "only %d lexer functions found" % len(fns)),
           fns[cyc[0][0]].loc() if cyc else None, how="%d functions, %d call edges, no cycle" % (len(fns), sum(len(v) for v in graph.values())))
