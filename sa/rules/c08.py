"""C08 — input and output happen once each, in program order, and I/O faults are errors."""
from ..core import op_place, op_local, callee_def
from ..flow import origins
from ..props import prop
from . import common
from .c03 import kind_deep
from .common import is_callee, exactly_once_on_normal_paths, flows_into, find_method, inherent_methods

VP = "analysis::visit::VisitProgram"
EXEC = "exec::exec_stmt::ExecStmt"
ENV = "exec::environment::Environment"

# reviewed ERRFLOW exceptions inside src/exec (one site each)
EXEC_ERRFLOW_EXCEPTIONS = {
    "<exec::write_val::WriteVal<'a, W, I, O> as analysis::visit::VisitExpr>::visit_array_subscript::{closure#0}::err-arm-ignores-error":
        "lookup_or_create!: a failed lookup of the assignment target means 'create it'; create_var reports what is really wrong",
    "<exec::write_val::WriteVal<'a, W, I, O> as analysis::visit::VisitExpr>::visit_variable_name::{closure#0}::err-arm-ignores-error":
        "lookup_or_create!: a failed lookup of the assignment target means 'create it'; create_var reports what is really wrong",
}

COMPLETE_WRITERS = ("std::io::Write::write_fmt", "std::io::Write::write_all")
STDIO = ("std::io::_print", "std::io::_eprint", "std::io::stdout", "std::io::stdin", "std::io::stderr",
         "std::io::stdio::_print", "std::io::stdio::_eprint")


def in_exec(fn):
    return fn.file.startswith("src/exec/")


@prop("C08")
def c08(ctx):
    F = ctx.F
    rep = ctx.rep
    rep.rule("C08.R1", "say: ExecStmt::visit_output reaches Environment::output exactly once on every non-error path, after "
             "the expression, with the canonical text of the value; Environment::output makes exactly one complete write "
             "(write_fmt / write_all, never a partial `write`) ending in a newline and returns its error")
    rep.rule("C08.R2", "listen: ExecStmt::visit_input calls Environment::input exactly once and before the branch on the "
             "destination; Environment::input makes exactly one read_line into a fresh buffer, propagates its error and "
             "removes at most one trailing '\\n' (String::pop guarded by ends_with('\\n'))")
    rep.rule("C08.R3", "who-may-touch: the stream fields are accessed only by Environment::{raw,input,output}; output_buf is "
             "the bare writer type (no buffering layer to flush); process stdio is touched only in cli/, lib.rs and Environment::new")
    rep.rule("C08.R5", "stream pass-through: every call that hands a reader/writer down the chain run_using -> exec_using -> "
             "Environment::refcell_raw -> Environment::raw instantiates the callee's stream type parameters with the caller's own "
             "stream type parameters (or, in the non-generic constructor, with Stdin/Stdout themselves): no layer (BufWriter, "
             "LineWriter, ...) is put between the caller's stream and the interpreter, so a write reaches the caller's writer, and "
             "its error the interpreter, at the statement that made it")
    rep.rule("C08.R6", "canonical text: in the interpreter no float-to-integer conversion (`as i64` / `as u64`, which saturate, truncate and lose "
             "the sign of zero) is turned into text -- what `say` prints is the f64's own Display (shared with C18.R6)")
    from .c18 import text_from_cast_rule
    text_from_cast_rule(ctx, "C08.R6", scope=lambda fn: fn.file.startswith("src/exec/"), min_fns=60)
    rep.rule("C08.R7", "fault table: KIND interprets Environment::output and Environment::input with every operation of the stream "
             "(std::io::Write / BufRead / Read methods) returning Ok(_) or Err(_) with opaque payloads and every other test forked both ways; in "
             "every outcome in which a stream operation failed the method returns Err, and in every outcome in which none failed it returns "
             "Ok -- no kind of fault (BrokenPipe, a fault in the middle of a line, ...) and no state of the buffer turns a fault into success")
    fault_table_rule(ctx, "C08.R7")
    rep.rule("C08.R4", "ERRFLOW over src/exec: no Result carrying a runtime / I/O error is discarded, defaulted, dropped or "
             "matched without looking at the error")
    rep.trust("std::io::Write::write_fmt / write_all write everything or return an error; BufRead::read_line reads one line")

    env = inherent_methods(F, ENV)
    vo = find_method(F, VP, "visit_output", EXEC)
    vi = find_method(F, VP, "visit_input", EXEC)
    out = env.get("output")
    inp = env.get("input")
    for name, f in (("ExecStmt::visit_output", vo), ("ExecStmt::visit_input", vi), ("Environment::output", out), ("Environment::input", inp)):
        if f is None:
            rep.fail("C08.R1", "anchor::" + name, "%s not found" % name)
    if None in (vo, vi, out, inp):
        return

    # ---- R1a visit_output
    rep.analysed(vo)
    sites = [bi for bi, t in vo.calls() if callee_def(t) == out.path]
    ok, why = exactly_once_on_normal_paths(vo, sites)
    rep.ob("C08.R1", "visit_output::one-output-call", ok, "Environment::output: " + why if not ok else "", vo.loc(), how="dominates every normal return, not repeated")
    if ok:
        bi = sites[0]
        t = vo.term(bi)
        evals = [b for b, tt in vo.calls() if is_callee(tt, "analysis::visit::VisitExpr::visit_expression")]
        tso = [b for b, tt in vo.calls() if is_callee(tt, "exec::val::Val::to_string_for_output")]
        ok2 = bool(evals) and bool(tso) and all(vo.dominates(e, bi) for e in evals) \
            and any(flows_into(vo, s, t["args"][1]) for s in tso) \
            and any(flows_into(vo, e, vo.term(s)["args"][0]) for e in evals for s in tso)
        rep.ob("C08.R1", "visit_output::prints-canonical-text-of-value", ok2,
               "" if ok2 else "the text handed to Environment::output is not to_string_for_output() of the evaluated expression",
               vo.loc(t["line"]), how="output(arg) <- to_string_for_output <- visit_expression(o.value)")
        ok3 = flows_into(vo, bi, {"copy": {"l": 0, "p": []}})
        rep.ob("C08.R1", "visit_output::result-returned", ok3, "" if ok3 else "the result of Environment::output does not reach the return value",
               vo.loc(t["line"]), how="flows into _0")
    # ---- R1b Environment::output
    rep.analysed(out)
    touching = []
    for bi, t in out.calls():
        for a in t["args"]:
            for d, p in origins(out, a):
                if d[0] == "param" and d[1] == 1 and p[:1] == ("output_buf",):
                    touching.append((bi, t))
    writers = [(bi, t) for bi, t in touching if callee_def(t) in COMPLETE_WRITERS]
    others = [(bi, t) for bi, t in touching if callee_def(t) not in COMPLETE_WRITERS and not is_callee(t, "std::io::Write::flush")]
    ok, why = exactly_once_on_normal_paths(out, [bi for bi, _ in writers])
    rep.ob("C08.R1", "output::one-complete-write", ok and not others,
           ("complete write: " + why) if not ok else ("the writer is also handed to %s (a partial or extra write)" % callee_def(others[0][1]) if others else ""),
           out.loc(), how="one write_fmt/write_all on self.output_buf")
    if writers:
        bi, t = writers[0]
        ok = flows_into(out, bi, {"copy": {"l": 0, "p": []}})
        rep.ob("C08.R1", "output::error-returned", ok, "" if ok else "the io::Result of the write does not reach the return value",
               out.loc(t["line"]), how="flows into _0")
        # the line terminator: the format template handed to Arguments::new ends with "\n"
        nl = False
        if callee_def(t) == "std::io::Write::write_fmt":
            for b2, t2 in out.calls():
                if is_callee(t2, "std::fmt::Arguments::<'a>::new", "Arguments::new", "new_const") and t2["args"]:
                    for d, _ in origins(out, t2["args"][0]):
                        if d[0] == "const" and isinstance(d[1], str) and d[1].rstrip('"').endswith("\\n\\x00"):
                            nl = True
        rep.ob("C08.R1", "output::line-terminated", nl, "" if nl else "the written template does not end in a newline (one say = one line)",
               out.loc(t["line"]), how="format template ends with \\n")

    # ---- R2a visit_input
    rep.analysed(vi)
    sites = [bi for bi, t in vi.calls() if callee_def(t) == inp.path]
    ok, why = exactly_once_on_normal_paths(vi, sites)
    rep.ob("C08.R2", "visit_input::one-input-call", ok, "Environment::input: " + why if not ok else "", vi.loc(), how="dominates every normal return, not repeated")
    if ok:
        bi = sites[0]
        # every read of i.dest is dominated by the input call
        reads = [b for f_, b, kind, s in common.field_accesses(F, "frontend::ast::Input", "dest") if f_ is vi]
        ok2 = bool(reads) and all(vi.dominates(bi, b) for b in reads)
        rep.ob("C08.R2", "visit_input::read-before-destination-branch", ok2,
               "" if ok2 else "the destination is inspected before (or without) the line having been read: `listen` without a destination would not consume input",
               vi.loc(), how="input() dominates all reads of Input.dest")
        # what is stored derives from the line read
        conv = [(b, t) for b, t in vi.calls() if is_callee(t, "std::convert::From::from") and "exec::val::Val" in (t["callee"].get("inst") or "")]
        ok3 = any(flows_into(vi, bi, t["args"][0]) for b, t in conv)
        rep.ob("C08.R2", "visit_input::stores-the-line-as-string", ok3, "" if ok3 else "the value written to the destination does not derive from the line read",
               vi.loc(), how="Val::from(input())")
    # ---- R2b Environment::input
    rep.analysed(inp)
    touching = []
    for bi, t in inp.calls():
        for a in t["args"]:
            for d, p in origins(inp, a):
                if d[0] == "param" and d[1] == 1 and p[:1] == ("input_buf",):
                    touching.append((bi, t))
    readers = [(bi, t) for bi, t in touching if callee_def(t) == "std::io::BufRead::read_line"]
    others = [(bi, t) for bi, t in touching if callee_def(t) != "std::io::BufRead::read_line"]
    ok, why = exactly_once_on_normal_paths(inp, [bi for bi, _ in readers])
    # the read happens before any error exit too: it must dominate all returns
    rep.ob("C08.R2", "input::one-read_line", ok and not others,
           ("read_line: " + why) if not ok else ("the reader is also handed to %s" % callee_def(others[0][1]) if others else ""),
           inp.loc(), how="one read_line on self.input_buf")
    if readers:
        rb, rt = readers[0]
        buf_l = None
        for d, p in origins(inp, rt["args"][1]):
            if d[0] == "call" and is_callee(inp.term(d[1]), "std::string::String::new"):
                buf_l = inp.term(d[1])["dest"]["l"]
        rep.ob("C08.R2", "input::fresh-buffer", buf_l is not None, "" if buf_l is not None else "read_line does not read into a fresh String::new()",
               inp.loc(rt["line"]), how="String::new()")
        if buf_l is not None:
            # mutations of the buffer after the read: only String::pop, once, guarded by ends_with('\n')
            muts = []
            for bi, t in inp.calls():
                if bi == rb:
                    continue
                for ai, a in enumerate(t["args"]):
                    pl = op_place(a)
                    if pl is None:
                        continue
                    for d in inp.defs().get(pl["l"], []):
                        if d[0] == "stmt" and "ref" in d[3]["rv"] and d[3]["rv"]["mut"] and d[3]["rv"]["ref"]["l"] == buf_l:
                            muts.append((bi, t))
            # form B: the kept length is that of strip_suffix('\n') of the line (or the whole length), and the buffer is truncated to it
            truncs = [(bi, t) for bi, t in muts if is_callee(t, "std::string::String::truncate")]
            if len(truncs) == 1 and len(muts) == 1:
                tb, tt = truncs[0]
                deep = kind_deep(inp, tt["args"][1])
                strips = [d[1] for d, p in deep if d[0] == "call" and inp.term(d[1])["callee"].get("name") == "strip_suffix"]
                others = sorted({inp.term(d[1])["callee"].get("name") for d, p in deep if d[0] == "call"} - {"strip_suffix", "map_or", "map_or_else", "map", "unwrap_or", "unwrap_or_else", "len", "deref", "as_str", "borrow", "new", "with_capacity", "read_line"})
                okB = len(strips) == 1 and not others and (inp.term(strips[0])["args"][1].get("const") or {}).get("char") == "\n"
                rep.ob("C08.R2", "input::strips-only-one-newline", okB,
                       "" if okB else "the line buffer is truncated to a length that is not `the line without one trailing \\n` (%s)" % (others or "no strip_suffix('\\n')"), inp.loc(), how="truncate(len of strip_suffix('\\n') or the whole length)")
                muts = []
                pops_done = True
            else:
                pops_done = False
            bad = [(bi, t) for bi, t in muts if not is_callee(t, "std::string::String::pop")]
            pops = [(bi, t) for bi, t in muts if is_callee(t, "std::string::String::pop")]
            ok = not bad and len(pops) <= 1
            why = ""
            if bad:
                why = "the line buffer is modified by %s (only one String::pop of a trailing newline is allowed)" % callee_def(bad[0][1])
            elif len(pops) > 1:
                why = "the line buffer is popped at %d sites" % len(pops)
            if ok and pops:
                pb = pops[0][0]
                # control dependent on ends_with(.., '\n') == true
                guards = []
                for bi, t in inp.calls():
                    if is_callee(t, "ends_with") and len(t["args"]) == 2:
                        c = t["args"][1].get("const")
                        if c is not None and c.get("char") == "\n":
                            guards.append((bi, t))
                g_ok = False
                for gb, gt in guards:
                    nxt = gt["t"]
                    sw = inp.term(nxt)
                    if sw["k"] == "switch" and op_local(sw["on"]) == gt["dest"]["l"]:
                        false_t = [tgt for v, tgt in sw["targets"] if v == "0"]
                        true_t = sw["otherwise"]
                        if false_t and pb in inp.reachable(true_t, avoid=[false_t[0]]) and pb not in inp.reachable(false_t[0]):
                            if not (inp.reachable_from_succs(pb) & {pb}):
                                g_ok = True
                if not g_ok:
                    ok, why = False, "String::pop is not guarded by ends_with('\\n') (it may remove a character of the line)"
            if not pops_done:
                rep.ob("C08.R2", "input::strips-only-one-newline", ok, why, inp.loc(), how="pop under ends_with('\\n')")
            # returned value is the buffer
            ret_ok = False
            for bi, si, s in inp.assigns():
                a = s["rv"].get("agg")
                if s["pl"]["l"] == 0 and isinstance(a, dict) and a.get("variant") == "Ok":
                    for d, p in origins(inp, s["rv"]["ops"][0]):
                        if d[0] == "call" and inp.term(d[1])["dest"]["l"] == buf_l:
                            ret_ok = True
            rep.ob("C08.R2", "input::returns-the-line", ret_ok, "" if ret_ok else "Ok(..) does not return the buffer that was read into", inp.loc(), how="Ok(buf)")

    # ---- R3 who may touch
    allowed = {env.get(n).path for n in ("raw", "input", "output") if env.get(n)}
    n_acc = 0
    for field in ("input_buf", "output_buf"):
        for fn, bi, kind, s in common.field_accesses(F, ENV, field):
            n_acc += 1
            top = common.top_fn(F, fn)
            ok = top.path in allowed
            rep.ob("C08.R3", "field::%s::%s" % (field, top.path), ok,
                   "" if ok else "%s accesses Environment.%s (only raw/input/output may)" % (top.path, field), fn.loc(s.get("line")), how="allowed accessor")
        for fn, bi, s in common.aggregates_of(F, ENV):
            top = common.top_fn(F, fn)
            ok = top.path in allowed
            rep.ob("C08.R3", "construct::%s" % top.path, ok, "" if ok else "%s constructs an Environment directly" % top.path, fn.loc(s.get("line")), how="Environment::raw")
    rep.floor("C08.R3", n_acc, 1, "accesses of the stream fields")
    adt = F.adts.get(ENV)
    if adt:
        fields = {f["name"]: F.ty(f["ty"]) for f in adt["variants"][0]["fields"]}
        ob = fields.get("output_buf")
        ok = ob is not None and ob.kind() == "param"
        rep.ob("C08.R3", "type::output_buf-is-bare-writer", ok, "" if ok else "Environment.output_buf is %s: a wrapping layer may hold back output" % (ob.s if ob else "missing"),
               "src/exec/environment.rs", how="field type is the type parameter")
    n_stdio = 0
    for fn, bi, t in common.who_calls(F, lambda c: c["def"] in STDIO):
        n_stdio += 1
        top = common.top_fn(F, fn)
        ok = fn.file.startswith("src/cli/") or fn.file == "src/lib.rs" or top.path.endswith("Environment::<std::io::Stdin, std::io::Stdout>::new")
        rep.ob("C08.R3", "stdio::%s::%s" % (top.path, t["callee"]["name"]), ok,
               "" if ok else "%s uses process stdio (%s) outside the CLI layer" % (top.path, t["callee"]["def"]), fn.loc(t["line"]), how="CLI layer")
    rep.floor("C08.R3.stdio", n_stdio, 2, "stdio uses")

    # ---- R5 stream pass-through (type level)
    n_pass = 0
    chain = ("exec::exec_using", "exec::environment::Environment::<In, Out>::refcell_raw", "exec::environment::Environment::<In, Out>::raw")
    for fn in F.all_bodies(tests=False):
        for bi, t in fn.calls():
            d = t["callee"].get("def") or ""
            if d not in chain:
                continue
            n_pass += 1
            targs = [F.ty(i) for i in (t["callee"].get("targs") or [])]
            top = common.top_fn(F, fn)
            bad = None
            for ty in targs:
                k = ty.kind()
                if k == "param":
                    continue
                if k == "adt" and ty.adt() in ("std::io::Stdin", "std::io::Stdout") and not (ty.d.get("args") or []):
                    continue
                bad = ty.s
            if len(targs) != 2:
                bad = bad or "unexpected generic arguments %s" % [x.s for x in targs]
            rep.ob("C08.R5", "pass-through::%s->%s" % (top.path, d.rsplit("::", 1)[-1]), bad is None,
                   "" if bad is None else "%s hands %s a stream of type %s: a layer between the caller's stream and the interpreter can hold back output and swallow its write error" % (top.path, d, bad),
                   fn.loc(t["line"]), how="callee instantiated with the caller's stream type parameters")
    rep.floor("C08.R5", n_pass, 2, "calls along the stream chain")

    # ---- R4
    n = common.errflow(ctx, "C08.R4", in_exec, exceptions=EXEC_ERRFLOW_EXCEPTIONS)
    rep.floor("C08.R4", n, 100, "error-carrying call results in src/exec")


IO_METHODS = ("std::io::Write::write_fmt", "std::io::Write::write_all", "std::io::Write::write", "std::io::Write::flush",
              "std::io::Write::write_vectored", "std::io::BufRead::read_line", "std::io::BufRead::fill_buf", "std::io::BufRead::read_until",
              "std::io::BufRead::skip_until", "std::io::Read::read", "std::io::Read::read_to_string", "std::io::Read::read_exact",
              "std::io::Read::read_to_end", "std::io::Read::read_buf")


def fault_table_rule(ctx, rule):
    from .. import kind, kindtables as kt
    from ..kind import E
    F, rep = ctx.F, ctx.rep
    RES = "std::result::Result"

    def m_io(tag):
        def m(I, fn, st, t, args, depth):
            yield E(RES, "Ok", ("sym", tag + "_ok")), None, ((("io", tag), "ok"),)
            yield E(RES, "Err", ("sym", tag + "_err")), None, ((("io", tag), "err"),)
        return m
    models = {n: m_io(n.rsplit("::", 1)[-1]) for n in IO_METHODS}
    env = inherent_methods(F, ENV)
    n_out = 0
    for name in ("output", "input"):
        fn = env.get(name)
        if fn is None:
            continue
        rep.analysed(fn)
        I = kind.Interp(F, models=models)
        args = [("sym", "self")] + [("sym", "a%d" % i) for i in range(2, fn.argc + 1)]
        outs = list(I.run(fn, args))
        if I.incomplete:
            rep.fail(rule, "incomplete::" + name, "the interpretation of Environment::%s was cut off: the fault table is not decided" % name, fn.loc())
            continue
        bad = []
        touched = False
        for o in outs:
            io = [(c, tk) for c, tk in o.conds if isinstance(c, tuple) and c and c[0] == "io"]
            if io:
                touched = True
            failed = [c[1] for c, tk in io if tk == "err"]
            ret = kt.term(o.ret)
            if failed and not ret.startswith("Err("):
                bad.append("%s failed but Environment::%s returns %s%s" % (failed[0], name, ret, _other_conds(kt, o)))
            elif not failed and not ret.startswith("Ok("):
                bad.append("no stream operation failed but Environment::%s returns %s%s" % (name, ret, _other_conds(kt, o)))
            n_out += 1
        ok = touched and not bad
        rep.ob(rule, "fault-table::" + name, ok, "" if ok else (bad[0] if bad else "Environment::%s performs no stream operation the table knows" % name), fn.loc(),
               how="%d outcomes: a failed stream operation <=> Err" % len(outs))
    rep.floor(rule, n_out, 4, "outcomes of Environment::{output,input}")


def _other_conds(kt, o):
    rest = []
    for c, tk in o.conds:
        if isinstance(c, tuple) and c and c[0] == "io":
            continue
        try:
            rest.append("%s -> %s" % (kt.term(c), tk))
        except Exception:
            rest.append("%s -> %s" % (c, tk))
    return (" (when " + "; ".join(rest[:3]) + ")") if rest else ""
