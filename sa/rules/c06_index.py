"""C06.R12 -- a number addresses the sequence only if it is an index (imported by c06.py)."""
from ..flow import origins
from ..guards import _dominated_by_edge


def _zero(o):
    c_ = o.get("const")
    return c_ is not None and (c_.get("bits") in ("0", 0) or str(c_.get("f64", "")) in ("0.0", "0", "-0.0") or str(c_.get("int", "")) == "0")


def sign_guarded(fn, bi, operand):
    """is block bi executed only where the float `operand` was compared with 0 and found >= 0 (or > 0)?"""
    src = frozenset((d, p) for d, p in origins(fn, operand) if d[0] != "const")
    for b2, s2, st2 in fn.assigns():
        op = st2["rv"].get("bin")
        if op not in ("ge", "gt", "le", "lt"):
            continue
        a_, b_ = st2["rv"]["a"], st2["rv"]["b"]
        same_a = frozenset((d, p) for d, p in origins(fn, a_) if d[0] != "const") == src
        same_b = frozenset((d, p) for d, p in origins(fn, b_) if d[0] != "const") == src
        if same_a and _zero(b_) and op in ("ge", "gt"):
            want_true = True
        elif same_b and _zero(a_) and op in ("le", "lt"):
            want_true = True
        elif same_a and _zero(b_) and op in ("lt", "le"):
            want_true = False
        elif same_b and _zero(a_) and op in ("gt", "ge"):
            want_true = False
        else:
            continue
        sw = fn.term(b2)
        if sw["k"] != "switch":
            continue
        zero_t = [tg for v, tg in sw["targets"] if v == "0"]
        if not zero_t:
            continue
        tg = sw["otherwise"] if want_true else zero_t[0]
        if tg == bi or _dominated_by_edge(fn, bi, b2, tg):
            return True
    return False


def index_rule(ctx, rule):
    F, rep = ctx.F, ctx.rep
    rep.rule(rule, "a number addresses the sequence only if it is an index: in Array::index and Array::index_or_insert the conversion of the "
             "key to usize (`as`, which maps every negative number and NaN to 0 and drops the fraction) is executed only where the float was "
             "found >= 0 on the dominating edge -- otherwise `x at -1` and `x at 0.5` are element 0 instead of a missing element (mysterious) "
             "/ an invalid key")
    n = 0
    for name in ("index", "index_or_insert"):
        fn = F.fn("exec::val::Array::" + name)
        if fn is None:
            rep.fail(rule, "anchor::" + name, "Array::%s not found" % name)
            continue
        rep.analysed(fn)
        casts = [(bi, si, st) for bi, si, st in fn.assigns() if st["rv"].get("cast") == "FloatToInt"]
        n += len(casts)
        ok = bool(casts) and all(sign_guarded(fn, bi, st["rv"]["a"]) for bi, si, st in casts)
        rep.ob(rule, "index-is-checked::" + name, ok,
               "" if ok else ("D15: Array::%s converts a number key to usize without testing its sign: a negative key (and NaN) saturates to 0 and a fraction is dropped, so "
                              "`x at -1` %s element 0 (`Let I be 0 minus 1`, `Say X at I` prints the first element, not mysterious)" % (name, "reads" if name == "index" else "writes")
                              if casts else "Array::%s no longer converts the key with `as`" % name),
               fn.loc(casts[0][2].get("line")) if casts else fn.loc(), how="key >= 0 on the dominating edge")
    rep.floor(rule, n, 2, "number-key conversions in Array::{index,index_or_insert}")
