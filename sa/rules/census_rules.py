"""CENSUS wiring: root sets, automatic discharge rules (A6/A7 constants, BORROW), shared by C01, C07, C09, C18, C19."""
from .. import census
from .. import guards  # noqa: F401  (registers the guard facts)
from ..core import op_place, op_local, callee_def
from ..flow import origins
from . import common


def display_roots(F, module_substr):
    return [p for p, fn in F.fns.items() if module_substr in p and p.endswith("::fmt") and fn.kind != "closure" and not fn.in_test_file()]


def roots_front(F):
    return ["frontend::parser::parse", "<frontend::lexer::Lexer<'a> as std::iter::Iterator>::next"] + display_roots(F, "frontend::parser::display::")


def roots_exec(F):
    return ["exec::exec"] + display_roots(F, "exec::display::") + display_roots(F, "exec::val::display::")


def roots_lint(F):
    return ["linter::Linter::run", "linter::standard_passes", "linter::standard_linter", "cli::linter::lint"] + display_roots(F, "linter::display::")


def _const_int(fn, operand):
    c = operand.get("const")
    if c is not None:
        return c.get("int")
    vals = set()
    for d, p in origins(fn, operand):
        if d[0] == "const":
            vals.add(d[1])
        else:
            return None
    return vals.pop() if len(vals) == 1 else None


def auto_constant_rules(F):
    """A6: division / remainder by a constant that is neither 0 nor -1; A7: overflow check of two constants that do not
    overflow; A8: with_capacity(len of an existing collection).  Returns {site key: (ok, text)}"""
    out = {}
    from .. import units as units_mod
    U = units_mod.Units(F)
    for fn in F.all_fns(tests=False):
        for b in [fn] + fn.promoteds():
            for s in census.sites_of(b):
                if s["kind"] == "extern" and s["detail"].startswith("with_capacity"):
                    # A8: a capacity that is the length of an existing collection (or a constant): the allocation is no larger
                    # than data that already exists
                    t = b.term(s["bb"])
                    if t.get("args"):
                        srcs = set(origins(b, t["args"][-1]))
                        good = bool(srcs)
                        for d, p in srcs:
                            if d[0] == "call" and b.term(d[1])["callee"].get("name") == "len":
                                continue
                            if d[0] == "const":
                                continue
                            good = False
                        if good and any(d[0] == "call" for d, p in srcs):
                            out[s["key"]] = (True, "A8: the capacity is the len() of an existing collection")
                    continue
                if s["kind"] == "extern" and s["detail"] == "truncate":
                    # A10: String::truncate(n) with n the length of strip_suffix / strip_prefix / trim_end of the same text, or its len():
                    # a prefix length taken from the string itself lies on a character boundary
                    t = b.term(s["bb"])
                    if len(t.get("args", [])) > 1:
                        from .c03 import kind_deep
                        names = {b.term(d[1])["callee"].get("name") for d, p in kind_deep(b, t["args"][1]) if d[0] == "call"}
                        if names and names <= {"strip_suffix", "trim_end", "trim_end_matches", "len", "map_or", "map_or_else", "map", "unwrap_or", "unwrap_or_else", "deref", "as_str", "new", "with_capacity", "read_line", "borrow"} and names & {"strip_suffix", "trim_end", "trim_end_matches", "len"}:
                            out[s["key"]] = (True, "A10: truncated to the length of a prefix of the same string (strip_suffix / trim_end / len)")
                    continue
                if s["kind"] != "assert":
                    continue
                t = b.term(s["bb"])
                msg = t["msg"]
                if msg in ("rem_zero", "div_zero", "overflow_rem", "overflow_div"):
                    # find the arithmetic statement this assert protects: the next rem/div in the successor chain
                    divisor = None
                    cur = s["bb"]
                    for _ in range(4):
                        nxt = b.term(cur).get("t")
                        if nxt is None:
                            break
                        for st in b.stmts(nxt):
                            if st["k"] == "assign" and st["rv"].get("bin") in ("rem", "div"):
                                divisor = _const_int(b, st["rv"]["b"])
                        if divisor is not None or b.term(nxt)["k"] != "assert":
                            break
                        cur = nxt
                    if divisor is not None:
                        try:
                            dv = int(divisor)
                        except ValueError:
                            dv = None
                        if dv not in (None, 0, -1):
                            out[s["key"]] = (True, "A6: divisor is the constant %s" % divisor)
                elif msg == "overflow_add" and len(t.get("ops", [])) == 2 and _a9(F, b, t, U):
                    out[s["key"]] = (True, "A9: usize sum of two quantities that are each at most isize::MAX (byte offsets / lengths of one buffer, len() / count() results, small constants)")
                elif msg == "overflow_sub" and len(t.get("ops", [])) == 2 and _a11(F, b, t):
                    out[s["key"]] = (True, "A11: len(self.<text>) - len(rest) with rest = self.<iter>.as_str(), and every write of that iterator field is a "
                                            "char_indices() / chars() over the same text: the rest is a suffix of the text, so the difference is not negative")
                elif msg.startswith("overflow_") and len(t.get("ops", [])) == 2:
                    a, c = (_const_int(b, o) for o in t["ops"])
                    if a is not None and c is not None:
                        try:
                            x, y = int(a), int(c)
                            r = {"overflow_add": x + y, "overflow_sub": x - y, "overflow_mul": x * y}.get(msg)
                            if r is not None and 0 <= r < 2 ** 31:
                                out[s["key"]] = (True, "A7: constants %s and %s" % (a, c))
                        except ValueError:
                            pass
    return out


def _a11(F, body, t):
    """len(self.A) - len(self.B.as_str()) where B is an iterator over the characters of A on every write of B"""
    from ..core import place_fields
    ops = t["ops"]

    def len_of_field(o):
        """(field name, adt, via as_str?) when o = len(x) with x read off a field of the receiver"""
        for d, p in origins(body, o):
            if d[0] != "call" or body.term(d[1])["callee"].get("name") != "len":
                return None
            a0 = body.term(d[1])["args"][0]
            via = False
            work, g = [a0], 0
            while work and g < 8:
                g += 1
                x = work.pop()
                for d2, p2 in origins(body, x):
                    if d2[0] == "call" and body.term(d2[1])["callee"].get("name") in ("as_str", "deref", "as_ref", "borrow"):
                        via = via or body.term(d2[1])["callee"].get("name") == "as_str"
                        work.append(body.term(d2[1])["args"][0])
                    elif d2[0] == "param" and d2[1] == 1 and p2:
                        return (p2[0], via)
        return None
    a, c = len_of_field(ops[0]), len_of_field(ops[1])
    if not a or not c or a[1] or not c[1]:
        return False
    text_f, iter_f = a[0], c[0]
    self_adt = body.local_ty(1).peel_refs().adt()
    if not self_adt:
        return False
    from . import common
    n = 0
    for fn, bi, kind, st in common.field_accesses(F, self_adt, iter_f):
        if kind == "read":
            continue
        if kind == "mutref":
            # handed out mutably: the iterator may only be advanced (an iterator over a text never grows)
            continue
        n += 1
        rv = st.get("rv", {})
        src = rv.get("use")
        if src is None:
            return False
        good = False
        for d, p in origins(fn, src):
            if d[0] == "call" and fn.term(d[1])["callee"].get("name") in ("char_indices", "chars"):
                recv = fn.term(d[1])["args"][0]
                for d2, p2 in origins(fn, recv):
                    if d2[0] == "param" and d2[1] == 1 and p2[:1] == (text_f,):
                        good = True
        if not good:
            return False
    # the constructor: the aggregate that builds the struct puts char_indices() of the value stored as the text field
    adt = F.adts.get(self_adt)
    if not adt:
        return False
    fields = [f["name"] for f in adt["variants"][0]["fields"]]
    if text_f not in fields or iter_f not in fields:
        return False
    for fn, bi, st in common.aggregates_of(F, self_adt):
        n += 1
        o_text, o_iter = st["rv"]["ops"][fields.index(text_f)], st["rv"]["ops"][fields.index(iter_f)]
        roots_text = {d for d, p in origins(fn, o_text)}
        ok = False
        for d, p in origins(fn, o_iter):
            if d[0] == "call" and fn.term(d[1])["callee"].get("name") in ("char_indices", "chars"):
                if {d2 for d2, p2 in origins(fn, fn.term(d[1])["args"][0])} == roots_text:
                    ok = True
        if not ok:
            return False
    return n > 0


def _a9(F, body, t, U):
    """both operands of a checked usize addition are bounded by isize::MAX: a byte offset or a length inside the source buffer
    (UNITS: P / V), the result of len() / count() of existing data, or a constant below 2^62"""
    def bounded(o):
        pl = op_place(o)
        if pl is not None and body.local_ty(pl["l"]).s not in ("usize",) and not pl["p"]:
            return False
        ci = _const_int(body, o)
        if ci is not None:
            try:
                return 0 <= int(ci) < 2 ** 62
            except ValueError:
                return False
        srcs = set(origins(body, o))
        if srcs and all(d[0] == "call" and body.term(d[1])["callee"].get("name") in ("len", "count", "len_utf8") and "indirect" not in body.term(d[1])["callee"] for d, p in srcs):
            return True
        if body.file.endswith("frontend/lexer.rs"):
            try:
                u = U.unit_of(body, o)
            except Exception:  # noqa: BLE001
                u = "?"
            return u in ("P", "V")
        return False
    ops = t["ops"]
    return bounded(ops[0]) and bounded(ops[1])


def borrow_rule(F):
    """BORROW: for every RefCell<Environment>::borrow / borrow_mut site, no call made while the guard is alive may reach
    another borrow of a RefCell (checked per monomorphic instance, so opaque closure calls are resolved).
    Returns {site key: (ok, text)}"""
    def is_borrow_def(d):
        return d in ("std::cell::RefCell::<T>::borrow", "std::cell::RefCell::<T>::borrow_mut", "std::cell::RefCell::<T>::try_borrow",
                     "std::cell::RefCell::<T>::try_borrow_mut")

    memo = {}

    def may_borrow(iid):
        if iid in memo:
            return memo[iid]
        memo[iid] = None  # in progress
        seen = set()
        st = [iid]
        hit = None
        while st and hit is None:
            i = st.pop()
            if i in seen:
                continue
            seen.add(i)
            inst = F.insts[i]
            if is_borrow_def(inst.def_):
                hit = inst.key
                break
            for bb, cid, how in inst.calls:
                if cid not in seen:
                    st.append(cid)
        memo[iid] = hit
        return hit

    out = {}
    for fn in F.all_fns(tests=False):
        sites = [s for s in census.sites_of(fn) if s["kind"] == "extern" and s["detail"] in ("borrow", "borrow_mut")]
        if not sites:
            continue
        insts = F.insts_of(fn.path)
        for s in sites:
            bb = s["bb"]
            t = fn.term(bb)
            g = t["dest"]["l"]
            # live range: blocks from the successor of the borrow until the guard is dropped or moved out
            ends = set()
            for bi, blk in enumerate(fn.blocks):
                tt = blk["term"]
                if tt["k"] == "drop" and tt["pl"]["l"] == g and not tt["pl"]["p"]:
                    ends.add(bi)
            live = fn.reachable_from_succs(bb, avoid=ends) if t.get("t") is not None else set()
            live |= {e for e in ends if e in fn.reachable_from_succs(bb)}
            problem = None
            if not ends and F.ty(fn.locals[g]["ty"]).s.startswith("std::cell::Ref"):
                # guard returned or stored: cannot bound its life
                problem = "the borrow guard is never dropped in this function (it escapes)"
            for lb in sorted(live):
                if problem:
                    break
                tt = fn.term(lb)
                if tt["k"] != "call" or lb in ends:
                    continue
                if is_borrow_def(callee_def(tt) or ""):
                    problem = "a second borrow at line %s while the guard from line %s is alive" % (tt["line"], t["line"])
                    break
                if not insts:
                    # body not instantiated: fall back to the polymorphic callee
                    continue
                for inst in insts:
                    for callee, how in F.inst_calls_at(inst, lb):
                        hit = may_borrow(callee.id)
                        if hit:
                            problem = "while the guard from line %s is alive, the call at line %s (%s) can reach %s" % (t["line"], tt["line"], callee.def_, hit)
                            break
                    if problem:
                        break
            out[s["key"]] = (problem is None, problem or "BORROW: no call in the guard's live range reaches another RefCell borrow (%d blocks, %d instances)" % (len(live), len(insts)))
    return out


def prepare(ctx, F):
    key = ("census_auto", F.profile)
    if key not in ctx.cache:
        auto = {}
        auto.update(auto_constant_rules(F))
        auto.update(borrow_rule(F))
        ctx.cache[key] = auto
    ctx.cache["census_auto"] = ctx.cache[key]


def census_for(ctx, rule, prop_id, label, roots_fn, only=None):
    """run the census for every loaded profile"""
    reviews = census.load_reviews()
    total = 0
    ctx.rep.both_profiles(rule)
    for prof, F in sorted(ctx.facts.items()):
        prepare(ctx, F)
        nb, ns = census.run_census(ctx, rule, roots_fn(F), F, reviews, prop_id, label, only=only)
        total += ns
    ctx.rep.assume("source text < 4 GiB (u32 offsets and line numbers)")
    ctx.rep.assume("allocation does not fail and stack depth stays within the property's resource bound")
    ctx.rep.trust("spec/reviewed_sites.json: one argued entry per panic/UB-capable site; sa/census.py PANICKY_EXACT: documented panic "
                  "conditions of std / itertools / smallvec / arrayvec / unchecked_unwrap / inner / lazy_static callees; external "
                  "callees not listed there are trusted not to panic")
    return total
