"""C19 — lint reports are complete, ordered by line, and linting never fails."""
from ..props import prop
from . import common
from . import census_rules as cr
from .c18 import in_linter


@prop("C19")
def c19(ctx):
    rep = ctx.rep
    rep.rule("C19.R1", "CENSUS (shared with C18.R3): linting is panic-free: every panic/UB-capable construct reachable from "
             "Linter::run / standard_passes / cli::linter::lint is discharged, in both profiles")
    n = cr.census_for(ctx, "C19.R1", "C19", "linting", cr.roots_lint, only=in_linter)
    rep.floor("C19.R1", n, 8, "census sites (both profiles)")


from .. import kind, kindtables as kt, tables  # noqa: E402
from ..kind import E, is_e, c as kc  # noqa: E402
from ..core import callee_def, op_local, op_place  # noqa: E402
from ..flow import origins  # noqa: E402
from .common import find_method, is_callee, flows_into  # noqa: E402
from .c03 import kind_deep  # noqa: E402
from .c06 import type_closure, INTERIOR  # noqa: E402

LB = "linter::ListBuilder"
MP = "linter::passes::missed_pronoun::MissedPronounPassImpl"
VE = "analysis::visit::VisitExpr"
OPT = "std::option::Option"


def structure_rules(ctx):
    F, rep = ctx.F, ctx.rep
    rep.rule("C19.R2", "the program cannot be modified: Linter::run takes &Program and the closure of Program (through Vec, Box, Arc, Option and "
             "the fields of the syntax tree) contains no interior mutability")
    rep.rule("C19.R3", "ordering: postprocess sorts with the stable slice::sort_by_key on the line; passes are combined in iter_mut() order "
             "(no reversal); ListBuilder::combine keeps everything, self first: KIND gives the 3x3 table for the early returns, and in the "
             "merging part every push / extend appends elements of `other` to a vector that comes from `self`")
    rep.rule("C19.R4", "repeated-identifier rule: match_or_update reports exactly when it is not visiting a callee name and the name equals the "
             "previous mention, and records the name as previous mention otherwise (KIND table over the flag x {no previous, equal, "
             "different}); visit_function_call sets the flag only around the callee name and clears it before the arguments; the "
             "diagnostic carries the line of the mention")
    # ---- R2
    run = F.fn("linter::Linter::run")
    if run is None:
        rep.fail("C19.R2", "anchor", "linter::Linter::run not found")
    else:
        rep.analysed(run)
        ty = run.local_ty(2)
        ok = ty.kind() == "ref" and not ty.d.get("mut") and ty.inner().adt() == "frontend::ast::Program"
        rep.ob("C19.R2", "run-takes-shared-program", ok, "" if ok else "Linter::run takes %s" % ty.s, run.loc(), how="&Program")
        if ok:
            clo = type_closure(F, ty.inner())
            bad = [t.s for t in clo.values() if (t.kind() == "adt" and t.adt().startswith(INTERIOR)) or t.kind() in ("ptr",)]
            rep.ob("C19.R2", "program-has-no-interior-mutability", not bad, "" if not bad else "the syntax tree contains %s: a pass could change the program through &Program" % bad[0], run.loc(),
                   how="%d types in the closure of Program" % len(clo))
        revs = [1 for b in F.with_closures(run) for bi, t in b.calls() if t["callee"].get("name") in ("rev", "sort", "sort_by", "sort_unstable") and "indirect" not in t["callee"]]
        ca = [(bi, t) for bi, t in run.calls() if callee_def(t) == "analysis::visit::combine_all"]
        im = [(bi, t) for bi, t in run.calls() if t["callee"].get("name") == "iter_mut" and "indirect" not in t["callee"]]
        ok = not revs and len(ca) == 1 and len(im) == 1 and flows_into(run, im[0][0], ca[0][1]["args"][0])
        rep.ob("C19.R3", "passes-in-order", ok, "" if ok else "the pass results are not combined in the order of the pass list", run.loc(), how="combine_all(passes.iter_mut().map(run pass))")
        pp = [(bi, t) for bi, t in run.calls() if callee_def(t) == "linter::postprocess"]
        ok = len(pp) == 1 and pp[0][1]["dest"]["l"] == 0
        rep.ob("C19.R3", "result-is-postprocessed", ok, "" if ok else "Linter::run does not return postprocess(all diagnostics)", run.loc(), how="postprocess(..)")
    pf = F.fn("linter::postprocess")
    if pf is None:
        rep.fail("C19.R3", "anchor::postprocess", "linter::postprocess not found")
    else:
        rep.analysed(pf)
        sorts = [(bi, t) for bi, t in pf.calls() if t["callee"].get("name", "").startswith(("sort", "sorted")) and "indirect" not in t["callee"]]
        STABLE = ("sort", "sort_by", "sort_by_key", "sort_by_cached_key")
        ok = len(sorts) == 1 and sorts[0][1]["callee"]["name"] in STABLE
        key_ok = ok and common.sort_key_fields(F, pf, sorts[0][1]) == {"line"}
        rep.ob("C19.R3", "stable-sort-by-line", ok and key_ok, "" if ok and key_ok else "the report is not sorted with a stable sort on the line alone: ties would not keep pass order", pf.loc(), how="stable sort by line")
    # ListBuilder::combine
    comb = None
    for p, fn in F.fns.items():
        if p.startswith("<linter::ListBuilder<T> as analysis::visit::Combine>::combine") and fn.kind != "closure":
            comb = fn
    if comb is None:
        rep.fail("C19.R3", "anchor::combine", "impl Combine for ListBuilder not found")
    else:
        rep.analysed(comb)
        I = kind.Interp(F)
        shapes = {"Empty": E(LB, "Empty"), "One": E(LB, "One", ("sym", "x")), "List": E(LB, "List", ("sym", "xs"))}

        def ren(v, who):
            if v[2] == "Empty":
                return v
            return E(LB, v[2], ("sym", who + "." + v[3][0][1]))
        rep.exhaustive["listbuilder_combine"] = True
        for sa_, a in shapes.items():
            for sb_, b in shapes.items():
                outs = {kt.term(o.ret) for o in I.run(comb, [ren(a, "self"), ren(b, "other")])}
                key = "combine::%s+%s" % (sa_, sb_)
                if sb_ == "Empty":
                    want = {kt.term(ren(a, "self"))}
                    ok = outs == want
                elif sa_ == "Empty":
                    want = {kt.term(ren(b, "other"))}
                    ok = outs == want
                else:
                    want = {"List(..)"}
                    ok = all(o.startswith("List(") for o in outs) and bool(outs)
                rep.ob("C19.R3", key, ok, "" if ok else "combine(%s, %s) yields %s, expected %s" % (sa_, sb_, sorted(outs), sorted(want)), comb.loc(), how=str(sorted(want)))
        # merging part: appended elements come from `other`, the vector appended to comes from `self`
        n_app = 0
        for bi, t in comb.calls():
            name = t["callee"].get("name") if "indirect" not in t["callee"] else None
            if name not in ("push", "extend", "append", "insert", "push_front", "extend_from_slice"):
                continue
            n_app += 1
            dst = kind_deep(comb, t["args"][0])
            src = kind_deep(comb, t["args"][-1])
            d_self = any(d[0] == "param" and d[1] == 1 for d, _ in dst) and not any(d[0] == "param" and d[1] == 2 for d, _ in dst)
            s_other = any(d[0] == "param" and d[1] == 2 for d, _ in src) and not any(d[0] == "param" and d[1] == 1 for d, _ in src)
            ok = d_self and s_other and name in ("push", "extend", "append", "extend_from_slice")
            rep.ob("C19.R3", "combine::appends-other-after-self#%d" % n_app, ok,
                   "" if ok else "combine appends with %s: destination from %s, elements from %s: diagnostics of `self` would not stay in front of those of `other`" % (
                       name, "self" if d_self else "other/unknown", "other" if s_other else "self/unknown"), comb.loc(t["line"]), how="self's vector .%s(other's elements)" % name)
        rep.floor("C19.R3.appends", n_app, 1, "append operations in combine")
    # ---- R4
    mu = F.fn(MP + "::match_or_update")
    if mu is None:
        rep.fail("C19.R4", "anchor::match_or_update", "MissedPronounPassImpl::match_or_update not found")
    else:
        rep.analysed(mu)

        def m_eq(I_, f, st, t, args, depth):
            # `last == Some(name)` on the Options decides by shape first; only a comparison of two names is enumerated
            r = kind.eq_descend(I_.deref_value(st, args[0]), I_.deref_value(st, args[1]))
            if r[0] == "const":
                yield kc(r[1]), None, ()
                return
            yield kc(True), None, ((("same-name",), "T"),)
            yield kc(False), None, ((("same-name",), "F"),)
        I = kind.Interp(F, models={"std::cmp::PartialEq::eq": m_eq})
        rep.exhaustive["match_or_update"] = True
        for flag in (True, False):
            for last in ("None", "Some"):
                lastv = E(OPT, "None") if last == "None" else E(OPT, "Some", ("sym", "prev"))
                selfv = E(MP, "MissedPronounPassImpl", lastv, kc(flag))
                res = set()
                for o in I.run(mu, [selfv, ("sym", "name")]):
                    same = [tk for ct, tk in o.conds if ct == ("same-name",)]
                    after = o.refs.get(1)
                    new_last = kt.term(after[3][0]) if after and is_e(after, MP) else "?"
                    res.add((same[0] if same else "-", kt.term(o.ret), new_last))
                key = "match_or_update::in_call=%s,last=%s" % (flag, last)
                if last == "None":
                    want = {("-", "False", "Some(name)")}
                elif flag:
                    want = {("T", "False", "Some(name)"), ("F", "False", "Some(name)"), ("-", "False", "Some(name)")}
                    res = {r for r in res}
                else:
                    want = {("T", "True", "Some(prev)"), ("F", "False", "Some(name)")}
                ok = res == want or (flag and last == "Some" and res <= want and res)
                rep.ob("C19.R4", key, bool(ok), "" if ok else "match_or_update gives %s, the rule is %s" % (sorted(res), sorted(want)), mu.loc(), how=str(sorted(want)))
    vfc = find_method(F, VE, "visit_function_call", MP)
    vvn = find_method(F, VE, "visit_variable_name", MP)
    if vfc is None or vvn is None:
        rep.fail("C19.R4", "anchor::visitors", "MissedPronounPassImpl::visit_function_call / visit_variable_name not found")
    else:
        rep.analysed(vfc)
        from ..guards import g_in_function_call
        ok, why = g_in_function_call(ctx, F, vfc, None)
        rep.ob("C19.R4", "flag-only-around-callee-name", ok, why, vfc.loc(), how="true; visit name; false; then the arguments")
        rep.analysed(vvn)
        # outcome table by KIND (whatever idiom: then/unwrap_or_default, if/else, match): a diagnostic for (this name, the line of
        # this mention) exactly when match_or_update reports, nothing otherwise
        def m_mu(I_, f, st, t, args, depth):
            yield kc(True), None, ((("match",), "T"),)
            yield kc(False), None, ((("match",), "F"),)

        def m_bd(I_, f, st, t, args, depth):
            yield ("call", "diag", tuple(kind._short(a_) for a_ in args)), None, ()

        def m_line(I_, f, st, t, args, depth):
            yield ("call", "line", (kind._short(args[0]),)), None, ()
        I2 = kind.Interp(F, models={MP + "::match_or_update": m_mu, "linter::passes::missed_pronoun::build_diag": m_bd, "frontend::source_range::Line::line": m_line})
        n_ = E("frontend::ast::WithRange", "WithRange", ("sym", "name"), ("sym", "range"))
        got = set()
        for o in I2.run(vvn, [("sym", "self"), n_]):
            m_ = [tk for ct, tk in o.conds if ct == ("match",)]
            got.add((m_[0] if m_ else "-", kt.term(o.ret)))
        want = {("T", "Ok(diag(name,line(WithRange(name,range))))"), ("F", "Ok(Empty)")}
        ok = got == want and not I2.incomplete
        rep.ob("C19.R4", "diag-iff-match-at-line-of-mention", ok, "" if ok else "visit_variable_name yields %s; the rule is: the diagnostic for (this name, the line of this mention) exactly when match_or_update reports, else nothing" % sorted(got), vvn.loc(),
               how="match -> Ok(build_diag(name, n.line())), no match -> Ok(Empty)")


_c19_census = c19


def same_name_rule(ctx, rule):
    """the repeated-identifier test is the spelling-exact, derived equality of VariableName"""
    from ..core import callee_def
    F, rep = ctx.F, ctx.rep
    fn = F.fn("linter::passes::missed_pronoun::MissedPronounPassImpl::match_or_update")
    if fn is None:
        rep.fail(rule, "anchor::match_or_update", "MissedPronounPassImpl::match_or_update not found")
        return
    rep.analysed(fn)
    bodies = [b for b in common.bodies_with_helpers(F, fn, depth=1) if b.file == fn.file]
    eqs = [t for b in bodies for bi, t in b.calls() if callee_def(t) == "std::cmp::PartialEq::eq" and "VariableName" in (t["callee"].get("inst") or "")]
    other_cmp = sorted({(t["callee"].get("name") or "?") for b in bodies for bi, t in b.calls()
                        if (t["callee"].get("name") or "") in ("to_lowercase", "to_uppercase", "eq_ignore_ascii_case", "to_ascii_lowercase", "to_ascii_uppercase", "render", "to_string", "cmp", "partial_cmp")
                        or (callee_def(t) == "std::cmp::PartialEq::eq" and "VariableName" not in (t["callee"].get("inst") or ""))})
    ok = len(eqs) == 1 and not other_cmp
    rep.ob(rule, "same-name-is-derived-VariableName-equality", ok,
           "" if ok else "match_or_update decides `the same name` with %s instead of exactly one derived VariableName equality: two mentions that are spelled differently (letter case, name kind) are reported as a repetition, or the reverse" % (other_cmp or "%d comparisons" % len(eqs)),
           fn.loc(), how="last == name (derived PartialEq of VariableName), nothing else")


def fresh_state(ctx, rule="C19.R6"):
    """C19.R6 / C10.R4: what a pass remembers during a walk does not survive into the next Linter::run"""
    F, rep = ctx.F, ctx.rep
    from .c06 import type_closure
    from ..core import place_fields
    rep.rule(rule, "fresh state per run: every field of a lint pass (or of what it contains) that is written while walking a program is "
             "re-initialised by a Pass method that Linter::run calls on that pass before visit_program, on every path (whole-value "
             "overwrite from the constructor, or a write of each such field); otherwise the second program linted with one Linter "
             "is judged against what the first one left behind (Linter::run takes &mut self and is public)")
    run = F.fn("linter::Linter::run")
    if run is None:
        rep.fail(rule, "anchor::Linter::run", "Linter::run not found")
        return
    rep.analysed(run)
    pass_impls = [im for im in F.impls if im.get("trait") == "linter::Pass"]
    # calls of Pass methods that dominate the visit_program call, per body of Linter::run
    # (in Linter::run itself, its closures, and the private helpers of the same file it hands the pass to; a method counts only if
    # it precedes *every* walk)
    pre_methods = None
    n_vp = 0
    for body in [b for b in common.bodies_with_helpers(F, run, depth=1) if b.file == run.file]:
        vps = [(bi, t) for bi, t in body.calls() if t["callee"].get("name") == "visit_program"]
        for vb, vt in vps:
            n_vp += 1
            here = set()
            for bi, t in body.calls():
                c = t["callee"]
                if bi != vb and body.dominates(bi, vb) and (c.get("trait") == "linter::Pass" or (c.get("def") or "").startswith("linter::Pass::")):
                    r1 = {d for d, p in origins(body, t["args"][0])}
                    r2 = {d for d, p in origins(body, vt["args"][0])}
                    if r1 == r2:
                        here.add(c.get("name"))
            pre_methods = here if pre_methods is None else (pre_methods & here)
    pre_methods = pre_methods or set()
    rep.floor("C19.R6.run", n_vp, 1, "visit_program calls in Linter::run")
    n = 0
    for im in pass_impls:
        ty = F.ty(im["self_ty"])
        adts = {t.adt() for t in type_closure(F, ty).values() if t.kind() == "adt" and t.adt() in F.adts}
        state = set()
        for fn in F.all_bodies(tests=False):
            if fn.is_derived():
                continue
            for bi, si, st in fn.assigns():
                pf = place_fields(st["pl"])
                if pf and pf[-1][0] in adts:
                    state.add((pf[-1][0], pf[-1][1]))
                rv = st["rv"]
                if "ref" in rv and rv.get("mut"):
                    pf = place_fields(rv["ref"])
                    if pf and pf[-1][0] in adts:
                        fty = F.ty(_field_ty(F, pf[-1][0], pf[-1][1]))
                        # a mutable borrow of a container (a local struct, a type parameter) is not a write of its own
                        if not (fty.kind() == "param" or (fty.kind() == "adt" and fty.adt() in F.adts)):
                            state.add((pf[-1][0], pf[-1][1]))
        methods = {m["name"]: m["def"] for m in im["methods"]}
        resets = [F.fn(methods[m]) for m in sorted(pre_methods) if m in methods and F.fn(methods[m]) is not None]
        covered = set()
        whole = False
        for rf in resets:
            rep.analysed(rf)
            for bi, si, st in rf.assigns():
                pl = st["pl"]
                if pl["l"] == 1 and pl["p"] == ["deref"] and all(rf.dominates(bi, r) or bi == r for r in rf.return_blocks()):
                    whole = True
                pf = place_fields(pl)
                if pf and pf[-1][0] in adts and all(rf.dominates(bi, r) or bi == r for r in rf.return_blocks()):
                    covered.add((pf[-1][0], pf[-1][1]))
            for bi, t in rf.calls():
                d = t["dest"]
                if d["l"] == 1 and d["p"] == ["deref"] and all(rf.dominates(bi, r) for r in rf.return_blocks()):
                    whole = True
        short = ty.s.replace("analysis::visit::", "").replace("linter::passes::", "")
        if not state:
            n += 1
            rep.ob(rule, "stateless::%s" % short, True, "", "%s:%s" % (im["file"], im["lo"]), how="no field of the pass is written during a walk")
        for adt, f in sorted(state):
            n += 1
            if not whole and (adt, f) not in covered and _restored(F, adt, f):
                rep.ob(rule, "state-survives::%s.%s" % (adt, f), True, "", "%s:%s" % (im["file"], im["lo"]),
                       how="every function that writes it leaves it at the constant the constructor gives it")
                continue
            ok = whole or (adt, f) in covered
            rep.ob(rule, "state-survives::%s.%s" % (adt, f), ok,
                   "" if ok else "%s.%s is written while a program is walked and nothing re-initialises it before the next walk: Linter::run calls %s on the pass before visit_program, and %s has %s" % (
                       adt.rsplit("::", 1)[-1], f, sorted(pre_methods) or "no Pass method", short, "no such method of its own" if not resets else "a method that does not overwrite it on every path"),
                   "%s:%s" % (im["file"], im["lo"]), how="re-initialised by %s before every walk" % (sorted(pre_methods),))
    rep.floor(rule, n, 2, "lint passes")


def _restored(F, adt, field):
    """every writer leaves the field, on every path to its return, at the constant the constructors give it"""
    from ..core import place_fields
    idx = None
    for v in F.adts[adt]["variants"]:
        for i, f in enumerate(v["fields"]):
            if f["name"] == field:
                idx = i
    init = set()
    for fn, bi, st in common.aggregates_of(F, adt):
        ops = st["rv"]["ops"]
        if idx is None or idx >= len(ops) or "const" not in ops[idx]:
            return False
        cst = ops[idx]["const"]
        init.add(str(cst.get("v", cst.get("int", cst))))
    if len(init) != 1:
        return False
    for fn in F.all_bodies(tests=False):
        if fn.is_derived():
            continue
        ws = []
        for bi, si, st in fn.assigns():
            pf = place_fields(st["pl"])
            if pf and pf[-1][0] == adt and pf[-1][1] == field:
                ws.append((bi, si, st))
        if not ws:
            continue
        wblocks = {bi for bi, _, _ in ws}
        for bi, si, st in ws:
            # an exit write: a return is reachable without passing another write of the field (later in the block or in another block)
            later_same = any(b2 == bi and s2 > si for b2, s2, _ in ws)
            if later_same:
                continue
            reach = fn.reachable_from_succs(bi, avoid=wblocks - {bi})
            if not (set(fn.return_blocks()) & reach) and bi not in fn.return_blocks():
                continue
            use = st["rv"].get("use")
            cst = use.get("const") if isinstance(use, dict) else None
            if cst is None or str(cst.get("v", cst.get("int", cst))) not in init:
                return False
    return True


def _field_ty(F, adt, field):
    for v in F.adts[adt]["variants"]:
        for f in v["fields"]:
            if f["name"] == field:
                return f["ty"]
    return 0


@prop("C19")
def c19_full(ctx):
    _c19_census(ctx)
    structure_rules(ctx)
    fresh_state(ctx)
    ctx.rep.rule("C19.R7", "`spells the same name`: the repeated-identifier pass compares the previous and the current mention with the derived "
             "(spelling-exact, kind-exact) equality of VariableName and with nothing else -- no case folding, no rendering to text")
    same_name_rule(ctx, "C19.R7")
