"""C19 — lint reports are complete, ordered by line, and linting never fails."""
from ..props import prop
from . import common
from . import census_rules as cr
from .c18 import in_linter


@prop("C19")
def c19(ctx):
    rep = ctx.rep
    rep.rule("C19.R1", "CENSUS (shared with C18.R3): linting is panic-free: every panic/UB-capable construct reachable from "
             "Linter::run / standard_passes / cli::linter::lint is discharged, in both profiles")
    n = cr.census_for(ctx, "C19.R1", "C19", "linting", cr.roots_lint, only=in_linter)
    rep.floor("C19.R1", n, 12, "census sites (both profiles)")
