"""C19 — lint reports are complete, ordered by line, and linting never fails."""
from ..props import prop
from . import common
from . import census_rules as cr
from .c18 import in_linter


@prop("C19")
def c19(ctx):
    rep = ctx.rep
    rep.rule("C19.R1", "CENSUS (shared with C18.R3): linting is panic-free: every panic/UB-capable construct reachable from "
             "Linter::run / standard_passes / cli::linter::lint is discharged, in both profiles")
    n = cr.census_for(ctx, "C19.R1", "C19", "linting", cr.roots_lint, only=in_linter)
    rep.floor("C19.R1", n, 12, "census sites (both profiles)")


from .. import kind, kindtables as kt, tables  # noqa: E402
from ..kind import E, is_e, c as kc  # noqa: E402
from ..core import callee_def, op_local, op_place  # noqa: E402
from ..flow import origins  # noqa: E402
from .common import find_method, is_callee, flows_into  # noqa: E402
from .c03 import kind_deep  # noqa: E402
from .c06 import type_closure, INTERIOR  # noqa: E402

LB = "linter::ListBuilder"
MP = "linter::passes::missed_pronoun::MissedPronounPassImpl"
VE = "analysis::visit::VisitExpr"
OPT = "std::option::Option"


def structure_rules(ctx):
    F, rep = ctx.F, ctx.rep
    rep.rule("C19.R2", "the program cannot be modified: Linter::run takes &Program and the closure of Program (through Vec, Box, Arc, Option and "
             "the fields of the syntax tree) contains no interior mutability")
    rep.rule("C19.R3", "ordering: postprocess sorts with the stable slice::sort_by_key on the line; passes are combined in iter_mut() order "
             "(no reversal); ListBuilder::combine keeps everything, self first: KIND gives the 3x3 table for the early returns, and in the "
             "merging part every push / extend appends elements of `other` to a vector that comes from `self`")
    rep.rule("C19.R4", "repeated-identifier rule: match_or_update reports exactly when it is not visiting a callee name and the name equals the "
             "previous mention, and records the name as previous mention otherwise (KIND table over the flag x {no previous, equal, "
             "different}); visit_function_call sets the flag only around the callee name and clears it before the arguments; the "
             "diagnostic carries the line of the mention")
    # ---- R2
    run = F.fn("linter::Linter::run")
    if run is None:
        rep.fail("C19.R2", "anchor", "linter::Linter::run not found")
    else:
        rep.analysed(run)
        ty = run.local_ty(2)
        ok = ty.kind() == "ref" and not ty.d.get("mut") and ty.inner().adt() == "frontend::ast::Program"
        rep.ob("C19.R2", "run-takes-shared-program", ok, "" if ok else "Linter::run takes %s" % ty.s, run.loc(), how="&Program")
        if ok:
            clo = type_closure(F, ty.inner())
            bad = [t.s for t in clo.values() if (t.kind() == "adt" and t.adt().startswith(INTERIOR)) or t.kind() in ("ptr",)]
            rep.ob("C19.R2", "program-has-no-interior-mutability", not bad, "" if not bad else "the syntax tree contains %s: a pass could change the program through &Program" % bad[0], run.loc(),
                   how="%d types in the closure of Program" % len(clo))
        revs = [1 for b in F.with_closures(run) for bi, t in b.calls() if t["callee"].get("name") in ("rev", "sort", "sort_by", "sort_unstable") and "indirect" not in t["callee"]]
        ca = [(bi, t) for bi, t in run.calls() if callee_def(t) == "analysis::visit::combine_all"]
        im = [(bi, t) for bi, t in run.calls() if t["callee"].get("name") == "iter_mut" and "indirect" not in t["callee"]]
        ok = not revs and len(ca) == 1 and len(im) == 1 and flows_into(run, im[0][0], ca[0][1]["args"][0])
        rep.ob("C19.R3", "passes-in-order", ok, "" if ok else "the pass results are not combined in the order of the pass list", run.loc(), how="combine_all(passes.iter_mut().map(run pass))")
        pp = [(bi, t) for bi, t in run.calls() if callee_def(t) == "linter::postprocess"]
        ok = len(pp) == 1 and pp[0][1]["dest"]["l"] == 0
        rep.ob("C19.R3", "result-is-postprocessed", ok, "" if ok else "Linter::run does not return postprocess(all diagnostics)", run.loc(), how="postprocess(..)")
    pf = F.fn("linter::postprocess")
    if pf is None:
        rep.fail("C19.R3", "anchor::postprocess", "linter::postprocess not found")
    else:
        rep.analysed(pf)
        sorts = [(bi, t) for bi, t in pf.calls() if t["callee"].get("name", "").startswith(("sort", "sorted")) and "indirect" not in t["callee"]]
        ok = len(sorts) == 1 and sorts[0][1]["callee"]["name"] == "sort_by_key"
        key_ok = False
        if ok:
            cl = pf.local_ty(op_local(sorts[0][1]["args"][1])).peel_refs() if op_local(sorts[0][1]["args"][1]) is not None else None
            cf = F.fn(cl.d.get("closure", "")) if cl is not None and cl.kind() == "closure" else None
            if cf is not None:
                rs = tables.result_of_arm(cf, 0)
                key_ok = bool(rs) and all(r[0] == "param" and r[2][-1:] == ("line",) for r in rs)
        rep.ob("C19.R3", "stable-sort-by-line", ok and key_ok, "" if ok and key_ok else "the report is not sorted with the stable sort_by_key(|d| d.line): ties would not keep pass order", pf.loc(), how="sort_by_key(|diag| diag.line)")
    # ListBuilder::combine
    comb = None
    for p, fn in F.fns.items():
        if p.startswith("<linter::ListBuilder<T> as analysis::visit::Combine>::combine") and fn.kind != "closure":
            comb = fn
    if comb is None:
        rep.fail("C19.R3", "anchor::combine", "impl Combine for ListBuilder not found")
    else:
        rep.analysed(comb)
        I = kind.Interp(F)
        shapes = {"Empty": E(LB, "Empty"), "One": E(LB, "One", ("sym", "x")), "List": E(LB, "List", ("sym", "xs"))}

        def ren(v, who):
            if v[2] == "Empty":
                return v
            return E(LB, v[2], ("sym", who + "." + v[3][0][1]))
        rep.exhaustive["listbuilder_combine"] = True
        for sa_, a in shapes.items():
            for sb_, b in shapes.items():
                outs = {kt.term(o.ret) for o in I.run(comb, [ren(a, "self"), ren(b, "other")])}
                key = "combine::%s+%s" % (sa_, sb_)
                if sb_ == "Empty":
                    want = {kt.term(ren(a, "self"))}
                    ok = outs == want
                elif sa_ == "Empty":
                    want = {kt.term(ren(b, "other"))}
                    ok = outs == want
                else:
                    want = {"List(..)"}
                    ok = all(o.startswith("List(") for o in outs) and bool(outs)
                rep.ob("C19.R3", key, ok, "" if ok else "combine(%s, %s) yields %s, expected %s" % (sa_, sb_, sorted(outs), sorted(want)), comb.loc(), how=str(sorted(want)))
        # merging part: appended elements come from `other`, the vector appended to comes from `self`
        n_app = 0
        for bi, t in comb.calls():
            name = t["callee"].get("name") if "indirect" not in t["callee"] else None
            if name not in ("push", "extend", "append", "insert", "push_front", "extend_from_slice"):
                continue
            n_app += 1
            dst = kind_deep(comb, t["args"][0])
            src = kind_deep(comb, t["args"][-1])
            d_self = any(d[0] == "param" and d[1] == 1 for d, _ in dst) and not any(d[0] == "param" and d[1] == 2 for d, _ in dst)
            s_other = any(d[0] == "param" and d[1] == 2 for d, _ in src) and not any(d[0] == "param" and d[1] == 1 for d, _ in src)
            ok = d_self and s_other and name in ("push", "extend", "append", "extend_from_slice")
            rep.ob("C19.R3", "combine::appends-other-after-self#%d" % n_app, ok,
                   "" if ok else "combine appends with %s: destination from %s, elements from %s: diagnostics of `self` would not stay in front of those of `other`" % (
                       name, "self" if d_self else "other/unknown", "other" if s_other else "self/unknown"), comb.loc(t["line"]), how="self's vector .%s(other's elements)" % name)
        rep.floor("C19.R3.appends", n_app, 2, "append operations in combine")
    # ---- R4
    mu = F.fn(MP + "::match_or_update")
    if mu is None:
        rep.fail("C19.R4", "anchor::match_or_update", "MissedPronounPassImpl::match_or_update not found")
    else:
        rep.analysed(mu)

        def m_eq(I_, f, st, t, args, depth):
            yield kc(True), None, ((("same-name",), "T"),)
            yield kc(False), None, ((("same-name",), "F"),)
        I = kind.Interp(F, models={"std::cmp::PartialEq::eq": m_eq})
        rep.exhaustive["match_or_update"] = True
        for flag in (True, False):
            for last in ("None", "Some"):
                lastv = E(OPT, "None") if last == "None" else E(OPT, "Some", ("sym", "prev"))
                selfv = E(MP, "MissedPronounPassImpl", lastv, kc(flag))
                res = set()
                for o in I.run(mu, [selfv, ("sym", "name")]):
                    same = [tk for ct, tk in o.conds if ct == ("same-name",)]
                    after = o.refs.get(1)
                    new_last = kt.term(after[3][0]) if after and is_e(after, MP) else "?"
                    res.add((same[0] if same else "-", kt.term(o.ret), new_last))
                key = "match_or_update::in_call=%s,last=%s" % (flag, last)
                if last == "None":
                    want = {("-", "False", "Some(name)")}
                elif flag:
                    want = {("T", "False", "Some(name)"), ("F", "False", "Some(name)"), ("-", "False", "Some(name)")}
                    res = {r for r in res}
                else:
                    want = {("T", "True", "Some(prev)"), ("F", "False", "Some(name)")}
                ok = res == want or (flag and last == "Some" and res <= want and res)
                rep.ob("C19.R4", key, bool(ok), "" if ok else "match_or_update gives %s, the rule is %s" % (sorted(res), sorted(want)), mu.loc(), how=str(sorted(want)))
    vfc = find_method(F, VE, "visit_function_call", MP)
    vvn = find_method(F, VE, "visit_variable_name", MP)
    if vfc is None or vvn is None:
        rep.fail("C19.R4", "anchor::visitors", "MissedPronounPassImpl::visit_function_call / visit_variable_name not found")
    else:
        rep.analysed(vfc)
        from ..guards import g_in_function_call
        ok, why = g_in_function_call(ctx, F, vfc, None)
        rep.ob("C19.R4", "flag-only-around-callee-name", ok, why, vfc.loc(), how="true; visit name; false; then the arguments")
        rep.analysed(vvn)
        mcs = [(bi, t) for bi, t in vvn.calls() if callee_def(t) == MP + "::match_or_update"]
        thens = [(bi, t) for bi, t in vvn.calls() if is_callee(t, "core::bool::<impl bool>::then")]
        ok = len(mcs) == 1 and len(thens) == 1 and flows_into(vvn, mcs[0][0], thens[0][1]["args"][0])
        line_ok = False
        for cf in F.closures_of(vvn):
            for bi, t in cf.calls():
                if t["callee"].get("name") == "line":
                    line_ok = True
        rep.ob("C19.R4", "diag-iff-match-at-line-of-mention", ok and line_ok, "" if ok and line_ok else "visit_variable_name does not build the diagnostic exactly when match_or_update reports, with n.line()", vvn.loc(),
               how="match_or_update(n).then(|| build_diag(n, n.line()))")


_c19_census = c19


@prop("C19")
def c19_full(ctx):
    _c19_census(ctx)
    structure_rules(ctx)
