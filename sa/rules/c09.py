"""C09 — running any parseable program never crashes the interpreter."""
from ..props import prop
from . import common
from . import census_rules as cr


@prop("C09")
def c09(ctx):
    rep = ctx.rep
    rep.rule("C09.R1", "CENSUS: every panic/UB-capable construct (assert terminators, panic entry points, external callees with a "
             "documented panic condition, unsafe callees and raw dereferences) in a body reachable in the monomorphic call graph from "
             "exec::exec and the Display impls of the runtime errors and values is enumerated, in the dev and the release profile, and "
             "must be discharged by an automatic rule (constant divisor, constant arithmetic, BORROW) or a one-site reviewed argument, "
             "several of which carry a guard fact that is re-checked on every run")
    rep.rule("C09.R2", "BORROW: while a RefCell<Environment> borrow guard is alive, no call (resolved per monomorphic instance, closures "
             "included) can reach another borrow")
    rep.rule("C09.R3", "unimplemented visitor paths (ProduceValOutput::combine/default, ProduceVal::visit_array_push_rhs) are not in the "
             "monomorphic graph rooted at execution")
    n = cr.census_for(ctx, "C09.R1", "C09", "execution", cr.roots_exec)
    rep.floor("C09.R1", n, 60, "census sites (both profiles)")
    # R3
    rep.both_profiles("C09.R3")
    for prof, F in sorted(ctx.facts.items()):
        reach, parent = F.reach(cr.roots_exec(F))
        defs = {F.insts[i].def_ for i in reach}
        for d in ("<exec::produce_val::ProduceValOutput as analysis::visit::Combine>::combine",
                  "<exec::produce_val::ProduceValOutput as std::default::Default>::default",
                  "<exec::produce_val::ProduceVal<'a, I, O> as analysis::visit::VisitExpr>::visit_array_push_rhs"):
            if F.fn(d) is None:
                continue
            ok = d not in defs
            rep.ob("C09.R3", "unreachable::%s[%s]" % (d, prof), ok, "" if ok else "%s (unimplemented!) is reachable from exec::exec" % d, F.fn(d).loc(), how="absent from the monomorphic graph")
