"""EVAL-ONCE: in the interpreter, a child of a syntax-tree node is evaluated (handed to a visit method of one of the three
execution visitors, or delegated to a helper that takes syntax-tree nodes) at most once per execution of the method that
received the node.  Evaluating a child twice runs its side effects twice (a function call, a `roll`) and can address two
different slots for what the program wrote as one target.

Sites are found with the same forward labelling as C16's COVER (labels = field paths below a parameter).  Two sites conflict
when they receive the same child or a part of it and one can execute after the other; a site inside a CFG cycle conflicts
with itself unless the value it receives is drawn from an iterator in that cycle (one element per iteration).  The
instances that are re-evaluations *by design* are a reviewed table (one line of reason each)."""
from ..core import op_place, op_local, callee_def
from ..flow import Labels, fieldpath, origins
from . import common
from .c16 import is_ast_adt, is_visit_call, compat, lstr, AST, WITHRANGE

W = "<exec::write_val::WriteVal<'a, W, I, O> as analysis::visit::VisitExpr>::visit_array_subscript"
REVIEWED = {
    "exec::exec_stmt::ExecStmt::<'a, I, O>::visit_loop::block::repeated::ExecStmt.visit_block":
        "the body of a while/until loop runs once per iteration (C04.R3 decides the loop table)",
    "exec::exec_stmt::ExecStmt::<'a, I, O>::visit_loop::condition::repeated::ProduceVal.visit_expression":
        "the condition of a while/until loop is re-evaluated before every iteration (C04.R3)",
    "<exec::exec_stmt::ExecStmt<'a, I, O> as analysis::visit::VisitProgram>::visit_assignment::a/dest::twice::ProduceVal.visit_assignment_lhs+WriteVal.visit_assignment_lhs":
        "a compound assignment reads its destination (ProduceVal) and then writes it (WriteVal)",
    "<exec::exec_stmt::ExecStmt<'a, I, O> as analysis::visit::VisitProgram>::visit_assignment::a/dest::twice::read-then-write":
        "a compound assignment reads its destination and then writes it (WriteVal)",
    W + "::a::repeated::subscript_val":
        "drill-down over nested subscripts: every iteration moves to the enclosing node (arr = &a.array), so each subscript expression is evaluated once",
}

EXEC_FILES = ("src/exec/exec_stmt.rs", "src/exec/produce_val.rs", "src/exec/write_val.rs")
CAP = 5


def _extend(label, pl):
    return (label + fieldpath(pl, is_ast_adt, owners=True))[:CAP]


def _is_ast_ty(ty):
    t = ty.peel_refs()
    g = 0
    while t.kind() == "adt" and t.adt() == WITHRANGE and g < 4:
        g += 1
        t = t.args()[0].peel_refs()
    return t.kind() == "adt" and (t.adt() or "").startswith(AST)


def scope_fns(F):
    out = []
    for fn in F.all_fns(tests=False):
        if fn.kind == "closure" or fn.file not in EXEC_FILES or not fn.mir or fn.is_derived():
            continue
        params = [i for i in range(1, fn.argc + 1) if _is_ast_ty(fn.local_ty(i))]
        if params:
            out.append((fn, params))
    return out


def _anchor(F, top, body, bb):
    """block of `top` at which the site (body, bb) executes: closures are placed at the call they are handed to"""
    from ..guards import _closure_use
    cur, cb = body, bb
    chain = []
    g = 0
    while cur.path != top.path and cur.kind == "closure" and g < 6:
        g += 1
        use = _closure_use(F, cur)
        if use is None:
            return None, chain
        chain.append(cur.path)
        cur, cb = use[0], use[1]
    return (cb if cur.path == top.path else None), chain


def _drawn_from_iterator(body, operand, F=None, depth=0):
    """does the operand derive from an Iterator::next result (a different element on every iteration)?"""
    seen = set()
    work = [operand]
    g = 0
    while work and g < 40:
        g += 1
        o = work.pop()
        for d, p in origins(body, o):
            if d[0] == "call" and d[1] not in seen:
                seen.add(d[1])
                t = body.term(d[1])
                n = t["callee"].get("name")
                if n in ("next", "next_back"):
                    return True
                work.extend(t["args"])
            elif d[0] == "param" and body.kind == "closure" and d[1] >= 2:
                # parameter of a closure mapped over an iterator: one element per call
                return True
            elif d[0] == "param" and body.kind == "closure" and d[1] == 1 and F is not None and depth < 3:
                # a captured variable of a closure created inside the loop: what the enclosing body computes it from
                from . import common as _common
                b2, o2 = _common.upvar_resolve(F, body, o)
                if b2 is not body and _drawn_from_iterator(b2, o2, F, depth + 1):
                    return True
    return False


def _descends(body, operand):
    """is the operand the child of a node that a loop variable walks down to (`level = &level.array`-style descent)?  Then the same
    field is read at two different depths below one root: one origin's field names are a proper suffix of another's"""
    seqs = set()
    for d, p in origins(body, operand):
        names = tuple(x for x in p if isinstance(x, str) and not x.isdigit() and x != "pointer")
        if names:
            seqs.add(names)
    for a in seqs:
        for b in seqs:
            if len(b) > len(a) and b[len(b) - len(a):] == a:
                return True
    return False


def _sites_of(F, fn, params, exec_paths, summaries):
    seeds = {(fn.path, i): {(("param", fn.local_name(i) or ("_%d" % i)),)} for i in params}
    lab = Labels(F, fn, seeds, extend=_extend)
    sites = []
    for body in F.with_closures(fn):
        for bi, t in body.calls():
            d = callee_def(t) or ""
            r = t["callee"].get("resolved") or d
            visit = is_visit_call(t)
            helper = None if visit else (d if d in exec_paths else (r if r in exec_paths else None))
            if not visit and helper is None:
                continue
            ls = set()
            arg_ops = []
            for ai, a in enumerate(t["args"]):
                if visit and ai == 0:
                    continue
                pl = op_place(a)
                if pl is None:
                    continue
                l = lab.op_labels(body, a)
                if not l:
                    continue
                if visit:
                    ls |= l
                    arg_ops.append(a)
                elif _is_ast_ty(body.local_ty(pl["l"])):
                    # delegation to a helper of the interpreter: what the helper evaluates of this parameter
                    suffixes = summaries.get((helper, ai + 1)) if summaries is not None else {()}
                    if suffixes is None:
                        suffixes = {()}
                    for x in l:
                        for sfx in suffixes:
                            ls.add(x + sfx)
                    if suffixes:
                        arg_ops.append(a)
            if not ls:
                continue
            anchor, chain = _anchor(F, fn, body, bi)
            sites.append({"body": body, "bb": bi, "t": t, "labels": ls, "anchor": anchor, "chain": chain, "ops": arg_ops})
    return sites


def _site_name(s):
    t = s["t"]
    n = (callee_def(t) or "?").rsplit("::", 1)[-1]
    if is_visit_call(t) and t["args"]:
        pl = op_place(t["args"][0])
        if pl is not None:
            ty = s["body"].local_ty(pl["l"]).peel_refs()
            if ty.kind() == "adt":
                return "%s.%s" % (ty.adt().rsplit("::", 1)[-1], n)
    return n


def _collapse(path):
    """a/b/a/b/x -> (a/b)*/x : the levels of a drill-down loop are one instance"""
    import re
    return re.sub(r"((?:[^/]+/){1,2}?)(?:\1)+", lambda m: "(%s)*/" % m.group(1).rstrip("/"), path + "/").rstrip("/")


def run(ctx, rule, reviewed, floor_sites, only=None):
    F = ctx.F
    rep = ctx.rep
    scope = scope_fns(F)
    exec_paths = {fn.path for fn, _ in scope}
    # summaries: which parts of a node parameter a helper evaluates (one level of delegation refined, then iterated once more)
    summaries = None
    for _ in range(2):
        nxt = {}
        for fn, params in scope:
            ss = _sites_of(F, fn, params, exec_paths, summaries)
            for i in params:
                name = fn.local_name(i) or ("_%d" % i)
                sfx = {l[1:] for s in ss for l in s["labels"] if l and l[0] == ("param", name)}
                nxt[(fn.path, i)] = {x for x in sfx if not any(x != y and compat(x, y) and len(y) < len(x) for y in sfx)}
        summaries = nxt
    n_sites = 0
    n_children = 0
    used_reviews = set()
    for fn, params in scope:
        if only is not None and not only(fn):
            continue
        rep.analysed(fn)
        sites = _sites_of(F, fn, params, exec_paths, summaries)
        n_sites += len(sites)
        reach_cache = {}

        def reaches(a, b):
            if a not in reach_cache:
                reach_cache[a] = fn.reachable(a)
            return b in reach_cache[a] and a != b
        cyc = set()
        for scc in fn.sccs():
            cyc |= set(scc)
        # children seen at the sites of this function
        children = set()
        for s in sites:
            for l in s["labels"]:
                children.add(l)
        maximal = {l for l in children if not any(l != m and compat(l, m) and len(m) < len(l) for m in children)}
        for L in sorted(maximal, key=str):
            grp = [s for s in sites if any(compat(l, L) for l in s["labels"])]
            n_children += 1
            key = "%s::%s" % (fn.path, _collapse("/".join(str(x[1]) for x in L)))
            problems = []
            for i, s1 in enumerate(grp):
                # inside a loop of its own body (closure bodies included) or anchored in a loop of the method
                own_cyc = set()
                for scc in s1["body"].sccs():
                    own_cyc |= set(scc)
                in_cycle = (s1["bb"] in own_cyc) or (s1["anchor"] is not None and s1["anchor"] in cyc and s1["body"].path != fn.path)
                if s1["body"].path == fn.path and s1["bb"] in cyc:
                    in_cycle = True
                if in_cycle and not all(_drawn_from_iterator(s1["body"], o, F) or _descends(s1["body"], o) for o in s1["ops"]):
                    problems.append(("repeated", s1, None))
                for s2 in grp[i + 1:]:
                    if s1["anchor"] is None or s2["anchor"] is None:
                        continue
                    if s1["body"].path == s2["body"].path:
                        a, b = s1["bb"], s2["bb"]
                        body = s1["body"]
                        r1 = b in body.reachable(a) and a != b
                        r2 = a in body.reachable(b) and a != b
                        if r1 or r2:
                            problems.append(("twice", s1, s2))
                    elif s1["anchor"] != s2["anchor"]:
                        if reaches(s1["anchor"], s2["anchor"]) or reaches(s2["anchor"], s1["anchor"]):
                            problems.append(("twice", s1, s2))
            if not problems:
                rep.ob(rule, key, True, "", fn.loc(), how="%d site(s), at most one on every path" % len(grp))
                continue
            for kind, s1, s2 in problems:
                names = sorted({_site_name(s) for s in (s1, s2) if s})
                pkey = "%s::%s::%s" % (key, kind, "+".join(names)) if kind == "twice" else "%s::%s::repeated::%s" % (fn.path, L[0][1], names[0])
                rv = reviewed.get(pkey)
                if rv is None and kind == "twice":
                    # the reviewed read-then-write of one child: one site is a WriteVal visit, the other reads (a ProduceVal visit or a
                    # helper that evaluates the child with one) -- whatever the helper is called
                    generic = "%s::%s::read-then-write" % (key, kind)
                    if generic in reviewed:
                        wr = [x for x in (s1, s2) if _site_name(x).startswith("WriteVal.")]
                        rd = [x for x in (s1, s2) if not _site_name(x).startswith("WriteVal.")]
                        if len(wr) == 1 and len(rd) == 1 and (s1["anchor"] is None or s2["anchor"] is None or True):
                            rv = reviewed[generic]
                            pkey = generic
                if rv:
                    used_reviews.add(pkey)
                    rep.ob(rule, pkey, True, "", s1["body"].loc(s1["t"]["line"]), how="re-evaluation by design: " + rv)
                    continue
                if kind == "repeated":
                    why = "child `%s` is handed to %s inside a loop of %s with the same value on every iteration: it is evaluated again and again (side effects repeat)" % (
                        lstr(L[1:]) or L[0][1], names[0], fn.path)
                else:
                    why = "child `%s` is evaluated at two call sites on one path of %s (%s at line %s and %s at line %s): its side effects run twice and the two evaluations may address different slots" % (
                        lstr(L[1:]) or L[0][1], fn.path, (callee_def(s1["t"]) or "?").rsplit("::", 1)[-1], s1["t"]["line"], (callee_def(s2["t"]) or "?").rsplit("::", 1)[-1], s2["t"]["line"])
                rep.fail(rule, pkey, why, s1["body"].loc(s1["t"]["line"]))
    for k in reviewed:
        if k not in used_reviews and only is None:
            rep.notes.setdefault("evalonce_stale_reviews", []).append(k)
    rep.floor(rule, n_sites, floor_sites, "evaluation sites in the execution visitors")
    return n_sites, n_children
