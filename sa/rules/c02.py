"""C02 — every spelling parses to the same tree: the grammar's tables (alias map, produce/consume agreement, operator maps,
precedence ladder, sibling agreements)."""
import json
import os

from .. import tables, tokens
from ..core import callee_def, op_local, op_place
from ..flow import origins
from ..props import prop
from . import common
from .common import is_callee

VERIF = os.path.dirname(os.path.dirname(os.path.dirname(os.path.abspath(__file__))))
TT = "frontend::lexer::TokenType"
PARSER = "frontend::parser::Parser::<'a>::"

BINARY = {"Plus": "Plus", "With": "Plus", "Minus": "Minus", "Multiply": "Multiply", "Divide": "Divide", "And": "And", "Or": "Or", "Nor": "Nor",
          "Greater": "Greater", "Bigger": "Greater", "GreaterEq": "GreaterEq", "Big": "GreaterEq", "Less": "Less", "Smaller": "Less",
          "LessEq": "LessEq", "Small": "LessEq", "Isnt": "NotEq"}
UNARY = {"Minus": "Minus", "Not": "Not"}
MUTATION = {"Cut": "Cut", "Join": "Join", "Cast": "Cast"}
ROUNDING = {"Up": "Up", "Down": "Down", "Round": "Nearest"}
LADDER = [("parse_logical_expression", {"And", "Or", "Nor"}), ("parse_comparison_expression", {"Less", "LessEq", "Greater", "GreaterEq", "Isnt"}),
          ("parse_term", {"Plus", "With", "Minus"}), ("parse_factor", {"Multiply", "Divide"})]
FANCY_WORDS = {"Bigger", "Big", "Smaller", "Small"}


def some_map(F, path):
    """{token kind: operator variant} for a token->operator table function"""
    fn = F.fn(path)
    if fn is None:
        return None, None
    # however the table is written (one match of Some(..) arms, an early return for the rest, a binding wrapped afterwards, ...):
    # KIND computes the function's result for every token kind
    bk = _some_map_by_kind(F, fn)
    if bk is not None:
        return fn, bk
    m = tables.enum_map(fn, 1)
    if not m:
        return fn, None
    out = {}
    for v, rs in m[1].items():
        vals = set()
        for r in rs:
            if r[0] == "agg" and r[1] == "Option::Some" and r[2] and r[2][0][0] == "agg":
                vals.add(r[2][0][1].split("::", 1)[1])
            elif r[0] == "agg" and r[1] == "Option::None":
                pass
            else:
                vals.add("?")
        if vals:
            out[v] = vals
    return fn, out


def _some_map_by_kind(F, fn):
    from .. import kind, kindtables as kt
    from ..kind import E, is_e
    TT_ = "frontend::lexer::TokenType"
    if TT_ not in F.adts or fn.argc != 1:
        return None
    I = kind.Interp(F)
    out = {}
    for v in F.adts[TT_]["variants"]:
        arg = E(TT_, v["name"], *[("sym", "p%d" % i) for i, _ in enumerate(v.get("fields", []))])
        vals = set()
        for o in I.run(fn, [arg]):
            r = o.ret
            if is_e(r, "std::option::Option") and r[2] == "Some" and r[3] and is_e(r[3][0]):
                vals.add(r[3][0][2])
            elif is_e(r, "std::option::Option") and r[2] == "None":
                pass
            else:
                vals.add("?")
        if vals:
            out[v["name"]] = vals
    if I.incomplete:
        return None
    return out


def next_level(F, fn, operand):
    """name of the parser method an argument `next` denotes: a fn item, or a closure that calls exactly one parser method"""
    c = operand.get("const")
    if c is not None and "fn" in c:
        return c["fn"].rsplit("::", 1)[-1]
    l = op_local(operand)
    if l is None:
        return None
    ty = fn.local_ty(l).peel_refs()
    if ty.kind() == "closure":
        cf = F.fn(ty.d["closure"])
        if cf is not None:
            cs = [t["callee"]["name"] for bi, t in cf.calls() if (callee_def(t) or "").startswith(PARSER)]
            if len(cs) == 1:
                return cs[0]
    if ty.kind() == "fndef":
        return ty.d["fndef"].rsplit("::", 1)[-1]
    return None


def case_variants(s):
    out = {""}
    for ch in s:
        if ch.isalpha():
            out = {x + ch.lower() for x in out} | {x + ch.upper() for x in out}
        else:
            out = {x + ch for x in out}
    return out


def _on_positive_edge_of_not(F, nb, eb):
    """form B of `not -> NotEq, otherwise Eq`: in body nb the NotEq value is built only on the edge on which match_and_consume(Not)
    matched (is_some() true / the Some arm), and the Eq value (body eb) is not built on that edge"""
    from ..guards import _bool_edges, _dominated_by_edge
    from .. import progress
    BO = "frontend::ast::BinaryOperator"

    def builds(b, variant):
        out = []
        for bi, si, s in b.assigns():
            a = s["rv"].get("agg")
            if isinstance(a, dict) and a.get("adt") == BO and a.get("variant") == variant:
                out.append(bi)
        return out
    ne = builds(nb, "NotEq")
    eq = builds(eb, "Eq") if eb is nb else None
    if not ne:
        return False
    for cb, ct in nb.calls():
        if callee_def(ct) != PARSER + "match_and_consume" or tokens.resolve_token_set(F, nb, ct["args"][1]) != {"Not"}:
            continue
        edges = []
        for b2, t2 in nb.calls():
            if t2["callee"].get("name") == "is_some" and cb in progress.deep_sources(nb, t2["args"][0]):
                e = _bool_edges(nb, b2)
                if e:
                    edges.append((e[0], e[2]))
        for sb in range(len(nb.blocks)):
            sw = tables.arms_complete(nb, sb)
            if sw and "Some" in sw[2] and cb in progress.deep_sources(nb, {"copy": {"l": sw[0]["l"], "p": []}}):
                edges.append((sb, sw[2]["Some"]))
        for sb, tg in edges:
            if all(b == tg or _dominated_by_edge(nb, b, sb, tg) for b in ne) and (eq is None or not any(b == tg or _dominated_by_edge(nb, b, sb, tg) for b in eq)):
                return True
    return False


@prop("C02")
def c02(ctx):
    F, rep = ctx.F, ctx.rep
    rep.rule("C02.R1", "alias map: the (spelling, kind) pairs inserted into KEYWORDS are extracted from the initialiser (insert / alias / extend "
             "forms); keys are lower-case (the lookup folds the word first, so any other key is dead) and consist of letters and apostrophes; "
             "no key has two kinds; the set equals the reviewed reference spec/keywords.json")
    rep.rule("C02.R2", "produce/consume agreement: every token kind the parser matches (token sets, dispatch arms) is produced by the lexer "
             "(constructed in lexer.rs or in the keyword table); every consume(K) runs only when the current token is known to be in K")
    rep.rule("C02.R3", "operator maps: get_binary_operator / get_unary_operator / get_mutation_operator / get_rounding_direction equal the "
             "reviewed tables (symbol = word aliases, With -> Plus, Bigger/Big/Smaller/Small, Isnt -> NotEq, Round -> Nearest); "
             "fancy comparisons: bare `not` -> NotEq, default Eq")
    rep.rule("C02.R4", "precedence ladder: logical {and, or, nor} -> comparison {<, <=, >, >=, isnt} -> term {+, with, -} -> factor {*, /} -> "
             "unary {-, not} -> primary, read off the calls of parse_binary_expression[_loop]; level sets pairwise disjoint; their union is the "
             "domain of get_binary_operator minus the words used only inside `is` comparisons")
    rep.rule("C02.R5", "sibling agreements: is_literal_word = the kinds parse_literal_expression turns into a literal; every token admitted into "
             "a poetic number literal has an arm in the element mapping; `and` separates parameters iff a comma is not required; the "
             "apostrophe-suffix spellings stripped by the lexer are closed under letter case and staged with their own length")
    rep.rule("C02.R6", "noise agreement: every white-space classification in the lexer (what is skipped between tokens, what ends a word, "
             "what a word may not contain) resolves to one and the same std function; two different notions of white space leave "
             "characters that end a word without being skippable, which turns a separator into an error token")
    rep.rule("C02.R7", "block structure: is_function_terminator is true exactly for an `if` statement that has an else branch (whatever that "
             "branch contains) and false for every other statement kind -- the table is computed by KIND over all statement kinds")
    noise_and_blocks(ctx)
    rep.rule("C02.R8", "comments are noise: every token CommentSkippingLexer::next hands to the parser has been tested not to be a comment -- it is "
             "the result of Iterator::find with a predicate that negates is_comment, or its return is confined to the false edge of "
             "is_comment() on that very token (or to the end-of-input edge)")
    comments_rule(ctx, "C02.R8")
    rep.rule("C02.R9", "one notion of letter case in the front end and the interpreter (shared with C15.R4): a keyword or a capitalised name "
             "must not be classified by an ASCII-only function")
    from .c15 import case_rule
    case_rule(ctx, "C02.R9")
    # ---- R1
    pairs, problems = tables.keyword_table(F)
    if pairs is None:
        rep.fail("C02.R1", "anchor", problems[0])
    else:
        for p in problems:
            rep.fail("C02.R1", "form::" + p.split(" at line")[0], "keyword table construction not recognised: " + p, "src/frontend/lexer.rs")
        rep.floor("C02.R1", len(pairs), 100, "keyword table entries")
        rep.exhaustive["keyword_table"] = True
        kinds = {}
        for s, k in pairs:
            kinds.setdefault(s, set()).add(k)
        for s, ks in sorted(kinds.items()):
            if s != s.lower():
                rep.fail("C02.R1", "key-not-lowercase::" + s, "keyword table key %r is not lower-case: match_keyword folds the word first, so this spelling can never match" % s, "src/frontend/lexer.rs")
            if not all(ch.isalpha() or ch == "'" for ch in s) or not s:
                rep.fail("C02.R1", "key-not-a-word::" + s, "keyword table key %r contains characters a scanned word never has" % s, "src/frontend/lexer.rs")
            if len(ks) > 1:
                rep.fail("C02.R1", "key-two-kinds::" + s, "keyword %r is inserted with kinds %s (the later one silently wins)" % (s, sorted(ks)), "src/frontend/lexer.rs")
        with open(os.path.join(VERIF, "spec", "keywords.json")) as f:
            ref = {tuple(p) for p in json.load(f)["pairs"]}
        got = set(pairs)
        for s, k in sorted(ref - got):
            rep.fail("C02.R1", "missing::%s" % s, "the spelling %r no longer lexes as %s" % (s, k), "src/frontend/lexer.rs")
        for s, k in sorted(got - ref):
            rep.fail("C02.R1", "unexpected::%s" % s, "the spelling %r now lexes as the keyword %s; it is not in the reviewed alias table" % (s, k), "src/frontend/lexer.rs")
        for s, k in sorted(ref & got):
            rep.ob("C02.R1", "alias::%s" % s, True, "", "src/frontend/lexer.rs", how="-> " + k)
    # ---- R2
    produced = {k for s, k in (pairs or [])}
    for fn in F.all_bodies(tests=False):
        if not fn.file.endswith("frontend/lexer.rs"):
            continue
        for bi, si, s in fn.assigns():
            a = s["rv"].get("agg")
            if isinstance(a, dict) and a.get("adt") == TT:
                produced.add(a["variant"])
    consumed = {}
    for fn in F.all_bodies(tests=False):
        if not fn.file.endswith("frontend/parser.rs"):
            continue
        for bi, t in fn.calls():
            if (callee_def(t) or "").startswith(PARSER) and t["callee"]["name"] in ("match_and_consume", "expect_any", "expect_token", "consume", "current_matches", "expect_token_or_end", "match_until_next") and len(t["args"]) > 1:
                ks = tokens.resolve_token_set(F, fn, t["args"][1])
                for k in ks or ():
                    consumed.setdefault(k, fn.path)
        for bi in range(len(fn.blocks)):
            sw = tables.switch_on_discr(fn, bi)
            if sw and sw[1].peel_refs().adt() == TT:
                for v in sw[2]:
                    consumed.setdefault(v, fn.path)
    rep.floor("C02.R2", len(consumed), 60, "token kinds the parser matches")
    for k, where in sorted(consumed.items()):
        ok = k in produced or k in ("Comment", "Error")
        rep.ob("C02.R2", "produced::" + k, ok, "" if ok else "the parser matches token kind %s (in %s) but the lexer never produces it: that spelling of the grammar is dead" % (k, where), None, how="constructed in lexer.rs / keyword table")
    sites = tokens.consume_sites(F)
    rep.floor("C02.R2c", len(sites), 10, "consume() call sites")
    for fn, bb, t in sites:
        ok, why = tokens.check_consume_site(F, fn, bb, t)
        rep.ob("C02.R2", "consume::%s#%d" % (fn.path, bb), ok, "" if ok else why, fn.loc(t["line"]), how=why if ok else "")
    # ---- R3
    for path, want, label in (("frontend::parser::get_binary_operator", BINARY, "binary"), ("frontend::parser::get_unary_operator", UNARY, "unary"),
                              ("frontend::parser::get_mutation_operator", MUTATION, "mutation"), ("frontend::parser::get_rounding_direction", ROUNDING, "rounding")):
        fn, got = some_map(F, path)
        if fn is None or got is None:
            rep.fail("C02.R3", "anchor::" + label, "%s not found or not a match on the token kind" % path)
            continue
        rep.analysed(fn)
        rep.exhaustive[label + "_operator_map"] = True
        for k in sorted(set(want) | set(got)):
            w = {want[k]} if k in want else None
            g = got.get(k)
            ok = w == g
            rep.ob("C02.R3", "%s::%s" % (label, k), ok, "" if ok else "%s maps %s to %s; the reviewed table has %s" % (path.rsplit("::", 1)[-1], k, sorted(g) if g else "nothing", sorted(w) if w else "nothing"),
                   fn.loc(), how="-> %s" % (sorted(g)[0] if g else "None"))
    fc = F.fn(PARSER + "parse_fancy_comparison_expression")
    if fc is None:
        rep.fail("C02.R3", "anchor::fancy", "parse_fancy_comparison_expression not found")
    else:
        rep.analysed(fc)
        ops = {}
        for b in F.with_closures(fc):
            for bi, si, s in b.assigns():
                a = s["rv"].get("agg")
                if isinstance(a, dict) and a.get("adt") == "frontend::ast::BinaryOperator":
                    ops.setdefault(a["variant"], b)
            for bi, t in b.calls():
                for a_ in t["args"]:
                    d = tables.describe_value(b, a_)
                    if d[0] == "agg" and d[1].startswith("BinaryOperator::"):
                        ops.setdefault(d[1].split("::")[1], b)
        ok = set(ops) == {"NotEq", "Eq"}
        why = "" if ok else "the plain `is` comparison builds %s (expected NotEq for `not`, Eq otherwise)" % sorted(ops)
        if ok:
            nb = ops["NotEq"]
            from ..guards import _closure_use
            use = _closure_use(F, nb) if nb.kind == "closure" else None
            kinds = tokens.token_kinds_of_value(F, use[0], use[2]["args"][0]) if use else None
            if kinds != {"Not"} and not _on_positive_edge_of_not(F, nb, ops["Eq"]):
                ok, why = False, "NotEq is not tied to a matched `not` token"
        rep.ob("C02.R3", "fancy::not->NotEq,default->Eq", ok, why, fc.loc(), how="match_and_consume(Not).map(NotEq).unwrap_or(Eq)")
        sets = []
        for b in F.with_closures(fc):
            for bi, t in b.calls():
                if (callee_def(t) or "").startswith(PARSER) and t["callee"]["name"] in ("match_and_consume", "expect_any", "expect_token") and len(t["args"]) > 1:
                    ks = tokens.resolve_token_set(F, b, t["args"][1])
                    sets.append(frozenset(ks or ()))
        want_sets = {frozenset({"As"}), frozenset({"Big", "Small"}), frozenset({"Bigger", "Smaller"}), frozenset({"Than"}), frozenset({"Not"})}
        ok = set(sets) == want_sets
        rep.ob("C02.R3", "fancy::token-sets", ok, "" if ok else "the `is` comparison matches %s" % sorted(sorted(x) for x in set(sets)), fc.loc(), how="as big/small as | bigger/smaller than | not")
    # ---- R4
    levels = {}
    for fn in F.all_fns(tests=False):
        if not fn.path.startswith(PARSER) or fn.kind == "closure":
            continue
        for bi, t in fn.calls():
            d = callee_def(t) or ""
            if d in (PARSER + "parse_binary_expression", PARSER + "parse_binary_expression_loop") and fn.name not in ("parse_binary_expression", "parse_binary_expression_loop"):
                ks = tokens.resolve_token_set(F, fn, t["args"][1])
                nxt = next_level(F, fn, t["args"][2])
                levels[fn.name] = (ks, nxt, fn)
    rep.exhaustive["precedence_ladder"] = True
    expected_next = {"parse_logical_expression": "parse_comparison_expression", "parse_comparison_expression": "parse_term", "parse_term": "parse_factor", "parse_factor": "parse_unary_expression"}
    for name, want_set in LADDER:
        got = levels.get(name)
        key = "level::" + name
        if got is None:
            rep.fail("C02.R4", key, "%s is not a binary-operator level any more" % name)
            continue
        ks, nxt, fn = got
        rep.analysed(fn)
        ok = ks == want_set and nxt == expected_next[name]
        rep.ob("C02.R4", key, ok, "" if ok else "%s handles %s and descends to %s; the ladder has %s then %s" % (name, sorted(ks or []), nxt, sorted(want_set), expected_next[name]), fn.loc(),
               how="%s -> %s" % (sorted(want_set), expected_next[name]))
    extra = set(levels) - {n for n, _ in LADDER}
    for name in sorted(extra):
        rep.fail("C02.R4", "extra-level::" + name, "%s is an additional binary-operator level (%s): operators no longer share the documented precedence" % (name, sorted(levels[name][0] or [])), levels[name][2].loc())
    pe = F.fn(PARSER + "parse_expression")
    if pe is not None:
        cs = [t["callee"]["name"] for bi, t in pe.calls() if (callee_def(t) or "").startswith(PARSER)]
        rep.ob("C02.R4", "top::parse_expression", cs == ["parse_logical_expression"], "" if cs == ["parse_logical_expression"] else "parse_expression starts at %s" % cs, pe.loc(), how="starts at the logical level")
    cmpf = F.fn(PARSER + "parse_comparison_expression")
    if cmpf is not None:
        first = [t["callee"]["name"] for bi, t in cmpf.calls() if (callee_def(t) or "").startswith(PARSER)][:1]
        rep.ob("C02.R4", "comparison-operands-are-terms", first == ["parse_term"], "" if first == ["parse_term"] else "comparison operands are parsed with %s" % first, cmpf.loc(), how="parse_term")
    pu = F.fn(PARSER + "parse_unary_expression")
    if pu is not None:
        rep.analysed(pu)
        ks = None
        for bi, t in pu.calls():
            if callee_def(t) == PARSER + "match_and_consume":
                ks = tokens.resolve_token_set(F, pu, t["args"][1])
        rec = [t["callee"]["name"] for bi, t in pu.calls() if (callee_def(t) or "").startswith(PARSER) and t["callee"]["name"].startswith("parse_")]
        ok = ks == {"Minus", "Not"} and set(rec) == {"parse_unary_expression", "parse_primary_expression"}
        rep.ob("C02.R4", "level::parse_unary_expression", ok, "" if ok else "unary level: operators %s, descends to %s" % (sorted(ks or []), rec), pu.loc(), how="{-, not} unary* primary")
    sets = [levels[n][0] or set() for n, _ in LADDER if n in levels]
    disjoint = all(not (a & b) for i, a in enumerate(sets) for b in sets[i + 1:])
    rep.ob("C02.R4", "levels-disjoint", disjoint, "" if disjoint else "one operator token belongs to two precedence levels", None, how="pairwise disjoint")
    fnb, dom = some_map(F, "frontend::parser::get_binary_operator")
    if dom is not None and sets:
        union = set().union(*sets)
        ok = union == set(dom) - FANCY_WORDS
        rep.ob("C02.R4", "levels-cover-operator-table", ok, "" if ok else "tokens with an operator but no precedence level: %s; with a level but no operator: %s" % (
            sorted(set(dom) - FANCY_WORDS - union), sorted(union - set(dom))), None, how="union = domain of get_binary_operator minus {bigger, big, smaller, small}")
    # the bottom rung: `at` binds tighter than every operator and every prefix keyword -- whoever parses a primary expression without
    # its subscripts is the subscript machinery itself (it goes on to match `at`, or hands the result to the function that does)
    NSP = PARSER + "parse_non_subscript_primary_expression"
    n_nsp = 0
    at_handlers = set()
    for fn in F.all_fns(tests=False):
        if fn.kind == "closure" or not fn.file.endswith("frontend/parser.rs"):
            continue
        for b in F.with_closures(fn):
            for bi, t in b.calls():
                if callee_def(t) == PARSER + "match_and_consume" and tokens.resolve_token_set(F, b, t["args"][1]) == {"At"}:
                    at_handlers.add(fn.path)
    for b, bi, t in common.who_calls(F, lambda c: c.get("def") == NSP):
        top = common.top_fn(F, b)
        n_nsp += 1
        hands_on = any((callee_def(t2) or "") in at_handlers for b2 in F.with_closures(top) for _, t2 in b2.calls())
        ok = top.path in at_handlers or hands_on
        rep.ob("C02.R4", "subscripts-follow-primary::" + top.path.rsplit("::", 1)[-1], ok,
               "" if ok else "%s parses a primary expression without its subscripts and neither matches `at` itself nor hands the result to the function that does: `at` no longer binds to this operand, so the same words group differently here than elsewhere" % top.path.rsplit("::", 1)[-1],
               b.loc(t["line"]), how="caller matches `at` or calls %s" % sorted(x.rsplit("::", 1)[-1] for x in at_handlers))
    rep.ob("C02.R4", "subscripts-follow-primary::sites", n_nsp >= 2 and bool(at_handlers), "" if n_nsp >= 2 and at_handlers else "only %d call sites of parse_non_subscript_primary_expression / no function matching `at` found" % n_nsp, None,
           how="%d call sites, `at` matched in %s" % (n_nsp, sorted(x.rsplit("::", 1)[-1] for x in at_handlers)))
    # contractions after every kind of token that can carry one
    rep.rule("C02.R11", "a contraction (`'s`, `'re`) is recognised after every token that can carry one: the scanners for numbers, string literals "
             "and comments each reach Lexer::maybe_followed_by_apostrophe_suffix (call graph inside lexer.rs), and words strip their own "
             "suffix in tokenize_word -- `X(remark)'s 5` means the same as `X's 5`, since a comment is noise")
    MF = "frontend::lexer::Lexer::<'a>::maybe_followed_by_apostrophe_suffix"
    lex_fns = {fn.path: fn for fn in F.all_fns(tests=False) if fn.file.endswith("frontend/lexer.rs") and fn.kind != "closure"}
    calls_of = {}
    for path, fn in lex_fns.items():
        cs = set()
        for b in F.with_closures(fn):
            for bi, t in b.calls():
                d = t["callee"].get("resolved") or callee_def(t)
                if d in lex_fns:
                    cs.add(d)
        calls_of[path] = cs

    def reaches(a, seen=None):
        seen = seen if seen is not None else set()
        if a in seen:
            return False
        seen.add(a)
        return MF in calls_of.get(a, ()) or any(reaches(x, seen) for x in calls_of.get(a, ()))
    for nm in ("scan_number", "scan_string_literal", "scan_comment"):
        path = "frontend::lexer::Lexer::<'a>::" + nm
        if path not in lex_fns:
            rep.fail("C02.R11", "anchor::" + nm, "Lexer::%s not found" % nm)
            continue
        ok = reaches(path)
        rep.ob("C02.R11", "suffix-after::" + nm, ok, "" if ok else "Lexer::%s no longer reaches maybe_followed_by_apostrophe_suffix: a `'s` / `'re` glued to such a token is not recognised as a contraction (the apostrophe is dropped as noise and the letters become a word)" % nm,
               lex_fns[path].loc(), how="reaches maybe_followed_by_apostrophe_suffix")
    rep.rule("C02.R12", "a number literal denotes its written value: every text the front end reads as a number is read by `str::parse::<f64>` applied "
             "to the literal's text itself (no integer parse for plain digits -- it overflows where the float parser rounds -- and no "
             "preparation of the text); rule shared with C07.R10")
    from .c07 import string_to_number_rule as _s2n
    _s2n(ctx, "C02.R12", prefix="src/frontend/", floor=1)
    # list operands: the "inside a list" flag
    rep.rule("C02.R10", "list operands group the same way wherever they stand: Parser.parsing_list is written only by the list parser, and every "
             "non-error return of the list parser leaves it false (a write of `false` lies on every path from each write of `true`, and from "
             "the entry, to the return) -- after any operand, nested or not, the next operator on the same level may start a list of its own")
    PARSER_ADT = "frontend::parser::Parser"
    ws = [(fn, bi, st) for fn, bi, kind, st in common.field_accesses(F, PARSER_ADT, "parsing_list") if kind in ("write", "mutref")]
    tops = {common.top_fn(F, fn).path for fn, bi, st in ws if common.top_fn(F, fn).name != "new"}
    okw = len(tops) == 1
    rep.ob("C02.R10", "list-flag::one-writer", okw, "" if okw else "Parser.parsing_list is written by %s" % sorted(tops), None, how=str(sorted(x.rsplit("::", 1)[-1] for x in tops)))
    for path in sorted(tops):
        lf = F.fn(path)
        if lf is None:
            continue
        rep.analysed(lf)
        falses = [bi for fn, bi, st in ws if fn is lf and (st.get("rv", {}).get("use", {}).get("const") or {}).get("int") in ("0", 0, "false")]
        others = [bi for fn, bi, st in ws if fn is lf and bi not in falses]
        in_closure = [fn.path for fn, bi, st in ws if fn is not lf and common.top_fn(F, fn).path == path]
        ok, why = True, ""
        if not falses:
            ok, why = False, "%s never resets Parser.parsing_list" % lf.name
        elif in_closure:
            ok, why = False, "Parser.parsing_list is written inside a closure (%s): the reset cannot be placed on the paths of %s" % (in_closure[0], lf.name)
        elif common.path_to_return_avoiding(lf, falses):
            ok, why = False, "%s can return normally without resetting Parser.parsing_list: after a nested operand the flag stays set, so the next operator of the same list no longer takes a list of its own (the same words group differently depending on what came before)" % lf.name
        else:
            for ob in others:
                if common.path_to_return_avoiding(lf, falses, start=ob):
                    ok, why = False, "after Parser.parsing_list is set, %s can return normally without resetting it" % lf.name
        rep.ob("C02.R10", "list-flag::reset-on-every-return::" + lf.name, ok, why, lf.loc(), how="a write of false on every non-error path to the return")
    # ---- R5
    lw = F.fn("frontend::parser::is_literal_word")
    pl = F.fn(PARSER + "parse_literal_expression")
    if lw is None or pl is None:
        rep.fail("C02.R5", "anchor::literal", "is_literal_word / parse_literal_expression not found")
    else:
        rep.analysed(lw)
        m = tables.enum_map(lw, 1)
        lit_true = {v for v, rs in (m[1].items() if m else []) if rs == {("const", "1")}}
        lit_some = set()
        for b in F.with_closures(pl):
            for bi in range(len(b.blocks)):
                sw = tables.arms_complete(b, bi)
                if sw and sw[1].peel_refs().adt() == TT:
                    for v, tg in sw[2].items():
                        region = b.reachable(tg, avoid=[y for vv, y in sw[2].items() if y != tg])
                        builds = False
                        for rb in region:
                            for s in b.stmts(rb):
                                a = s.get("rv", {}).get("agg") if s["k"] == "assign" else None
                                if isinstance(a, dict) and a.get("adt") == "frontend::ast::LiteralExpression":
                                    builds = True
                        if builds:
                            lit_some.add(v)
        ok = bool(lit_true) and lit_true == lit_some
        rep.ob("C02.R5", "literal-words-agree", ok, "" if ok else "is_literal_word accepts %s but parse_literal_expression builds literals for %s" % (sorted(lit_true), sorted(lit_some)), lw.loc(),
               how="%d kinds" % len(lit_true))
    pt = F.fn(PARSER + "is_poetic_number_literal_token")
    pn = F.fn(PARSER + "parse_poetic_number_literal")
    if pt is None or pn is None:
        rep.fail("C02.R5", "anchor::poetic", "is_poetic_number_literal_token / parse_poetic_number_literal not found")
    else:
        rep.analysed(pt)
        admitted = set()
        for bi in range(len(pt.blocks)):
            sw = tables.switch_on_discr(pt, bi)
            if sw and sw[1].peel_refs().adt() == TT:
                admitted |= set(sw[2])
        arms = set()
        for b in F.with_closures(pn):
            for bi in range(len(b.blocks)):
                sw = tables.switch_on_discr(b, bi)
                if sw and sw[1].peel_refs().adt() == TT:
                    arms |= set(sw[2])
        ok = bool(admitted) and admitted <= arms | {"Word"}
        rep.ob("C02.R5", "poetic-tokens-have-arms", ok, "" if ok else "tokens admitted into a poetic literal without an arm in the element mapping: %s" % sorted(admitted - arms), pt.loc(), how=str(sorted(admitted)))
        # a poetic word is a word by its spelling, whatever kind the lexer gave it (keywords, aliases, pronouns, numbers count their
        # letters too): inside the literal the only token kinds ever tested are the punctuation kinds admitted above
        kind_tests = set(arms)
        for b in F.with_closures(pn):
            for bi, t in b.calls():
                d = callee_def(t) or ""
                if d.startswith("frontend::lexer::TokenType::") and (t["callee"].get("name") or "").startswith("is_"):
                    kind_tests.add("".join(w.capitalize() for w in t["callee"]["name"][3:].split("_")))
        canon = {k.lower(): k for k in admitted}
        kind_tests = {canon.get(k.lower(), k) for k in kind_tests}
        ok = bool(admitted) and kind_tests <= admitted
        rep.ob("C02.R5", "poetic-words-by-spelling", ok,
               "" if ok else "inside a poetic literal the token kind %s is tested: a word that happens to be spelled like a keyword is treated differently from any other word, although a poetic word only counts its letters" % sorted(kind_tests - admitted),
               pn.loc(), how="kinds tested inside the literal: %s" % sorted(kind_tests))
    ps = F.fn(PARSER + "parameter_seps")
    if ps is not None:
        rep.analysed(ps)
        ok, why = False, "shape not recognised"
        for bi, t in ps.calls():
            if t["callee"].get("name") in ("push_unchecked", "push", "try_push") and tables.token_set_of(ps, t["args"][1]) == {"And"}:
                # under the zero edge of a switch on !require_comma / require_comma
                for sb, blk in enumerate(ps.blocks):
                    tt = blk["term"]
                    if tt["k"] == "switch" and any(d[0] == "param" and d[1] == 1 for d, _ in origins(ps, tt["on"])):
                        zero = [tg for v, tg in tt["targets"] if v == "0"]
                        # the switch operand may be `!require_comma` (then the push is on the nonzero edge)
                        negated = any(s["k"] == "assign" and s["rv"].get("un") == "not" for s in ps.stmts(sb))
                        push_edge = tt["otherwise"] if negated else (zero[0] if zero else None)
                        from ..guards import _dominated_by_edge
                        if push_edge is not None and _dominated_by_edge(ps, bi, sb, push_edge):
                            ok, why = True, ""
                        else:
                            why = "`and` is a parameter separator under the wrong condition"
        base = None
        for bi, si, s in ps.assigns():
            a = s["rv"].get("agg")
            if isinstance(a, dict) and "array" in a:
                base = set()
                for o in s["rv"]["ops"]:
                    base |= tables.token_set_of(ps, o) or set()
        if ok and base != {"Ampersand", "Comma", "ApostropheNApostrophe"}:
            ok, why = False, "the unconditional separators are %s" % sorted(base or [])
        rep.ob("C02.R5", "and-separates-iff-comma-not-required", ok, why, ps.loc(), how="{&, ',', 'n'} + and unless require_comma")
    # which separators a list accepts is chosen where the list is written, not by parser state
    pcs = common.who_calls(F, lambda c: c.get("def") == PARSER + "parse_parameter_list")
    for b_, bi_, t_ in pcs:
        flag = t_["args"][-1]
        okc = flag.get("const") is not None or all(d[0] == "const" for d, _ in origins(b_, flag))
        rep.ob("C02.R5", "separator-set-chosen-statically::" + common.top_fn(F, b_).path.rsplit("::", 1)[-1], okc,
               "" if okc else "%s decides at run time (from %s) whether `and` separates the elements of this list: the same words group differently depending on what surrounds them" % (
                   common.top_fn(F, b_).path.rsplit("::", 1)[-1], sorted({(".".join(p) if d[0] == "param" else d[0]) for d, p in origins(b_, flag)})),
               b_.loc(t_["line"]), how="require_comma is a literal")
    rep.ob("C02.R5", "separator-set-chosen-statically::sites", len(pcs) >= 2, "" if len(pcs) >= 2 else "only %d call sites of parse_parameter_list" % len(pcs), None, how="%d call sites" % len(pcs))
    tw = F.fn("frontend::lexer::Lexer::<'a>::tokenize_word")
    if tw is None:
        rep.fail("C02.R5", "anchor::tokenize_word", "Lexer::tokenize_word not found")
    else:
        rep.analysed(tw)
        lits = []
        dynamic = False
        def _strips_dynamic(h):
            """a private helper that strips a suffix it was handed (its strip_suffix takes no literal)"""
            for hb in F.with_closures(h):
                for _, ht in hb.calls():
                    if ht["callee"].get("name") == "strip_suffix" and "indirect" not in ht["callee"] and len(ht["args"]) > 1 and not tables.str_list_of(hb, ht["args"][1]):
                        return True
            return False
        for b in F.with_closures(tw):
            for bi, t in b.calls():
                if t["callee"].get("name") == "strip_suffix" and "indirect" not in t["callee"] and len(t["args"]) > 1:
                    s = tables.str_list_of(b, t["args"][1])
                    if s:
                        lits.extend(s)
                    else:
                        dynamic = True
                h = F.fn(callee_def(t) or "")
                if h is not None and h.mir and h.file == tw.file and t["callee"].get("trait") is None and h.kind != "closure" and _strips_dynamic(h):
                    # the suffix list handed to the helper: every argument that is a list of string literals
                    got = []
                    for a in t["args"]:
                        got.extend(tables.str_list_of(b, a) or [])
                    if got:
                        lits.extend(got)
                    else:
                        dynamic = True
                if t["callee"].get("name") in ("to_lowercase", "to_ascii_lowercase", "eq_ignore_ascii_case", "to_uppercase", "to_ascii_uppercase") and "indirect" not in t["callee"]:
                    dynamic = True
        fams = {}
        for s in lits:
            fams.setdefault(s.lower(), set()).add(s)
        ok = bool(fams) and not dynamic and all(v == case_variants(k) for k, v in fams.items()) and set(fams) == {"'s", "'re"}
        why = ""
        if dynamic:
            ok, why = False, "suffixes are matched through a run-time case conversion; the set of accepted spellings cannot be read off (and a converted copy must not be used for lengths: see C01.R2)"
        elif not ok:
            missing = {k: sorted(case_variants(k) - v) for k, v in fams.items() if v != case_variants(k)}
            why = "apostrophe suffix spellings not closed under letter case: missing %s" % missing if missing else "suffix families are %s" % sorted(fams)
        rep.ob("C02.R5", "suffix-spellings-closed-under-case", ok, why, tw.loc(), how=str({k: len(v) for k, v in fams.items()}))
        # each family is staged with its own byte length
        stage = set()
        for b in F.with_closures(tw):
            for bi, si, s in b.assigns():
                if s["rv"].get("agg") == "tuple" and len(s["rv"]["ops"]) == 2:
                    k = tables.token_set_of(b, s["rv"]["ops"][0])
                    n = s["rv"]["ops"][1].get("const", {}).get("int")
                    if k and n is not None and len(k) == 1:
                        stage.add((next(iter(k)), int(n)))
        ok = stage == {("ApostropheS", 2), ("ApostropheRE", 3)}
        rep.ob("C02.R5", "suffix-staged-with-its-length", ok, "" if ok else "suffix tokens are staged as %s" % sorted(stage), tw.loc(), how="('s, 2) ('re, 3)")



def noise_and_blocks(ctx):
    F, rep = ctx.F, ctx.rep
    # ---- R6
    uses = {}
    n = 0
    for fn in F.all_bodies(tests=False):
        if fn.file != "src/frontend/lexer.rs":
            continue
        for bi, t in fn.calls():
            nm = t["callee"].get("name") or ""
            d = callee_def(t) or ""
            if "whitespace" in nm and "indirect" not in t["callee"] and not t["callee"].get("local"):
                n += 1
                uses.setdefault(d, []).append((fn, t))
    if uses:
        major = max(uses, key=lambda d: len(uses[d]))
        for d, sites in sorted(uses.items()):
            for fn, t in sites:
                ok = d == major
                rep.ob("C02.R6", "whitespace-classifier::%s" % common.top_fn(F, fn).path, ok,
                       "" if ok else "%s classifies white space with %s while the rest of the lexer uses %s: a character on which the two disagree ends a word but is not skipped (or the reverse)" % (
                           common.top_fn(F, fn).path, d, major), fn.loc(t["line"]), how=major.rsplit("::", 2)[-1])
    rep.floor("C02.R6", n, 2, "white-space classifications in the lexer")
    # ---- R7
    from .. import kind, kindtables as kt
    fn = F.fn("frontend::parser::is_function_terminator")
    if fn is None:
        rep.fail("C02.R7", "anchor", "frontend::parser::is_function_terminator not found")
        return
    rep.analysed(fn)
    I = kind.Interp(F)
    rows = {}
    extra = set()
    for o in I.run(fn, [("sym", "s")]):
        k = None
        els = None
        for c in o.conds:
            if isinstance(c[0], tuple) and c[0] and c[0][0] == "is":
                if c[0][1] == ("sym", "s"):
                    k = c[1]
                elif c[1] in ("Some", "None") and els is None:
                    els = c[1]
                else:
                    extra.add(str(c[1]))
            else:
                extra.add(str(c[0]))
        rows.setdefault((k, els), set()).add(kt.term(o.ret))
    if I.incomplete:
        rep.fail("C02.R7", "table", "the table of is_function_terminator could not be computed completely (%s)" % list(I.incomplete)[:2], fn.loc())
        return
    kinds = {v["name"] for v in F.adts.get("frontend::ast::Statement", {"variants": []})["variants"]}
    seen_kinds = {k for k, _ in rows}
    ok = seen_kinds == kinds and bool(kinds)
    rep.ob("C02.R7", "table::covers-all-statement-kinds", ok, "" if ok else "statement kinds without a row: %s" % sorted(kinds - seen_kinds), fn.loc(), how="%d kinds" % len(kinds))
    for (k, els), rets in sorted(rows.items(), key=str):
        want = {"True"} if (k == "If" and els == "Some") else {"False"}
        if k == "If" and els is None:
            want = None
        ok = want is not None and rets == want
        rep.ob("C02.R7", "table::%s%s" % (k, ("/else=" + els) if els else ""), ok,
               "" if ok else ("is_function_terminator(%s%s) is %s; a function body ends exactly after an if statement with an else branch" % (
                   k, (", else branch " + els) if els else "", sorted(rets)) if want is not None else "the result for `if` does not depend on whether there is an else branch"),
               fn.loc(), how=str(sorted(rets)))
    ok = not extra
    rep.ob("C02.R7", "table::depends-only-on-kind-and-else", ok, "" if ok else "the result also depends on %s: an if/else ends the function body whatever its branches contain" % sorted(extra), fn.loc(),
           how="conditions: statement kind, else branch present")
    rep.exhaustive["C02.R7 statement kinds x else-branch"] = True



def comments_rule(ctx, rule):
    F, rep = ctx.F, ctx.rep
    from ..guards import _bool_edges, _dominated_by_edge
    fn = None
    for f in F.all_fns(tests=False):
        if f.kind != "closure" and f.path.endswith("::next") and "CommentSkippingLexer" in f.path and "Iterator" in f.path:
            fn = f
    if fn is None:
        rep.fail(rule, "anchor", "impl Iterator for CommentSkippingLexer: next not found")
        return
    rep.analysed(fn)
    RET = {"copy": {"l": 0, "p": []}}
    from .c03 import kind_deep
    srcs = [(d, p) for d, p in kind_deep(fn, RET)]
    # the calls the returned Option can come from, looking through Some(..) and `?`
    calls = sorted({d[1] for d, p in srcs if d[0] == "call" and fn.term(d[1])["callee"].get("name") not in ("branch", "is_comment")})
    n = 0
    for cb in calls:
        t = fn.term(cb)
        nm = t["callee"].get("name")
        n += 1
        if nm in ("find", "skip_while", "filter") and len(t["args"]) > 1:
            # the predicate negates is_comment
            ok, why = False, "the predicate of %s is not `!token.is_comment()`" % nm
            l = op_local(t["args"][1])
            cty = fn.local_ty(l).peel_refs() if l is not None else None
            cf = F.fn(cty.d["closure"]) if cty is not None and cty.kind() == "closure" else None
            if cf is not None:
                ics = [bi for bi, ct in cf.calls() if ct["callee"].get("name") == "is_comment"]
                neg = False
                for bi, si, st in cf.assigns():
                    if st["pl"]["l"] == 0 and st["rv"].get("un") == "not" and any(d[0] == "call" and d[1] in ics for d, _ in origins(cf, st["rv"]["a"])):
                        neg = True
                want_neg = nm in ("find", "filter")
                direct = any(d[0] == "call" and d[1] in ics for d, _ in origins(cf, {"copy": {"l": 0, "p": []}}))
                if ics and ((want_neg and neg) or (not want_neg and direct and not neg)):
                    ok, why = True, ""
            rep.ob(rule, "returned-token-not-a-comment::%s" % nm, ok, why, fn.loc(t["line"]), how="%s(|t| !t.is_comment())" % nm)
        elif nm in ("next", "next_back"):
            # explicit form: wherever this token is what is returned, is_comment() of it was false (or it is the end of input)
            ics = [bi for bi, ct in fn.calls() if ct["callee"].get("name") == "is_comment" and ct["args"] and any(d[0] == "call" and d[1] == cb for d, _ in kind_deep(fn, ct["args"][0]))]
            assign_blocks = [bi for bi, si, st in fn.assigns() if st["pl"]["l"] == 0 and any(d[0] == "call" and d[1] == cb for o in ([st["rv"]["use"]] if "use" in st["rv"] else st["rv"].get("ops", [])) for d, _ in kind_deep(fn, o))]
            if t["dest"]["l"] == 0:
                assign_blocks.append(cb)
            # allowed ways from the call to a block that returns its token: the false edge of is_comment() on it, the None edge
            allowed = set()
            for ib in ics:
                be = _bool_edges(fn, ib)
                if be:
                    allowed.add((be[0], be[1]))
            for sb in range(len(fn.blocks)):
                sw = tables.arms_complete(fn, sb)
                if not sw or not any(d[0] == "call" and d[1] == cb for d, _ in kind_deep(fn, {"copy": {"l": sw[0]["l"], "p": []}})):
                    continue
                if sw[1].peel_refs().adt() == "std::option::Option" and "None" in sw[2] and sw[2].get("Some") != sw[2]["None"]:
                    allowed.add((sb, sw[2]["None"]))
                if sw[1].peel_refs().adt() == "std::ops::ControlFlow" and "Break" in sw[2] and sw[2].get("Continue") != sw[2]["Break"]:
                    allowed.add((sb, sw[2]["Break"]))
            # reachability from the call without using an allowed edge
            seen, st_ = set(), [cb]
            while st_:
                x = st_.pop()
                if x in seen:
                    continue
                seen.add(x)
                for y in fn.succs()[x]:
                    if (x, y) not in allowed:
                        st_.append(y)
            ok = not any(ab in seen and ab != cb for ab in assign_blocks) and not (t["dest"]["l"] == 0)
            rep.ob(rule, "returned-token-not-a-comment::next@%d" % calls.index(cb), ok,
                   "" if ok else "a token drawn from the underlying lexer (line %s) can be returned without having been tested with is_comment(): a second comment in a row reaches the parser" % t["line"],
                   fn.loc(t["line"]), how="returned only on the false edge of is_comment() or at end of input")
        elif nm in ("from_residual", "from_output") or (callee_def(t) or "").startswith("std::ops::"):
            # `self.lexer.next()?` : the end of input handed on
            n -= 1
        else:
            rep.ob(rule, "returned-token-not-a-comment::%s" % nm, False, "the returned token comes from %s: cannot show that it is not a comment" % (callee_def(t) or nm), fn.loc(t["line"]))
    rep.floor(rule, n, 1, "sources of the returned token")
