"""C15 — renaming variables and re-casing names or keywords never changes behaviour (case folding before every key use)."""
from ..core import callee_def, op_local, op_place
from ..flow import origins
from ..props import prop
from . import common
from .common import is_callee
from .c03 import kind_deep

TL = "exec::sym_table::ToLowercase"
KEY_OPS = ("get", "get_mut", "contains_key", "entry", "insert", "remove", "get_key_value", "try_insert", "raw_entry", "get_or_insert_with")
IDENTS = ("frontend::ast::SimpleIdentifier", "frontend::ast::CommonIdentifier", "frontend::ast::ProperIdentifier")
MAPS = ("std::collections::HashMap", "std::collections::BTreeMap", "std::collections::hash_map::HashMap", "std::collections::btree_map::BTreeMap")


def string_fields(F, adt):
    out = []
    for v in F.adts[adt]["variants"]:
        for f in v["fields"]:
            if any(t.kind() == "adt" and t.adt() == "std::string::String" for t in F.ty(f["ty"]).walk()):
                out.append(f["name"])
    return out


def fields_read(F, fn, adt):
    """names of adt fields read anywhere in fn and its closures"""
    out = set()
    for b in F.with_closures(fn):
        for bi, blk in enumerate(b.blocks):
            for s in blk["stmts"]:
                if s["k"] != "assign":
                    continue
                from ..flow import rvalue_operands
                for o in rvalue_operands(s["rv"]):
                    p = op_place(o)
                    if p is not None:
                        for of, nm, _ in common.place_fields(p):
                            if of == adt:
                                out.add(nm)
    return out


@prop("C15")
def c15(ctx):
    F, rep = ctx.F, ctx.rep
    rep.rule("C15.R1", "sanitizer before sink: every key operation (get, get_mut, contains_key, entry, insert ..) on a symbol map in "
             "exec/sym_table.rs takes a key that derives from ToLowercase::to_lowercase of the name passed in")
    rep.rule("C15.R2", "the fold is complete and Unicode-aware: each ToLowercase impl (i) reads every String field of its identifier both in the "
             "already-lower-case test and in the folding branch, (ii) folds with char::to_lowercase, (iii) returns the name unchanged only "
             "when Iterator::all(char::is_lowercase) holds over the characters of all fields")
    rep.rule("C15.R3", "keywords: KEYWORDS is read only in match_keyword, by one HashMap::get whose key is str::to_lowercase of the word on every "
             "path; scan_keyword and find_word_type both go through match_keyword; the table's keys are lower-case (C02.R1)")
    rep.rule("C15.R4", "one notion of letter case: every case classification or conversion in src/frontend and src/exec (is_uppercase, "
             "is_lowercase, to_lowercase, ...) is the Unicode function of char / str; an ASCII-only variant makes a name or keyword "
             "with a non-ASCII capital behave differently from its re-cased spelling")
    rep.rule("C15.R5", "who may compare names: the derived (spelling-sensitive) ==, ordering and hashing of VariableName / SimpleIdentifier / "
             "CommonIdentifier / ProperIdentifier / Identifier is reached, in the monomorphic call graph, only from the symbol-table "
             "lookups (whose keys are case-folded first, R1) and from the linter's repeated-mention pass; any other code comparing "
             "names compares raw spellings, so re-casing one mention changes what it decides")
    case_and_compare(ctx)
    # ---- R1
    n = 0
    for fn in F.all_bodies(tests=False):
        if not fn.file.endswith("exec/sym_table.rs"):
            continue
        for bi, t in fn.calls():
            cal = t["callee"]
            if "indirect" in cal:
                continue
            if not cal["def"].startswith(MAPS) or cal["name"] not in KEY_OPS or len(t["args"]) < 2:
                continue
            n += 1
            rep.analysed(fn)
            srcs = kind_deep(fn, t["args"][1])
            folded = any(d[0] == "call" and callee_def(fn.term(d[1])) == TL + "::to_lowercase" for d, _ in srcs)
            raw = any(d[0] == "param" for d, _ in origins(fn, t["args"][1]))
            ok = folded and not raw
            rep.ob("C15.R1", "key::%s::%s#%d" % (common.top_fn(F, fn).path, cal["name"], bi), ok,
                   "" if ok else "%s calls %s with a key that does not come from to_lowercase(): names differing only in letter case would be different variables on this path" % (fn.path, cal["def"]),
                   fn.loc(t["line"]), how="key <- to_lowercase(name)")
    rep.floor("C15.R1", n, 5, "symbol-map key operations")
    # the three tables of one SymTable are only reached through Lookup (which folds): no direct key operation elsewhere
    for fn in F.all_bodies(tests=False):
        if fn.file.endswith("exec/sym_table.rs") or not fn.file.startswith("src/exec/"):
            continue
        for f_, bi, kind, s in ():
            pass
    for field in ("simple", "common", "proper"):
        for fn, bi, kind, s in common.field_accesses(F, "exec::sym_table::SymTable", field):
            top = common.top_fn(F, fn)
            ok = fn.file.endswith("exec/sym_table.rs")
            rep.ob("C15.R1", "table-access::%s::%s" % (field, top.path), ok, "" if ok else "%s reaches into SymTable.%s directly" % (top.path, field), fn.loc(s.get("line")), how="inside sym_table.rs")
    # ---- R2
    n2 = 0
    for imp in F.impls:
        if imp.get("trait") != TL:
            continue
        st = F.ty(imp["self_ty"])
        adt = st.adt()
        if adt not in F.adts:
            continue
        fn = None
        for m in imp["methods"]:
            if m["name"] == "to_lowercase":
                fn = F.fn(m["def"])
        if fn is None:
            continue
        n2 += 1
        rep.analysed(fn)
        short = adt.rsplit("::", 1)[-1]
        want = set(string_fields(F, adt))
        bodies = F.with_closures(fn)
        # (iii) fast path guard
        IS_LOWER = ("std::char::methods::<impl char>::is_lowercase", "core::char::methods::<impl char>::is_lowercase")

        def pred_closure(b_, t_):
            l_ = op_local(t_["args"][1]) if len(t_["args"]) > 1 else None
            cl_ = b_.local_ty(l_).peel_refs() if l_ is not None else None
            return F.fn(cl_.d.get("closure", "")) if cl_ is not None and cl_.kind() == "closure" else None

        def only_lowercase(cf_, depth=0):
            """the predicate tests char::is_lowercase on every character: directly, or through a nested all() over the characters"""
            if cf_ is None or depth > 3:
                return False
            cs = [(bb, tt) for bb, tt in cf_.calls()]
            defs_ = [callee_def(tt) for bb, tt in cs]
            if len(defs_) == 1 and defs_[0] in IS_LOWER:
                return True
            inner = [(bb, tt) for bb, tt in cs if callee_def(tt) == "std::iter::Iterator::all"]
            rest = [d_ for d_ in defs_ if d_ != "std::iter::Iterator::all" and (d_ or "").rsplit("::", 1)[-1] not in ("chars", "iter", "into_iter", "deref", "as_str", "as_ref", "flatten", "map", "flat_map", "borrow")]
            return len(inner) == 1 and not rest and only_lowercase(pred_closure(cf_, inner[0][1]), depth + 1)
        # the all() tests that are not themselves inside a predicate of another all()
        inner_preds = set()
        for b_ in bodies:
            for bi_, t_ in b_.calls():
                if callee_def(t_) == "std::iter::Iterator::all":
                    pc = pred_closure(b_, t_)
                    if pc is not None:
                        inner_preds |= {x.path for x in F.with_closures(pc)}
        alls = [(b, bi, t) for b in bodies for bi, t in b.calls() if callee_def(t) == "std::iter::Iterator::all" and b.path not in inner_preds]
        guard_ok, why = False, "no Iterator::all test found"
        if len(alls) == 1:
            b, bi, t = alls[0]
            cf = pred_closure(b, t)
            flds = set()
            for d, p in kind_deep(b, t["args"][0]):
                if d[0] == "param" and p:
                    flds.add(p[0])
            # fields may be read inside adaptor closures (flatten over a Vec): count reads in the whole function before the guard
            if not only_lowercase(cf):
                why = "the already-folded test uses %s instead of char::is_lowercase on every character" % ([callee_def(tt) for bb, tt in cf.calls()] if cf is not None else "no predicate")
            else:
                # the unchanged name (Lowercased::Ref) is built only where the test held: under bool::then(test), or on its true edge
                thens = [(b2, bi2, t2) for b2 in bodies for bi2, t2 in b2.calls() if is_callee(t2, "core::bool::<impl bool>::then")]
                under_then = len(thens) == 1 and any(d[0] == "call" and d[1] == bi for d, _ in origins(thens[0][0], thens[0][2]["args"][0]))
                on_edge = False
                if not under_then:
                    from ..guards import _bool_edges, _dominated_by_edge
                    e = _bool_edges(b, bi)
                    refs = [bi2 for bi2, si2, s2 in b.assigns() if isinstance(s2["rv"].get("agg"), dict) and s2["rv"]["agg"].get("variant") == "Ref" and (s2["rv"]["agg"].get("adt") or "").endswith("Lowercased")]
                    others = [b2 for b2 in bodies if b2 is not b and any(isinstance(s2["rv"].get("agg"), dict) and s2["rv"]["agg"].get("variant") == "Ref" and (s2["rv"]["agg"].get("adt") or "").endswith("Lowercased") for _, _, s2 in b2.assigns())]
                    on_edge = bool(e) and bool(refs) and not others and all(r == e[2] or _dominated_by_edge(b, r, e[0], e[2]) for r in refs)
                if not under_then and not on_edge:
                    why = "the unchanged name is not returned under bool::then(all lower-case)"
                elif not want <= flds and not (len(want) == 1 and flds):
                    why = "the already-folded test looks at fields %s of %s, not at all of %s" % (sorted(flds), short, sorted(want))
                else:
                    guard_ok, why = True, ""
        rep.ob("C15.R2", "unchanged-only-if-all-lowercase::" + short, guard_ok, why, fn.loc(), how="all(char::is_lowercase) over every field")
        # (i)/(ii) folding branch: every string field flows, character by character, into char::to_lowercase (directly, through
        # adaptor closures, or through a local helper), and nothing ASCII-only is used
        helper_bodies = list(bodies)
        seen_h = {b.path for b in bodies}
        frontier = list(bodies)
        for _ in range(3):
            nxt = []
            for b in frontier:
                for bi, t in b.calls():
                    h = F.fn(callee_def(t) or "")
                    if h is not None and h.mir and h.path not in seen_h and not h.in_test_file() and t["callee"].get("trait") is None:
                        for hb in F.with_closures(h):
                            if hb.path not in seen_h:
                                seen_h.add(hb.path)
                                helper_bodies.append(hb)
                                nxt.append(hb)
            frontier = nxt
        folds = [(b, bi, t) for b in helper_bodies for bi, t in b.calls() if (callee_def(t) or "").endswith("<impl char>::to_lowercase")]
        other_folds = [(b, bi, t) for b in helper_bodies for bi, t in b.calls() if t["callee"].get("name") in ("to_ascii_lowercase", "make_ascii_lowercase") and "indirect" not in t["callee"]]
        news = [(b, bi, s) for b in bodies for bi, si, s in b.assigns() if isinstance(s["rv"].get("agg"), dict) and s["rv"]["agg"].get("variant") == "New"]
        ok = len(folds) >= 1 and not other_folds and len(news) == 1
        why = "" if ok else "the folding branch does not build Lowercased::New from char::to_lowercase (%d char folds, %d ASCII-only folds)" % (len(folds), len(other_folds))
        if ok:
            nb = news[0][0]
            folded = set()
            for f_ in sorted(want):
                if _field_reaches_fold(F, nb, adt, f_):
                    folded.add(f_)
            if not want <= folded:
                ok, why = False, "the folding branch folds fields %s of %s with char::to_lowercase, not all of %s" % (sorted(folded), short, sorted(want))
        rep.ob("C15.R2", "folds-every-field::" + short, ok, why, fn.loc(), how="%s through char::to_lowercase" % sorted(want))
    rep.floor("C15.R2", n2, 3, "ToLowercase impls")
    # ---- R3
    mk = F.fn("frontend::lexer::match_keyword")
    if mk is None:
        rep.fail("C15.R3", "anchor", "frontend::lexer::match_keyword not found")
    else:
        rep.analysed(mk)
        gets = [(bi, t) for bi, t in mk.calls() if (callee_def(t) or "").startswith(MAPS) and t["callee"]["name"] in KEY_OPS]
        ok = len(gets) == 1
        why = "" if ok else "expected one lookup in the keyword table, found %d (a lookup with the unfolded word makes recognition depend on letter case)" % len(gets)
        if ok:
            bi, t = gets[0]
            srcs = kind_deep(mk, t["args"][1])
            low = [d[1] for d, _ in srcs if d[0] == "call" and (is_callee(mk.term(d[1]), *STR_LOWER) or _is_fold_helper(F, mk, mk.term(d[1])))]
            if not low:
                ok, why = False, "the key of the keyword lookup is not str::to_lowercase(word)"
            elif not any(mk.dominates(l, bi) for l in low):
                ok, why = False, "the word is lower-cased only on some paths to the lookup"
            elif not any(d[0] == "param" and d[1] == 1 for d, _ in kind_deep(mk, mk.term(low[0])["args"][0])):
                ok, why = False, "what is lower-cased is not the word passed in"
        rep.ob("C15.R3", "keyword-lookup-folds-first", ok, why, mk.loc(), how="KEYWORDS.get(word.to_lowercase())")
    users = []
    for fn, bi, t in common.who_calls(F, lambda c: "KEYWORDS" in (c.get("resolved") or "") and c.get("name") == "deref"):
        if "lazy_static::LazyStatic" in common.top_fn(F, fn).path:
            continue  # the macro-generated initialize() hook
        users.append(common.top_fn(F, fn).path)
    ok = set(users) <= {"frontend::lexer::match_keyword"} and bool(users)
    rep.ob("C15.R3", "keyword-table-read-only-in-match_keyword", ok, "" if ok else "KEYWORDS is read in %s" % sorted(set(users)), None, how="one reader")
    for name in ("scan_keyword", "find_word_type"):
        fn = F.fn("frontend::lexer::Lexer::<'a>::" + name)
        if fn is None:
            rep.fail("C15.R3", "anchor::" + name, "Lexer::%s not found" % name)
            continue
        cs = [bi for bi, t in fn.calls() if callee_def(t) == "frontend::lexer::match_keyword"]
        ok = len(cs) == 1 and fn.dominates(cs[0], fn.return_blocks()[0])
        rep.ob("C15.R3", "goes-through-match_keyword::" + name, ok, "" if ok else "%s does not classify every word with match_keyword" % name, fn.loc(), how="match_keyword on every path")



NAME_TYPES = ("VariableName", "SimpleIdentifier", "CommonIdentifier", "ProperIdentifier", "Identifier")
MAY_COMPARE = (
    ("<std::collections::HashMap<T, exec::sym_table::SymTableEntry> as exec::sym_table::Lookup<T>>::", "symbol-table map: keys are case-folded before every operation (C15.R1)"),
    ("<std::collections::BTreeMap<frontend::ast::ProperIdentifier, exec::sym_table::SymTableEntry> as exec::sym_table::Lookup<frontend::ast::ProperIdentifier>>::", "symbol-table map: keys are case-folded before every operation (C15.R1)"),
    ("linter::passes::missed_pronoun::MissedPronounPassImpl::match_or_update", "the linter's repeated-mention rule is about spellings (C19)"),
)


def case_rule(ctx, rule):
    """one notion of letter case (shared with C02)"""
    import re
    F, rep = ctx.F, ctx.rep
    n = 0
    for fn in F.all_bodies(tests=False):
        if not (fn.file.startswith("src/frontend/") or fn.file.startswith("src/exec/")):
            continue
        for bi, t in fn.calls():
            cal = t["callee"]
            nm = cal.get("name") or ""
            if cal.get("local") or "indirect" in cal or not re.search(r"(upper|lower)case|ignore_ascii_case", nm):
                continue
            n += 1
            d = cal.get("def") or ""
            ok = "ascii" not in nm and (d.startswith("std::char::methods::<impl char>::") or d.startswith("std::str::<impl str>::") or d.startswith("alloc::str::<impl str>::"))
            rep.ob(rule, "case-function::%s::%s" % (common.top_fn(F, fn).path, nm), ok,
                   "" if ok else "%s classifies / converts letter case with %s: a non-ASCII letter is treated differently from its re-cased spelling" % (common.top_fn(F, fn).path, d),
                   fn.loc(t["line"]), how="Unicode " + nm)
    rep.floor(rule, n, 6, "case classifications / conversions")
    # ... and one notion of *character*: text is classified by chars, never by bytes dressed up as chars (a continuation byte of a
    # multi-byte letter read as a Latin-1 character is a blank / a letter of another case for some letters and not for their re-cased forms)
    m = 0
    bad = None
    for fn in F.all_bodies(tests=False):
        if not (fn.file.startswith("src/frontend/") or fn.file.startswith("src/exec/")) or fn.is_derived():
            continue
        m += 1
        for bi, t in fn.calls():
            inst = t["callee"].get("inst") or ""
            if "char as std::convert::From<u8>" in inst:
                bad = (fn, t["line"], "char::from(u8)")
            for a in t["args"]:
                c_ = a.get("const")
                if c_ and "fn" in c_ and "char as std::convert::From<u8>" in c_["fn"]:
                    bad = (fn, t["line"], "char::from handed to an adaptor")
        for bi, si, st in fn.assigns():
            if st["rv"].get("cast") and F.ty(st["rv"]["to"]).s == "char" and F.ty(st["rv"]["from"]).s == "u8":
                bad = (fn, st.get("line"), "`u8 as char`")
    ok = bad is None and m >= 100
    rep.ob(rule, "characters-not-bytes", ok,
           "" if ok else ("%s turns a byte of the text into a char with %s: multi-byte letters are classified by their UTF-8 bytes, which differs between a letter and its re-cased form" % (common.top_fn(F, bad[0]).path, bad[2]) if bad else "only %d bodies found" % m),
           bad[0].loc(bad[1]) if bad else None, how="%d bodies of src/frontend and src/exec, no u8 -> char conversion" % m)


def case_and_compare(ctx):
    F, rep = ctx.F, ctx.rep
    case_rule(ctx, "C15.R4")
    rep.rule("C15.R9", "a name is its spelling: the text stored in a SimpleIdentifier / CommonIdentifier / ProperIdentifier built by the parser comes "
             "from the tokens' spellings through conversions only (into / to_owned / clone ...) -- nothing replaces, trims or re-cases "
             "characters on one of the paths that build names (a name written with a capital would then be another variable than the same name "
             "written without)")
    DENY = {"replace", "replacen", "trim", "trim_matches", "trim_start_matches", "trim_end_matches", "trim_start", "trim_end", "to_lowercase", "to_uppercase",
            "to_ascii_lowercase", "to_ascii_uppercase", "strip_prefix", "strip_suffix", "split", "retain", "remove", "truncate", "filter", "escape_debug"}
    n9 = 0
    for adt_ in ("frontend::ast::SimpleIdentifier", "frontend::ast::CommonIdentifier", "frontend::ast::ProperIdentifier"):
        for fn_, bi_, st_ in common.aggregates_of(F, adt_):
            if not fn_.file.endswith("frontend/parser.rs"):
                continue
            n9 += 1
            names_ = set()
            for o_ in st_["rv"].get("ops", []):
                names_ |= common.deep_call_names(F, fn_, o_)
            bad_ = sorted(names_ & DENY)
            rep.ob("C15.R9", "name-is-its-spelling::%s::%s" % (adt_.rsplit("::", 1)[-1], common.top_fn(F, fn_).path.rsplit("::", 1)[-1]), not bad_,
                   "" if not bad_ else "%s builds a %s from text that went through %s: the stored name is no longer the spelling, on this path only" % (common.top_fn(F, fn_).path.rsplit("::", 1)[-1], adt_.rsplit("::", 1)[-1], bad_),
                   fn_.loc(st_.get("line")), how="spelling -> name by conversion only")
    rep.floor("C15.R9", n9, 3, "name constructions in the parser")
    rep.rule("C15.R8", "what may follow an article or possessive is any word: the matcher of the second word in Parser::parse_common_identifier is "
             "exactly lexer::is_word on the token's spelling (the same notion of word the poetic literals use) -- a narrower test makes some "
             "spellings valid as simple or proper names and invalid as common names")
    pci = F.fn("frontend::parser::Parser::<'a>::parse_common_identifier")
    if pci is None:
        rep.fail("C15.R8", "anchor", "Parser::parse_common_identifier not found")
    else:
        rep.analysed(pci)
        preds = []
        for b in common.bodies_with_helpers(F, pci, depth=1):
            if b.file != pci.file:
                continue
            for bi, t in b.calls():
                if callee_def(t) == "frontend::parser::Parser::<'a>::match_and_consume" and len(t["args"]) > 1:
                    l = op_local(t["args"][1])
                    ty = b.local_ty(l).peel_refs() if l is not None else None
                    if ty is not None and ty.kind() == "closure":
                        cf = F.fn(ty.d["closure"])
                        if cf is not None:
                            preds.append(cf)
        ok, why = len(preds) == 1, "" if len(preds) == 1 else "expected one closure matcher in parse_common_identifier, found %d" % len(preds)
        if ok:
            cs = [callee_def(t) for b in F.with_closures(preds[0]) for bi, t in b.calls() if (t["callee"].get("name") or "") not in ("deref", "as_ref", "borrow", "as_str")]
            if cs != ["frontend::lexer::is_word"]:
                ok, why = False, "the word after an article is tested with %s instead of lexer::is_word alone" % [x.rsplit("::", 1)[-1] if x else "?" for x in cs]
        rep.ob("C15.R8", "common-name-word-is-any-word", ok, why, pci.loc(), how="|tok| is_word(tok.spelling)")
    rep.rule("C15.R7", "the three kinds of name live and die together: a scope's three tables (simple, common, proper) are created together and "
             "none is carried over from an earlier scope -- every table pushed onto Environment.symbols is freshly constructed (C05.R8 "
             "re-checked here), so a proper name behaves like a simple one when a block, a loop round or a call ends")
    from .c05 import fresh_scope_rule as _fresh, ENV as _ENV
    _env = common.inherent_methods(F, _ENV)
    common.rerun_under(ctx, lambda c: _fresh(c, _env), "C15.R7")
    rep.rule("C15.R6", "whether a name was already lower-case is invisible: only the methods of Lowercased itself branch on its Ref / New "
             "variants; any other code that distinguishes them treats a name differently from its re-cased spelling")
    from .. import tables as _tables
    LC = "exec::sym_table::Lowercased"
    n6 = 0
    for fn in F.all_bodies(tests=False):
        if fn.is_derived():
            continue
        for sb in range(len(fn.blocks)):
            sw = _tables.switch_on_discr(fn, sb)
            if not sw or sw[1].peel_refs().adt() != LC:
                continue
            n6 += 1
            top = common.top_fn(F, fn)
            isf = top.d.get("impl_self")
            isf = F.ty(isf).peel_refs().adt() if isinstance(isf, int) else (isf or "")
            ok = (isf or "").startswith(LC) or top.path.startswith(LC + "::") or top.path.startswith("<" + LC)
            rep.ob("C15.R6", "inspects-lowercased::%s" % top.path, ok, "" if ok else "%s branches on whether the folded name is Lowercased::Ref or ::New, i.e. on whether the spelling contained a capital" % top.path,
                   fn.loc(fn.term(sb).get("line")), how="method of Lowercased")
    rep.floor("C15.R6", n6, 1, "branches on the Lowercased variant")
    # ---- R5
    targets = [i for i, inst in enumerate(F.insts)
               if any(("<frontend::ast::%s as std::%s" % (nt, tr)) in inst.def_ for nt in NAME_TYPES for tr in ("cmp::PartialEq>", "hash::Hash>", "cmp::Ord>", "cmp::PartialOrd>"))]
    rev = {}
    for i, inst in enumerate(F.insts):
        for c in inst.calls:
            rev.setdefault(c[1], set()).add(i)
    m = 0
    for tgt in targets:
        seen = set()
        st = [tgt]
        callers = set()
        while st:
            x = st.pop()
            for p in rev.get(x, ()):
                if p in seen:
                    continue
                seen.add(p)
                pi = F.insts[p]
                f = F.fn(pi.def_)
                if pi.local and f is not None and not f.is_derived():
                    if not f.in_test_file():
                        callers.add(f)
                else:
                    st.append(p)
        what = F.insts[tgt].def_
        for f in sorted(callers, key=lambda x: x.path):
            m += 1
            why_ok = next((r for pref, r in MAY_COMPARE if f.path.startswith(pref)), None)
            rep.ob("C15.R5", "compares-names::%s::%s" % (common.top_fn(F, f).path, what.split(" as ")[0].rsplit("::", 1)[-1] + "::" + what.rsplit("::", 1)[-1]), why_ok is not None,
                   "" if why_ok else "%s reaches %s: it compares names by their raw spelling, so two mentions that differ only in letter case are different names here and the same name in the symbol table" % (f.path, what),
                   f.loc(), how=why_ok)
    rep.floor("C15.R5", m, 6, "(caller, comparison) pairs")



STR_LOWER = ("core::str::<impl str>::to_lowercase", "str::<impl str>::to_lowercase", "alloc::str::<impl str>::to_lowercase", "std::str::<impl str>::to_lowercase")


def _is_fold_helper(F, caller, t):
    """a private function of the same file that returns str::to_lowercase of its (only) argument and does nothing else"""
    h = F.fn(callee_def(t) or "")
    if h is None or not h.mir or h.file != caller.file or h.kind == "closure" or t["callee"].get("trait") is not None or h.argc != 1:
        return False
    cs = [(bi, tt) for bi, tt in h.calls() if (tt["callee"].get("name") or "") not in ("deref", "as_ref", "as_str", "borrow")]
    if len(cs) != 1 or not is_callee(cs[0][1], *STR_LOWER):
        return False
    if not any(d[0] == "param" and d[1] == 1 for d, _ in kind_deep(h, cs[0][1]["args"][0])):
        return False
    return common.flows_into(h, cs[0][0], {"copy": {"l": 0, "p": []}}) and not common.path_to_return_avoiding(h, [cs[0][0]], through_errors=True)


def _field_reaches_fold(F, body, adt, field, depth=0):
    """does a read of adt.field in `body` (or its closures) flow into char::to_lowercase, possibly through local helpers?"""
    from ..flow import Labels, rvalue_operands
    seeds = {}
    for b in F.with_closures(body):
        for bi, si, s in b.assigns():
            rv = s["rv"]
            places = []
            if "ref" in rv:
                places.append(rv["ref"])
            for o in rvalue_operands(rv):
                p = op_place(o)
                if p is not None:
                    places.append(p)
            for p in places:
                if any(of == adt and nm == field for of, nm, _ in common.place_fields(p)):
                    seeds.setdefault((b.path, s["pl"]["l"]), set()).add("f")
        for bi, t in b.calls():
            for a in t["args"]:
                p = op_place(a)
                if p is not None and any(of == adt and nm == field for of, nm, _ in common.place_fields(p)):
                    seeds.setdefault((b.path, t["dest"]["l"]), set()).add("f")
    if not seeds:
        return False
    # labels are seeded per body; run from the outermost function that contains them so that closures are connected
    top = common.top_fn(F, body)
    return _labels_reach_fold(F, top, seeds, 0)


def _labels_reach_fold(F, fn, seeds, depth):
    from ..flow import Labels
    lab = Labels(F, fn, seeds)
    for b in F.with_closures(fn):
        for bi, t in b.calls():
            d = callee_def(t) or ""
            labelled = [i for i, a in enumerate(t["args"]) if lab.op_labels(b, a)]
            if not labelled:
                continue
            if d.endswith("<impl char>::to_lowercase"):
                return True
            h = F.fn(d)
            if h is not None and h.mir and depth < 3 and t["callee"].get("trait") is None and not h.in_test_file():
                if _labels_reach_fold(F, h, {(h.path, i + 1): {"f"} for i in labelled}, depth + 1):
                    return True
    return False
