"""C13 — syntax errors are rejected: end-of-statement enforcement, no swallowed parse error, Ok(Program) only at end of input,
required tokens, no-statement kinds handled."""
from .. import tables, tokens, progress
from ..core import callee_def, op_local, op_place
from ..flow import origins
from ..props import prop
from . import common
from .common import is_callee, flows_into, exactly_once_on_normal_paths, path_to_return_avoiding, error_exit_blocks
from .c03 import kind_deep

PARSER = "frontend::parser::Parser::<'a>::"
RET0 = {"copy": {"l": 0, "p": []}}


def in_parser(fn):
    return fn.file.endswith("frontend/parser.rs") or fn.file.endswith("frontend/parser/display.rs")


def no_statement_rule(ctx, rule):
    F, rep = ctx.F, ctx.rep
    N, where = progress.no_statement_kinds(F)
    if N is None:
        rep.fail(rule, "anchor", "the dispatch of parse_statement on the current token kind was not found")
        return
    rep.analysed(where)
    rep.notes["no_statement_kinds"] = sorted(N)
    entry = {PARSER + "parse_statement": set(), }
    # functions that begin by trying a statement, with the kinds they deal with before doing so
    for name in ("parse_block", "parse_function_block"):
        fn = F.fn(PARSER + name)
        if fn is None:
            continue
        cs = [bi for bi, t in fn.calls() if callee_def(t) == PARSER + "parse_statement"]
        if not cs:
            # the statement step may sit in a closure driven by a library loop: it runs where the iterator is consumed
            for b in F.with_closures(fn):
                for bi, t in b.calls():
                    if b is not fn and callee_def(t) == PARSER + "parse_statement":
                        cs += sorted(common.site_anchors(F, fn, b, bi))
        if cs:
            entry[fn.path] = progress.handled_before_statement(F, fn, cs[0], N)
    n = 0
    for fn in F.all_fns(tests=False):
        if not fn.file.endswith("frontend/parser.rs") or fn.kind == "closure":
            continue
        for scc in fn.sccs():
            hs = [(b, callee_def(fn.term(b))) for b in sorted(scc) if fn.term(b)["k"] == "call" and callee_def(fn.term(b)) in entry]
            if not hs:
                continue
            n += 1
            rep.analysed(fn)
            hb, hpath = hs[0]
            handled = set(entry[hpath])
            for b in scc:
                t = fn.term(b)
                if t["k"] != "call" or b == hb:
                    continue
                d = callee_def(t) or ""
                if d in (PARSER + "expect_eol", PARSER + "expect_token", PARSER + "expect_any", PARSER + "expect_token_or_end"):
                    # anything that is not what is expected is rejected; what is expected is consumed
                    if not (b in fn.reachable_from_succs(hb, avoid=[b]) and hb in fn.reachable_from_succs(hb, avoid=[b])):
                        handled |= N
                elif d == PARSER + "match_and_consume":
                    ks = tokens.resolve_token_set(F, fn, t["args"][1]) or set()
                    if hb not in fn.reachable_from_succs(hb, avoid=[b]):
                        handled |= ks & N
                elif d == PARSER + "current_matches":
                    ks = tokens.resolve_token_set(F, fn, t["args"][1]) or set()
                    from ..guards import _bool_edges
                    e = _bool_edges(fn, b)
                    # the matching edge must leave the loop (return / error), and every iteration must pass the test
                    if e and hb not in fn.reachable(e[2], avoid=[b]) and hb not in fn.reachable_from_succs(hb, avoid=[b]):
                        handled |= ks & N
            for k in sorted(N):
                ok = k in handled
                rep.ob(rule, "no-statement-kind::%s::%s" % (fn.path, k), ok,
                       "" if ok else "%s loops on %s; for a current token of kind %s no statement is parsed, nothing is consumed and nothing is rejected, so the loop makes no "
                       "progress (the input is never fully parsed)" % (fn.path, hpath.rsplit("::", 1)[-1], k), fn.loc(fn.term(hb)["line"]),
                       how="consumed or rejected on every iteration")
    rep.floor(rule, n, 2, "loops that re-enter statement parsing")


@prop("C13")
def c13(ctx):
    F, rep = ctx.F, ctx.rep
    rep.rule("C13.R1", "end of statement: in parse_block and parse_function_block every cycle through parse_statement passes expect_eol, "
             "whose error is propagated; expect_eol also follows the condition of if/while/until and the parameter list; expect_eol itself "
             "calls expect_token_or_end(Newline) on every path and returns its verdict; expect_token_or_end yields Ok(None) only at end "
             "of input and an ExpectedToken error for any other token")
    rep.rule("C13.R2", "ERRFLOW over the parser: no Result carrying a ParseError is discarded, defaulted, dropped or matched without looking")
    rep.rule("C13.R3", "Ok(Program) is returned only on the edge where current() is None")
    rep.rule("C13.R4", "required tokens: expect_token / expect_any / expect_token_ispelled / expect_identifier / expect_variable_name turn "
             "'nothing matched' into an error built from the current position; no token set or dispatch arm of the parser mentions the "
             "Error kind, so an error token is always rejected; the lexer turns every word with a non-letter into an Error token")
    rep.rule("C13.R5", "no-statement kinds (shared with C01.R4): every kind for which parse_statement yields 'no statement' without consuming "
             "is consumed or rejected on every iteration of every loop that re-enters statement parsing")
    rep.rule("C13.R6", "line attribution: the number a parse error prints for a token location is the `line` of the *start* of that token's "
             "range (a token spanning several lines lies on the line it starts on), and for a line location the stored line itself")
    line_attribution(ctx)
    rep.rule("C13.R7", "line attribution depends on the lexer's line bookkeeping: the C12.R6 merge rule (a token merged with its suffix keeps its "
             "own newline count and line start) re-checked here, because every later error line is computed from it")
    from .c12 import merge_rule
    merge_rule(ctx, "C13.R7")
    rep.rule("C13.R8", "an operand follows every separator / operator: in every parser loop that is driven by match_and_consume(separators or "
             "operators) and parses an element per round (parameter lists, binary and comparison chains), once the separator has been "
             "consumed the loop can neither be left normally nor go round again without having called the element parser, whose error is "
             "propagated -- `Foo taking 1, and` is not a complete call")
    operand_after_separator(ctx, "C13.R8")
    rep.rule("C13.R9", "look before you take: every place where the parser advances its own token stream directly (Iterator::next on "
             "Parser.lexer, not on a clone) either sits on the accepting side of a test of the token it takes (a closure mapped over a "
             "filtered / matched view of current() or of a peek on a clone; the true edge of such a test), or is the reviewed primitive "
             "`consume`, or is followed by no error located at the then-current token (new_parse_error) other than the one for the end "
             "of input -- a token is never taken first and rejected afterwards, which would move the reported position past the "
             "offending token")
    look_before_take(ctx, "C13.R9")
    rep.rule("C13.R10", "which words may be left out: the token kinds the parser matches *optionally and without looking at the outcome* "
             "(match_and_consume(K) whose result is unused) are exactly the reviewed optional words of the grammar -- `and` after a list "
             "comma, the `,`/`.` before an end of line, the `,` between `up`s / `down`s, `back` around the value of a return; a keyword "
             "that the grammar requires (`than`, `into`, `be`, `as` ...) must be demanded with expect_token / expect_any, whose error is "
             "propagated (R4, ERRFLOW), so leaving it out is a parse error")
    optional_words_rule(ctx, "C13.R10")
    rep.rule("C13.R11", "a keyword that announces an operand gets one: wherever `into` has been matched (the optional destination of cut / join / "
             "cast / roll), every non-error path on from the match passes a *required* parser -- a parser method whose success type is not "
             "an Option (parse_assignment_lhs, expect_identifier ...), directly or as the closure mapped over the match -- so a missing "
             "destination is an error, not `no destination`; and build / knock demand their first `up` / `down` with expect_token(suffix) on "
             "every non-error path (a comma alone is not an amount)")
    required_operand_rule(ctx, "C13.R11")
    # ---- R1
    for name, exits_allowed in (("parse_block", False), ("parse_function_block", True)):
        fn = F.fn(PARSER + name)
        if fn is None:
            rep.fail("C13.R1", "anchor::" + name, "Parser::%s not found" % name)
            continue
        rep.analysed(fn)
        ps = [bi for bi, t in fn.calls() if callee_def(t) == PARSER + "parse_statement"]
        eol = [bi for bi, t in fn.calls() if callee_def(t) == PARSER + "expect_eol"]
        if not ps and not eol:
            # form B: the statement step is a closure driven by a library loop (iter::from_fn(step) collected into a Result)
            okB, whyB = _statement_step_closure(ctx, fn)
            if okB is not None:
                rep.ob("C13.R1", "eol-between-statements::" + name, okB, whyB, fn.loc(), how="step closure: Some(Ok(s)) only after expect_eol() succeeded, Err handed on, None when no statement; consumed by a short-circuiting collect")
                continue
        ok = len(ps) == 1 and len(eol) == 1
        why = "" if ok else "expected one parse_statement and one expect_eol call, found %d / %d" % (len(ps), len(eol))
        if ok:
            S, E = ps[0], eol[0]
            if S in fn.reachable_from_succs(S, avoid=[E]):
                ok, why = False, "a second statement can be parsed without an end-of-line check after the first"
            else:
                tries = [b for b, t in fn.calls() if callee_def(t) == "std::ops::Try::branch" and flows_into(fn, E, t["args"][0])]
                if not tries:
                    ok, why = False, "the verdict of expect_eol is not propagated with `?`"
                else:
                    sw = tables.arms_complete(fn, fn.term(tries[0])["t"])
                    if not sw or S in fn.reachable(sw[2].get("Break", -1), avoid=[]) :
                        ok, why = False, "after a failed end-of-line check parsing continues"
        rep.ob("C13.R1", "eol-between-statements::" + name, ok, why, fn.loc(), how="every cycle through parse_statement passes expect_eol()?")
    for name, before, after in (("parse_if_statement", "parse_expression", "parse_block"), ("parse_loop", "parse_expression", "parse_block"), ("parse_function", "parse_parameter_list", "parse_function_block")):
        fn = F.fn(PARSER + name)
        if fn is None:
            rep.fail("C13.R1", "anchor::" + name, "Parser::%s not found" % name)
            continue
        rep.analysed(fn)
        eol = [bi for bi, t in fn.calls() if callee_def(t) == PARSER + "expect_eol"]
        bs = [bi for bi, t in fn.calls() if callee_def(t) == PARSER + before]
        as_ = [bi for bi, t in fn.calls() if callee_def(t) == PARSER + after]
        ok = len(eol) >= 1 and bool(bs) and bool(as_) and fn.dominates(bs[0], eol[0]) and all(fn.dominates(eol[0], a) for a in as_) \
            and any(callee_def(t) == "std::ops::Try::branch" and flows_into(fn, eol[0], t["args"][0]) for b, t in fn.calls())
        rep.ob("C13.R1", "eol-after-header::" + name, ok, "" if ok else "%s does not require an end of line between %s and %s" % (name, before, after), fn.loc(), how="%s ; expect_eol()? ; %s" % (before, after))
    ee = F.fn(PARSER + "expect_eol")
    if ee is None:
        rep.fail("C13.R1", "anchor::expect_eol", "Parser::expect_eol not found")
    else:
        rep.analysed(ee)
        sites = [bi for bi, t in ee.calls() if callee_def(t) == PARSER + "expect_token_or_end"]
        ok, why = exactly_once_on_normal_paths(ee, sites)
        if ok:
            t = ee.term(sites[0])
            if tables.token_set_of(ee, t["args"][1]) != {"Newline"}:
                ok, why = False, "expect_eol does not expect a Newline"
            elif not flows_into(ee, sites[0], RET0):
                ok, why = False, "the verdict of expect_token_or_end is not what expect_eol returns"
            else:
                opt = [tokens.resolve_token_set(F, ee, tt["args"][1]) for b, tt in ee.calls() if callee_def(tt) == PARSER + "match_and_consume"]
                if any(o is None or not o <= {"Comma", "Dot"} for o in opt):
                    ok, why = False, "expect_eol optionally consumes %s before the line end" % opt
        else:
            why = "expect_token_or_end(Newline): " + why + " (after optional punctuation the line end would no longer be required)"
        rep.ob("C13.R1", "expect_eol-requires-newline-or-end", ok, why, ee.loc(), how="[, .]? then expect_token_or_end(Newline) on every path")
    eo = F.fn(PARSER + "expect_token_or_end")
    if eo is None:
        rep.fail("C13.R1", "anchor::expect_token_or_end", "Parser::expect_token_or_end not found")
    else:
        rep.analysed(eo)
        # outcome table by KIND (whatever idiom): end of input -> Ok(None); current token of the expected kind -> consumed, Ok(it);
        # any other token -> Err(ExpectedToken(kind)), nothing consumed
        from .. import kind as _kind, kindtables as _kt
        from ..kind import E as _E, c as _kc
        OPT_, TOK_ = "std::option::Option", "frontend::lexer::Token"

        def m_current(I_, f, st, t, args, depth):
            yield _E(OPT_, "None"), None, ((("current",), "end"),)
            yield _E(OPT_, "Some", _E(TOK_, "Token", ("sym", "cur_id"), ("sym", "sp"), ("sym", "rg"))), None, ((("current",), "some"),)

        def m_next(I_, f, st, t, args, depth):
            yield ("call", "lexer_next", ()), None, ((("consumed",), "1"),)

        def m_err(I_, f, st, t, args, depth):
            yield ("call", "parse_error", (_kind._short(args[1]),)), None, ()

        def m_eq(I_, f, st, t, args, depth):
            yield _kc(True), None, ((("id==tok",), "T"),)
            yield _kc(False), None, ((("id==tok",), "F"),)
        I_ = _kind.Interp(F, models={PARSER + "current": m_current, "std::iter::Iterator::next": m_next, PARSER + "new_parse_error": m_err, "std::cmp::PartialEq::eq": m_eq,
                                     "std::cmp::PartialEq::ne": lambda I2, f, st, t, args, depth: iter([(_kc(False), None, ((("id==tok",), "T"),)), (_kc(True), None, ((("id==tok",), "F"),))])})
        got = set()
        for o in I_.run(eo, [("sym", "self"), ("sym", "tok")]):
            cd = {c_[0][0]: c_[1] for c_ in o.conds if isinstance(c_[0], tuple) and len(c_[0]) == 1}
            got.add((cd.get("current"), cd.get("id==tok"), "consumed" if "consumed" in cd else "-", _kt.term(o.ret)))
        want = {("end", None, "-", "Ok(None)"), ("some", "T", "consumed", "Ok(lexer_next())"), ("some", "F", "-", "Err(parse_error(ExpectedToken(tok)))")}
        ok = got == want and not I_.incomplete
        why = "" if ok else "table is %s; the rule: end of input -> Ok(None); matching token -> consumed; other token -> Err(ExpectedToken), nothing consumed" % sorted(got, key=str)
        rep.ob("C13.R1", "expect_token_or_end-table", ok, why, eo.loc(), how="None -> Ok(None); Some -> filter(id == tok).map(next).ok_or_else(ExpectedToken)")
    # ---- R2
    n = common.errflow(ctx, "C13.R2", in_parser)
    rep.floor("C13.R2", n, 80, "error-carrying call results in the parser")
    # ---- R3
    pp = F.fn(PARSER + "parse")
    if pp is None:
        rep.fail("C13.R3", "anchor", "Parser::parse not found")
    else:
        rep.analysed(pp)
        oks = [bi for bi, si, s in pp.assigns() if s["pl"]["l"] == 0 and isinstance(s["rv"].get("agg"), dict) and s["rv"]["agg"].get("variant") == "Ok"]
        guard = None
        for bi, t in pp.calls():
            if is_callee(t, "std::option::Option::<T>::is_some") and any(d[0] == "call" and callee_def(pp.term(d[1])) == PARSER + "current" for d, _ in origins(pp, t["args"][0])):
                from ..guards import _bool_edges, _dominated_by_edge
                e = _bool_edges(pp, bi)
                if e:
                    guard = (bi, e)
        ok = len(oks) == 1 and guard is not None
        if ok:
            from ..guards import _dominated_by_edge
            ok = _dominated_by_edge(pp, oks[0], guard[1][0], guard[1][1])
        rep.ob("C13.R3", "ok-only-at-end-of-input", ok, "" if ok else "Parser::parse can return Ok(Program) while tokens remain: the rest of the input would be silently dropped", pp.loc(),
               how="Ok(Program) only on the false edge of current().is_some()")
    # ---- R4
    for name in ("expect_token", "expect_any", "expect_token_ispelled", "expect_identifier", "expect_variable_name"):
        fn = F.fn(PARSER + name)
        if fn is None:
            rep.fail("C13.R4", "anchor::" + name, "Parser::%s not found" % name)
            continue
        rep.analysed(fn)
        ooe = [(bi, t) for bi, t in fn.calls() if is_callee(t, "std::option::Option::<T>::ok_or_else", "std::option::Option::<T>::ok_or")]
        ok = len(ooe) == 1 and ooe[0][1]["dest"]["l"] == 0
        why = "" if ok else "%s does not end in `.ok_or_else(error)`: 'nothing matched' may be returned as success" % name
        if ok:
            cl = fn.local_ty(op_local(ooe[0][1]["args"][1])).peel_refs() if op_local(ooe[0][1]["args"][1]) is not None else None
            cf = F.fn(cl.d.get("closure", "")) if cl is not None and cl.kind() == "closure" else None
            if cf is None or not any(callee_def(t) == PARSER + "new_parse_error" for bi, t in cf.calls()):
                ok, why = False, "the error of %s is not built by new_parse_error (current token / line)" % name
        rep.ob("C13.R4", "none-is-error::" + name, ok, why, fn.loc(), how="matched.ok_or_else(|| self.new_parse_error(..))")
    mentions = []
    for fn in F.all_bodies(tests=False):
        if not fn.file.endswith("frontend/parser.rs"):
            continue
        for bi, t in fn.calls():
            if (callee_def(t) or "").startswith(PARSER) and len(t["args"]) > 1 and t["callee"]["name"] in ("match_and_consume", "expect_any", "expect_token", "consume", "current_matches", "expect_token_or_end"):
                ks = tables.token_set_of(fn, t["args"][1])
                if ks and "Error" in ks:
                    mentions.append(fn.path)
        for bi in range(len(fn.blocks)):
            sw = tables.switch_on_discr(fn, bi)
            if sw and sw[1].peel_refs().adt() == "frontend::lexer::TokenType" and "Error" in sw[2]:
                mentions.append(fn.path)
    rep.ob("C13.R4", "error-kind-never-matched", not mentions, "" if not mentions else "%s matches the Error token kind: a lexical error could be accepted" % mentions[0], None, how="no token set / arm mentions Error")
    sw_ = F.fn("frontend::lexer::Lexer::<'a>::scan_word")
    if sw_ is None:
        rep.fail("C13.R4", "anchor::scan_word", "Lexer::scan_word not found")
    else:
        rep.analysed(sw_)
        preds = []
        consts = []
        for b in F.with_closures(sw_):
            for bi, t in b.calls():
                n_ = t["callee"].get("name") if "indirect" not in t["callee"] else None
                if n_ in ("is_alphabetic", "is_alphanumeric", "is_ascii_alphabetic", "is_ascii_digit", "is_numeric", "is_ascii_punctuation", "is_ascii"):
                    preds.append(t["callee"]["def"])
            for bi, si, s in b.assigns():
                if s["rv"].get("bin") in ("eq", "ne"):
                    for o in (s["rv"]["a"], s["rv"]["b"]):
                        c_ = o.get("const")
                        if c_ and "char" in c_:
                            consts.append(c_["char"])
        alls = [1 for b in F.with_closures(sw_) for bi, t in b.calls() if callee_def(t) == "std::iter::Iterator::all"]
        ok = len(alls) == 1 and [p.rsplit("::", 1)[-1] for p in preds] == ["is_alphabetic"] and "<impl char>" in preds[0] and consts == ["'"]
        rep.ob("C13.R4", "non-letter-words-are-error-tokens", ok,
               "" if ok else "scan_word accepts a word as identifier under a test other than `all(char::is_alphabetic or apostrophe)` (%s, %s): words with other characters may lex as identifiers" % (
                   [p.rsplit("::", 2)[-2:] for p in preds], consts), sw_.loc(), how="chars().all(|c| c.is_alphabetic() || c == '\\'')")
    # ---- R5
    no_statement_rule(ctx, "C13.R5")



def line_attribution(ctx):
    F, rep = ctx.F, ctx.rep
    # where the location of an error comes from: the parser's own position, not that of a look-ahead copy that has read on
    npe = F.fn(PARSER + "new_parse_error")
    if npe is None:
        rep.fail("C13.R6", "anchor::new_parse_error", "Parser::new_parse_error not found")
    else:
        bodies = [b for b in common.bodies_with_helpers(F, npe, depth=1) if b.file == npe.file]
        lines = [(b, bi, t) for b in bodies for bi, t in b.calls() if t["callee"].get("name") == "current_line"]
        ok, why = bool(lines), "" if lines else "new_parse_error no longer takes the line of an end-of-input error from current_line()"
        for b, bi, t in lines:
            names = common.deep_call_names(F, b, t["args"][0])
            if "clone" in names or "next" in names:
                ok, why = False, "the line of an error at the end of input is read off a copy of the lexer that has been advanced (%s): trailing comments and blank lines move the reported line away from the faulty statement" % sorted(x for x in names if x)
        rep.ob("C13.R6", "end-of-input-line-from-own-lexer", ok, why, npe.loc(), how="self.lexer.underlying().current_line()")
    fn = None
    for f in F.all_fns(tests=False):
        if f.kind != "closure" and f.path.endswith("::fmt") and "std::fmt::Display for frontend::parser::ParseErrorLocation" in f.path:
            fn = f
    if fn is None:
        rep.fail("C13.R6", "anchor", "Display for ParseErrorLocation not found")
        return
    rep.analysed(fn)
    shown = [(bi, t) for bi, t in fn.calls() if t["callee"].get("name") in ("new_display", "new_debug") and t["args"]]
    n = 0
    for bi, t in shown:
        deps = common.ip_origins(F, fn, t["args"][0])
        calls = {}
        for fp, d, p in deps:
            if d[0] == "call":
                g = F.fn(fp)
                calls[(callee_def(g.term(d[1])) or "").rsplit("::", 1)[-1]] = (d, p)
        roots = {p for fp, d, p in deps if fp == fn.path and d == ("param", 1)}
        n += 1
        ok, why = True, ""
        if "end" in calls:
            ok, why = False, "the line printed for a token location comes from the *end* of the token's range: a multi-line token is reported on the line it ends on"
        elif "start" not in calls or "line" not in calls["start"][1]:
            ok, why = False, "the line printed for a token location is not range.start().line (derives from %s)" % (sorted(calls) or sorted(map(str, roots)))
        elif not any("Token.0" in p and "range" in p for p in roots):
            ok, why = False, "the position used is not the offending token's own range"
        elif not any("Line.0" in p for p in roots):
            ok, why = False, "a line location does not print its stored line"
        rep.ob("C13.R6", "line-shown::%d" % (n - 1), ok, why, fn.loc(t["line"]), how="Token -> range.start().line, Line -> the line")
    rep.floor("C13.R6", n, 1, "values printed by Display for ParseErrorLocation")



SEPARATOR_LOOP_EXCEPTIONS = {
    PARSER + "match_and_consume_while": "the callback processes the token just consumed; this loop has no operand to require",
}


def _statement_step_closure(ctx, fn):
    """(ok, why) for a statement loop written as iter::from_fn(step) ... collect::<Result<_, _>>(); (None, '') if fn has no such shape.
    The step closure is interpreted by KIND over the outcomes of parse_statement and expect_eol."""
    from .. import kind, kindtables as kt
    from ..kind import E
    from ..guards import _closure_use
    F = ctx.F
    RES, OPT = "std::result::Result", "std::option::Option"
    step = None
    for b in F.with_closures(fn):
        if b.kind != "closure":
            continue
        u = _closure_use(F, b)
        if u and u[0] is fn and u[2]["callee"].get("name") == "from_fn":
            if any(callee_def(t) == PARSER + "parse_statement" for b2 in F.with_closures(b) for _, t in b2.calls()):
                step = (b, u[1])
    if step is None:
        return None, ""
    b, fb = step
    # the iterator goes (through lazy adaptors that do not drop elements) into a short-circuiting consumer
    consumers = []
    frontier, seen = [fb], set()
    while frontier:
        src = frontier.pop()
        if src in seen:
            continue
        seen.add(src)
        for b2, t2 in fn.calls():
            if b2 != src and any(d[0] == "call" and d[1] == src for a in t2["args"] for d, _ in origins(fn, a)):
                nm = t2["callee"].get("name")
                if nm in ("map", "inspect", "by_ref", "into_iter", "fuse"):
                    frontier.append(b2)
                else:
                    consumers.append((b2, t2))
    if len(consumers) != 1:
        return False, "the statement iterator is consumed at %d places" % len(consumers)
    cb, ct = consumers[0]
    nm = ct["callee"].get("name")
    dty = fn.local_ty(ct["dest"]["l"]).s
    if not ((nm in ("collect", "try_collect") and dty.startswith("std::result::Result<")) or nm in ("try_for_each", "try_fold")):
        return False, "the statement iterator is consumed by %s, which does not stop at the first error" % nm

    def m_stmt(I, f_, st, t, args, depth):
        yield E(RES, "Ok", E(OPT, "Some", ("sym", "s"))), None, ((("stmt",), "some"),)
        yield E(RES, "Ok", E(OPT, "None")), None, ((("stmt",), "none"),)
        yield E(RES, "Err", ("sym", "e1")), None, ((("stmt",), "err"),)

    def m_eol(I, f_, st, t, args, depth):
        yield E(RES, "Ok", ("t", ())), None, ((("eol",), "ok"),)
        yield E(RES, "Err", ("sym", "e2")), None, ((("eol",), "err"),)
    I = kind.Interp(F, models={PARSER + "parse_statement": m_stmt, PARSER + "expect_eol": m_eol})
    got = set()
    for o in I.run(b, [("sym", "env")] + [("sym", "a%d" % i) for i in range(2, b.argc + 1)]):
        got.add((kt.term(o.ret), tuple(tk for c_, tk in o.conds if isinstance(c_, tuple) and c_ and c_[0] in (("stmt",), ("eol",)) or (isinstance(c_, tuple) and c_ and c_[0] in ("stmt", "eol")))))
    if I.incomplete:
        return False, "the step closure could not be interpreted completely"
    want = {("Some(Err(e1))", ("err",)), ("None", ("none",)), ("Some(Err(e2))", ("some", "err")), ("Some(Ok(s))", ("some", "ok"))}
    if got != want:
        return False, "the step of the statement loop yields %s; a statement is handed on only after its end-of-line check succeeded, errors are handed on, and the loop ends when there is no statement: %s" % (sorted(got), sorted(want))
    return True, ""


def _required_parser(F, t):
    d = t["callee"].get("resolved") or callee_def(t) or ""
    if not d.startswith(PARSER):
        return False
    h = F.fn(d)
    if h is None:
        return False
    ret = F.ty(h.d["ret"]).s
    return ret.startswith("std::result::Result<") and not ret.startswith("std::result::Result<std::option::Option<") and not ret.startswith("std::result::Result<(), ")


def required_operand_rule(ctx, rule):
    F, rep = ctx.F, ctx.rep
    from ..guards import _closure_use, _bool_edges, _dominated_by_edge
    n = 0
    for fn in F.all_bodies(tests=False):
        if not fn.file.endswith("frontend/parser.rs"):
            continue
        for bi, t in fn.calls():
            if callee_def(t) != PARSER + "match_and_consume" or len(t["args"]) < 2 or tokens.resolve_token_set(F, fn, t["args"][1]) not in ({"Into"}, {"To"}):
                continue
            n += 1
            top = common.top_fn(F, fn)
            rep.analysed(top)
            ok = False
            # (a) a closure mapped directly over the match result whose every path passes a required parser
            for b2 in F.with_closures(fn):
                if b2 is fn or b2.kind != "closure":
                    continue
                u = _closure_use(F, b2)
                if u and u[0] is fn and u[2]["callee"].get("name") in ("map", "and_then") and any(d == ("call", bi) for d, _ in origins(fn, u[2]["args"][0])):
                    req = [b3 for b3, t3 in b2.calls() if _required_parser(F, t3)]
                    if req and not path_to_return_avoiding(b2, req):
                        ok = True
            # (b) on the matched edge in the same body
            if not ok:
                edges = []
                for b3, t3 in fn.calls():
                    if t3["callee"].get("name") in ("is_some", "is_none") and bi in progress.deep_sources(fn, t3["args"][0]):
                        e = _bool_edges(fn, b3)
                        if e:
                            edges.append((e[0], e[2] if t3["callee"]["name"] == "is_some" else e[1]))
                for sb in range(len(fn.blocks)):
                    sw = tables.arms_complete(fn, sb)
                    if sw and "Some" in sw[2]:
                        srcs_ = progress.deep_sources(fn, {"copy": {"l": sw[0]["l"], "p": []}})
                        # the test must be about the keyword itself, not about what an optional parser found after it
                        others_ = [x for x in srcs_ if x != bi and (callee_def(fn.term(x)) or "").startswith(PARSER) and callee_def(fn.term(x)) != PARSER + "match_and_consume"]
                        closures_other = any(fn.term(x)["callee"].get("name") in ("map", "and_then") for x in srcs_)
                        if bi in srcs_ and not others_ and not closures_other:
                            edges.append((sb, sw[2]["Some"]))
                req = [b3 for b3, t3 in fn.calls() if _required_parser(F, t3)]
                for sb, tg in edges:
                    if req and not path_to_return_avoiding(fn, req, start=tg):
                        ok = True
            rep.ob(rule, "operand-after-into::%s" % top.path.rsplit("::", 1)[-1], ok,
                   "" if ok else "%s matches `into` / `to` and can then return normally without a required parser having run: `... into` with nothing after it is accepted as if there were no destination" % top.path.rsplit("::", 1)[-1],
                   fn.loc(t["line"]), how="parse_assignment_lhs / expect_* on every path after the match")
    rep.floor(rule, n, 1, "optional `into` matches")
    bk = F.fn(PARSER + "parse_build_knock_helper")
    if bk is None:
        rep.fail(rule, "anchor::build_knock", "Parser::parse_build_knock_helper not found")
    else:
        rep.analysed(bk)
        sfx = [i for i in range(1, bk.argc + 1) if bk.local_name(i) == "suffix"]
        exps = [b3 for b3, t3 in bk.calls() if callee_def(t3) in (PARSER + "expect_token", PARSER + "expect_any") and sfx
                and any(d == ("param", sfx[0]) for a in t3["args"][1:] for d, _ in kind_deep(bk, a))]
        ok = bool(exps) and not path_to_return_avoiding(bk, exps)
        rep.ob(rule, "build-knock-demand-the-suffix", ok,
               "" if ok else "parse_build_knock_helper can succeed without expect_token(suffix) having run: `build x,` is accepted without any `up`", bk.loc(),
               how="expect_token(suffix)? on every non-error path")


OPTIONAL_WORDS = {"And": "`x, and y`: the `and` after a separating comma", "Comma": "a `,` before the end of a line / between `up`s and `down`s",
                  "Dot": "a `.` before the end of a line", "Back": "`give back x` / `give x back`"}


def optional_words_rule(ctx, rule):
    F, rep = ctx.F, ctx.rep
    n = 0
    seen = set()
    for fn in F.all_bodies(tests=False):
        if not fn.file.endswith("frontend/parser.rs"):
            continue
        for bi, t in fn.calls():
            if callee_def(t) != PARSER + "match_and_consume" or len(t["args"]) < 2:
                continue
            if common.local_is_read(fn, t["dest"]["l"]):
                continue
            n += 1
            ks = tokens.resolve_token_set(F, fn, t["args"][1])
            top = common.top_fn(F, fn).path.rsplit("::", 1)[-1]
            if ks is None:
                rep.ob(rule, "optional::%s::?" % top, False, "%s matches a token set that cannot be read off and ignores the outcome" % top, fn.loc(t["line"]), how="")
                continue
            for k in sorted(ks):
                if (top, k) in seen:
                    continue
                seen.add((top, k))
                ok = k in OPTIONAL_WORDS
                rep.ob(rule, "optional::%s::%s" % (top, k), ok,
                       "" if ok else "%s treats `%s` as a word that may be left out (matched optionally, outcome ignored): a statement without it is accepted although the grammar requires it" % (top, k),
                       fn.loc(t["line"]), how="reviewed optional word: " + OPTIONAL_WORDS.get(k, ""))
    rep.floor(rule, n, 3, "optional matches whose outcome is ignored")


def look_before_take(ctx, rule):
    F, rep = ctx.F, ctx.rep
    from ..guards import _closure_use, _bool_edges, _dominated_by_edge
    NPE = PARSER + "new_parse_error"
    PEEK = (PARSER + "current", PARSER + "current_or_error")

    def own_lexer(b, a0):
        """the receiver is the parser's lexer field itself (through self or a captured self), not a clone"""
        for d, p in origins(b, a0):
            if d[0] == "param" and ("lexer" in p or (b.kind == "closure" and d[1] == 1 and p)):
                # a captured `&mut self.lexer` / `self`: resolve the capture
                if "lexer" in p:
                    return True
                bb_, oo_ = common.upvar_resolve(F, b, a0)
                if bb_ is not b:
                    return own_lexer(bb_, oo_)
                return True
        return False

    def derives_from_peek(b, o):
        for d, p in kind_deep(b, o):
            if d[0] == "call":
                t = b.term(d[1])
                if callee_def(t) in PEEK:
                    return True
                if t["callee"].get("name") == "clone" and "Lexer" in (t["callee"].get("inst") or "") + b.local_ty(t["dest"]["l"]).s:
                    return True
        return False

    def guarded(b, bi, depth=0):
        # G2: the true edge / Some arm of a test of a peeked value dominates the site
        for b2, t2 in b.calls():
            if t2["callee"].get("name") == "is_some" and derives_from_peek(b, t2["args"][0]):
                e = _bool_edges(b, b2)
                if e and (e[2] == bi or _dominated_by_edge(b, bi, e[0], e[2])):
                    return True
        for sb in range(len(b.blocks)):
            sw = tables.arms_complete(b, sb)
            if sw and "Some" in sw[2] and derives_from_peek(b, {"copy": {"l": sw[0]["l"], "p": []}}):
                direct = [d for d, p in origins(b, {"copy": {"l": sw[0]["l"], "p": []}}) if d[0] == "call" and callee_def(b.term(d[1])) in PEEK]
                if not direct and (sw[2]["Some"] == bi or _dominated_by_edge(b, bi, sb, sw[2]["Some"])):
                    return True
        # G1: a closure mapped over a filtered / matched view of the current token
        if b.kind == "closure" and depth < 3:
            use = _closure_use(F, b)
            if use and use[2]["callee"].get("name") in ("map", "and_then", "inspect", "map_or", "map_or_else", "is_some_and", "filter") and use[2]["args"]:
                parent, cb, ct = use
                v = ct["args"][0]
                direct = [d for d, p in origins(parent, v) if d[0] == "call" and callee_def(parent.term(d[1])) in PEEK]
                if not direct:
                    if derives_from_peek(parent, v):
                        return True
                    # built by this function's own match on the current token (Some in the accepting arms), inside a closure that
                    # itself runs on current()
                    if parent.kind == "closure":
                        u2 = _closure_use(F, parent)
                        if u2 and u2[2]["args"] and derives_from_peek(u2[0], u2[2]["args"][0]):
                            return True
                if guarded(parent, cb, depth + 1) and not direct:
                    return True
        return False
    n = 0
    for fn in F.all_bodies(tests=False):
        if not fn.file.endswith("frontend/parser.rs"):
            continue
        for bi, t in fn.calls():
            if callee_def(t) != "std::iter::Iterator::next" or "CommentSkippingLexer" not in (t["callee"].get("inst") or ""):
                continue
            if not own_lexer(fn, t["args"][0]):
                continue
            n += 1
            top = common.top_fn(F, fn)
            rep.analysed(top)
            key = "advance::%s" % top.path.rsplit("::", 1)[-1]
            if top.path == PARSER + "consume":
                rep.ob(rule, key, True, "", fn.loc(t["line"]), how="the reviewed primitive: its callers have matched the token (census guard consume-callers)")
                continue
            if guarded(fn, bi):
                rep.ob(rule, key, True, "", fn.loc(t["line"]), how="on the accepting side of a test of the token taken")
                continue
            # not guarded: no error located at the then-current token may follow, except `None => end of input` on the advance's own result
            # (looked for in the continuation of the advance: the body it sits in and the closures that body hands out)
            late = None
            for b2 in F.with_closures(fn):
                for nb, nt in b2.calls():
                    if callee_def(nt) != NPE:
                        continue
                    # "follows" = the error is raised because of what the taken token turned out to be: it sits in a closure handed to a
                    # combinator on a value computed from the advance's result, or on one side of a branch on such a value
                    if b2 is fn:
                        follows = False
                        if nb in fn.reachable_from_succs(bi):
                            for sb in fn.reachable_from_succs(bi):
                                st_ = fn.term(sb)
                                if st_["k"] != "switch" or (bi not in progress.deep_sources(fn, st_["on"]) and not progress._discr_source(fn, st_, bi)):
                                    continue
                                succ = fn.succs()[sb]
                                if any(nb == x or nb in fn.reachable(x) for x in succ) and not all(nb == x or nb in fn.reachable(x) for x in succ):
                                    follows = True
                    else:
                        follows = False
                        cur = b2
                        g_ = 0
                        while cur is not None and cur is not fn and g_ < 4:
                            g_ += 1
                            u_ = _closure_use(F, cur)
                            if not u_:
                                follows = True
                                break
                            if u_[0] is fn:
                                reach_ok = u_[1] == bi or u_[1] in fn.reachable_from_succs(bi)
                                follows = reach_ok and any(bi in progress.deep_sources(fn, a_) or any(d == ("call", bi) for d, _ in origins(fn, a_)) for a_ in u_[2]["args"][:1])
                                break
                            cur = u_[0]
                    if not follows:
                        continue
                    if b2.kind == "closure":
                        u = _closure_use(F, b2)
                        if u and u[0] is fn and u[2]["callee"].get("name") in ("ok_or_else", "ok_or") and \
                                {d for d, p in origins(fn, u[2]["args"][0])} == {("call", bi)}:
                            continue    # None from the stream itself: the end of input, nothing was taken
                    late = (b2, nt)
            ok = late is None
            rep.ob(rule, key, ok,
                   "" if ok else "%s takes a token from the stream before anything has accepted it, and an error located at the *then* current token can follow (line %s): when the token taken is the offending one, the reported position is that of the token after it" % (
                       top.path.rsplit("::", 1)[-1], late[1]["line"]),
                   fn.loc(t["line"]), how="no new_parse_error after the advance")
    rep.floor(rule, n, 4, "direct advances of the parser's token stream")


def operand_after_separator(ctx, rule):
    F, rep = ctx.F, ctx.rep
    from ..guards import _dominated_by_edge
    n = 0
    for fn in F.all_bodies(tests=False):
        if not fn.file.endswith("frontend/parser.rs") or fn.path in SEPARATOR_LOOP_EXCEPTIONS:
            continue
        err = error_exit_blocks(fn)
        for scc in fn.sccs():
            preds = progress.consuming_predicates(F)
            mcs = [b for b in scc if fn.term(b)["k"] == "call" and (callee_def(fn.term(b)) == PARSER + "match_and_consume" or callee_def(fn.term(b)) in preds)]
            elems = [b for b in scc if fn.term(b)["k"] == "call" and b not in mcs and (
                "indirect" in fn.term(b)["callee"] or (callee_def(fn.term(b)) or "").startswith((PARSER + "parse_", PARSER + "expect_")) or fn.term(b)["callee"].get("name") in ("call_mut", "call_once", "call"))]
            if not mcs or not elems:
                continue
            # the driving match: its "nothing matched" outcome leaves the loop
            drive = None
            for mb in sorted(mcs):
                for sb in scc:
                    sw = tables.arms_complete(fn, sb)
                    if sw and "Some" in sw[2] and "None" in sw[2] and mb in progress.deep_sources(fn, {"copy": {"l": sw[0]["l"], "p": []}}):
                        if sw[2]["None"] not in scc and sw[2]["Some"] in scc and drive is None:
                            drive = (mb, sb, sw[2]["Some"])
                    # a bool-returning consuming helper: the loop goes on over the non-zero edge
                    stt = fn.term(sb)
                    if drive is None and callee_def(fn.term(mb)) in preds and stt["k"] == "switch" and mb in progress.deep_sources(fn, stt["on"]):
                        zero = [tg for v, tg in stt["targets"] if v == "0"]
                        if zero and zero[0] not in scc and stt["otherwise"] in scc:
                            drive = (mb, sb, stt["otherwise"])
            if drive is None:
                continue
            n += 1
            rep.analysed(fn)
            mb, sb, some_t = drive
            seen, st_ = set(), [some_t]
            while st_:
                x = st_.pop()
                if x in seen or x in elems:
                    continue
                seen.add(x)
                if x not in scc:
                    continue
                for y in fn.succs()[x]:
                    st_.append(y)
            left = sorted(b for b in seen if b not in scc and b not in err and not fn.blocks[b].get("cleanup"))
            again = mb in seen
            ok = not left and not again
            rep.ob(rule, "operand-after-separator::%s" % common.top_fn(F, fn).path, ok,
                   "" if ok else ("after a separator was consumed, %s can %s without having parsed the element that must follow it (line %s): an operand that is missing is silently accepted" % (
                       fn.path, "leave the loop" if left else "take the next separator", fn.term(left[0] if left else mb).get("line") or fn.term(mb)["line"])),
                   fn.loc(fn.term(mb)["line"]), how="every way on from the separator passes the element parser")
    rep.floor(rule, n, 2, "separator-driven loops with an element per round")
