"""Rules shared by several properties: ERRFLOW, who-may-call, field access census."""
from ..core import op_place, op_local, callee_def, callee_name, place_fields
from ..flow import rvalue_operands

ERR_EXTERNAL = ("std::io::Error", "std::io::error::Error", "clap::Error", "clap::error::Error")

DISCARDING = {
    "ok": "turns the error into None",
    "unwrap_or": "replaces the error by a default",
    "unwrap_or_else": "replaces the error by a computed default",
    "unwrap_or_default": "replaces the error by Default::default()",
    "is_ok": "only tests for success",
    "is_err": "only tests for failure",
    "is_ok_and": "only tests for success",
    "is_err_and": "only tests for failure",
    "or": "replaces the error by another result",
    "or_else": "replaces the error by another result",
    "map_or": "replaces the error by a default",
    "map_or_else": "maps the error to a plain value",
    "iter": "iterates the Ok value only",
    "into_iter": "iterates the Ok value only",
    "unwrap_unchecked": "assumes success",
}


def is_error_ty(F, ty):
    """ty: the E of Result<_, E>"""
    t = ty.peel_refs()
    k = t.kind()
    if k == "tuple" and not t.d["tuple"]:
        return True
    if k == "alias" and t.s.endswith("::Error"):
        return True          # <T as Visit>::Error: the visitor's own error type, whatever it is
    if k == "adt":
        p = t.adt()
        if p in F.adts and (p.endswith("Error") or p.endswith("ErrorCode")):
            return True
        if p in ERR_EXTERNAL or p.endswith("::Error") and not p.startswith("std::fmt"):
            return True
        if p == "std::boxed::Box":
            return any(a.kind() == "dyn" for a in t.args())
    return False


def result_err(F, ty):
    """if ty is Result<T, E> with E in the error family: (T, E) else None"""
    if ty.kind() == "adt" and ty.adt() == "std::result::Result":
        a = ty.args()
        if len(a) == 2 and is_error_ty(F, a[1]):
            return a
    return None


def local_is_read(fn, l):
    for b in fn.blocks:
        for s in b["stmts"]:
            if s["k"] == "assign":
                for o in rvalue_operands(s["rv"]):
                    p = op_place(o)
                    if p is not None and p["l"] == l:
                        return True
                if s["pl"]["l"] == l and s["pl"]["p"]:
                    pass
        t = b["term"]
        if t["k"] in ("call", "tailcall"):
            for a in t["args"]:
                p = op_place(a)
                if p is not None and p["l"] == l:
                    return True
        elif t["k"] == "switch":
            p = op_place(t["on"])
            if p is not None and p["l"] == l:
                return True
        elif t["k"] == "assert":
            p = op_place(t["cond"])
            if p is not None and p["l"] == l:
                return True
    return False


def errflow(ctx, rule, scope, forbid_map_err=False, exceptions=None, F=None):
    """ERRFLOW (blacklist form): inside `scope`, no value of type Result<_, E> (E in the error family) is
    (1) handed to a discarding combinator, (2) dropped, (3) left unused, or (4) matched with an Err arm that
    never looks at the error.  `exceptions`: {site key: reason} reviewed sites."""
    F = F or ctx.F
    rep = ctx.rep
    exceptions = exceptions or {}
    used_exc = set()
    n_results = 0
    for top in F.all_fns(tests=False, derived=False):
        if top.kind == "closure" or not scope(top):
            continue
        for fn in F.with_closures(top):
            rep.analysed(fn)
            ordinal = {}
            for bi, b in enumerate(fn.blocks):
                if b["cleanup"]:
                    continue
                t = b["term"]
                if t["k"] == "call":
                    rep.call_sites += 1
                    dty = fn.local_ty(t["dest"]["l"]) if not t["dest"]["p"] else None
                    if dty is not None and result_err(F, dty):
                        n_results += 1
                        if not local_is_read(fn, t["dest"]["l"]) and t["dest"]["l"] != 0:
                            name = callee_def(t) or "indirect"
                            k = "%s::unused-result::%s" % (fn.path, name.rsplit("::", 1)[-1])
                            if k in exceptions:
                                used_exc.add(k)
                                rep.ob(rule, k, True, "", fn.loc(t["line"]), how="reviewed: " + exceptions[k])
                            else:
                                rep.fail(rule, k, "the Result of %s is never looked at (error dropped)" % name, fn.loc(t["line"]))
                    c = t["callee"]
                    if "indirect" in c:
                        continue
                    d = c["def"]
                    short = c.get("name", "")
                    if d.startswith("std::result::Result::<T, E>::") and t["args"]:
                        pl = op_place(t["args"][0])
                        aty = fn.local_ty(pl["l"]) if pl is not None and not pl["p"] else None
                        targs = [F.ty(i) for i in c.get("targs", [])]
                        is_err = len(targs) >= 2 and is_error_ty(F, targs[1])
                        if is_err and short in DISCARDING:
                            n = ordinal.get(short, 0)
                            ordinal[short] = n + 1
                            k = "%s::%s#%d" % (fn.path, short, n)
                            if k in exceptions:
                                used_exc.add(k)
                                rep.ob(rule, k, True, "", fn.loc(t["line"]), how="reviewed: " + exceptions[k])
                            else:
                                rep.fail(rule, k, "Result::%s on an error of type %s %s" % (short, targs[1].s, DISCARDING[short]),
                                         fn.loc(t["line"]))
                        elif is_err and short == "map_err" and forbid_map_err:
                            k = "%s::map_err" % fn.path
                            rep.fail(rule, k, "the visitor's error is rewritten with map_err (must be returned unchanged)", fn.loc(t["line"]))
                        elif is_err:
                            rep.ob(rule, "%s::%s@propagating" % (fn.path, short), True, "", fn.loc(t["line"]), how="propagating combinator")
                    if short in ("flat_map", "flatten", "flatten_ok") and d.startswith(("std::iter::", "core::iter::", "itertools::")):
                        # a Result used as an iterator yields its Ok value and *nothing* for Err: flattening drops the error
                        targs = [F.ty(i) for i in c.get("targs", [])]
                        hit = [x for x in targs if result_err(F, x)]
                        if not hit and dty is not None:
                            hit = [x for x in dty.walk() if x.kind() == "adt" and x.adt() == "std::result::Result" and result_err(F, x)]
                        if hit:
                            k = "%s::%s-over-result" % (fn.path, short)
                            if k in exceptions:
                                used_exc.add(k)
                                rep.ob(rule, k, True, "", fn.loc(t["line"]), how="reviewed: " + exceptions[k])
                            else:
                                rep.fail(rule, k, "Iterator::%s flattens values of type %s: an Err yields no element, so the error is silently dropped and the walk goes on" % (short, hit[0].s), fn.loc(t["line"]))
                    if d.startswith("std::mem::drop") and t["args"]:
                        pl = op_place(t["args"][0])
                        if pl is not None and not pl["p"] and result_err(F, fn.local_ty(pl["l"])):
                            k = "%s::mem-drop" % fn.path
                            rep.fail(rule, k, "a Result carrying an error is dropped explicitly", fn.loc(t["line"]))
                elif t["k"] == "drop":
                    pl = t["pl"]
                    ty = F.ty(t["ty"])
                    if result_err(F, ty) and not pl["p"]:
                        # a drop of a whole Result local on a normal path: the value was never consumed
                        # (moved-out Results have no drop after drop elaboration unless conditionally moved)
                        defs = fn.defs().get(pl["l"], [])
                        from_call = [d for d in defs if d[0] == "call"]
                        if from_call and not local_is_read(fn, pl["l"]):
                            name = callee_def(from_call[0][2]) or "indirect"
                            k = "%s::dropped-result::%s" % (fn.path, name.rsplit("::", 1)[-1])
                            if k in exceptions:
                                used_exc.add(k)
                                rep.ob(rule, k, True, "", fn.loc(t["line"]), how="reviewed: " + exceptions[k])
                            else:
                                rep.fail(rule, k, "the Result of %s is dropped without being looked at" % name, fn.loc(t["line"]))
                elif t["k"] == "switch":
                    ol = op_local(t["on"])
                    if ol is None:
                        continue
                    for d in fn.defs().get(ol, []):
                        if d[0] != "stmt" or "discr" not in d[3]["rv"]:
                            continue
                        pl = d[3]["rv"]["discr"]
                        ty = F.ty(d[3]["rv"]["of"])
                        if not result_err(F, ty):
                            continue
                        # Err arm = discriminant value 1
                        err_t = [tgt for v, tgt in t["targets"] if v == "1"]
                        if not err_t:
                            others = {tgt for v, tgt in t["targets"]}
                            err_t = [t["otherwise"]] if t["otherwise"] not in others else []
                        if not err_t:
                            continue
                        region = fn.reachable(err_t[0])
                        ok_t = [tgt for v, tgt in t["targets"] if v == "0"]
                        # blocks reachable only through the Err arm
                        ok_region = fn.reachable(ok_t[0]) if ok_t else set()
                        reads = False
                        for rb in region:
                            blk = fn.blocks[rb]
                            places = []
                            for s in blk["stmts"]:
                                if s["k"] == "assign":
                                    places.extend(op_place(o) for o in rvalue_operands(s["rv"]))
                            tt = blk["term"]
                            if tt["k"] == "call":
                                places.extend(op_place(a) for a in tt["args"])
                            for p in places:
                                if p is not None and p["l"] == pl["l"] and any(
                                    isinstance(e, dict) and e.get("dc") == "Err" for e in p["p"]
                                ):
                                    reads = True
                                if p is not None and p["l"] == pl["l"] and not p["p"] and rb not in ok_region:
                                    reads = True  # the whole Result is passed on in the Err arm
                        if not reads:
                            k = "%s::err-arm-ignores-error" % fn.path
                            if k in exceptions:
                                used_exc.add(k)
                                rep.ob(rule, k, True, "", fn.loc(t["line"]), how="reviewed: " + exceptions[k])
                            else:
                                rep.fail(rule, k, "a Result of error type %s is matched and the Err arm never looks at the error" % ty.args()[1].s,
                                         fn.loc(t["line"]))
    for k in exceptions:
        if k not in used_exc:
            rep.notes.setdefault("stale_exceptions", []).append(k)
    return n_results


def who_calls(F, pred, tests=False):
    """[(fn, bb, term)] for all call sites whose callee satisfies pred(callee dict)"""
    out = []
    for fn in F.all_bodies(tests=tests):
        for bi, t in fn.calls():
            c = t["callee"]
            if "indirect" in c:
                continue
            if pred(c):
                out.append((fn, bi, t))
    return out


def field_accesses(F, adt, field, tests=False, derived=False):
    """all (fn, bb, kind, stmt|term) where a place going through adt.field is written / borrowed mutably /
    read.  kind in {'write', 'mutref', 'read'}"""
    out = []

    def touches(pl):
        return any(of == adt and name == field for of, name, _ in place_fields(pl))

    for fn in F.all_bodies(tests=tests, derived=derived):
        for bi, b in enumerate(fn.blocks):
            if b["cleanup"]:
                continue
            for s in b["stmts"]:
                if s["k"] != "assign":
                    continue
                if touches(s["pl"]):
                    out.append((fn, bi, "write", s))
                rv = s["rv"]
                if "ref" in rv and touches(rv["ref"]):
                    out.append((fn, bi, "mutref" if rv["mut"] else "read", s))
                else:
                    for o in rvalue_operands(rv):
                        p = op_place(o)
                        if p is not None and touches(p):
                            out.append((fn, bi, "read", s))
            t = b["term"]
            if t["k"] == "call":
                for a in t["args"]:
                    p = op_place(a)
                    if p is not None and touches(p):
                        out.append((fn, bi, "read", t))
                if touches(t["dest"]):
                    out.append((fn, bi, "write", t))
            elif t["k"] == "drop" and touches(t["pl"]):
                pass
    return out


def aggregates_of(F, adt, variant=None, tests=False, derived=False):
    """[(fn, bb, stmt)] construction sites of an ADT (variant); compiler-derived impls (Clone ..) are skipped"""
    out = []
    for fn in F.all_bodies(tests=tests, derived=derived):
        for bi, si, s in fn.assigns():
            a = s["rv"].get("agg")
            if isinstance(a, dict) and a.get("adt") == adt and (variant is None or a.get("variant") == variant):
                out.append((fn, bi, s))
    return out


def top_fn(F, fn):
    """the enclosing non-closure function"""
    cur = fn.promoted_of or fn
    while cur.kind == "closure":
        nxt = F.fn(cur.d["parent"])
        if nxt is None:
            # the closure belongs to an item without a MIR body of its own (a static / thread_local initialiser)
            return cur
        cur = nxt
    return cur


# ------------------------------------------------------------------------------------------
# path helpers


def is_callee(t, *names):
    """does the call terminator's callee (generic def path or resolved path) equal / end with one of names"""
    c = t.get("callee", {})
    if "indirect" in c:
        return False
    for cand in (c.get("def"), c.get("resolved")):
        if not cand:
            continue
        for n in names:
            if cand == n or cand.endswith("::" + n) or cand.endswith(n):
                return True
    return False


def error_exit_blocks(fn):
    """blocks that produce an error return: the residual of a `?`, or an explicit `_0 = Err(..)`"""
    out = {bi for bi, t in fn.calls() if (callee_def(t) or "") == "std::ops::FromResidual::from_residual"}
    for bi, si, s in fn.assigns():
        a = s["rv"].get("agg")
        if s["pl"]["l"] == 0 and not s["pl"]["p"] and isinstance(a, dict) and a.get("adt") == "std::result::Result" and a.get("variant") == "Err":
            out.add(bi)
    return out


def path_to_return_avoiding(fn, avoid, start=0, through_errors=False):
    """is there a path start -> return that avoids the blocks in `avoid` (and, by default, error exits)?"""
    blocked = set(avoid)
    if not through_errors:
        blocked |= error_exit_blocks(fn)
    rets = set(fn.return_blocks())
    seen = set()
    st = [start]
    while st:
        b = st.pop()
        if b in seen or b in blocked:
            continue
        seen.add(b)
        if b in rets:
            return True
        st.extend(fn.succs()[b])
    return False


def exactly_once_on_normal_paths(fn, sites):
    """(ok, reason): every non-error path entry -> return passes exactly one of `sites`"""
    sites = set(sites)
    if not sites:
        return False, "no such call"
    if path_to_return_avoiding(fn, sites):
        return False, "a non-error path reaches the return without it"
    for s in sites:
        again = fn.reachable_from_succs(s) & sites
        if again:
            return False, "it can run more than once on one path (bb%d -> bb%d)" % (s, sorted(again)[0])
    return True, ""


def find_method(F, trait, name, self_adt):
    """def path of the method `name` of `trait` as implemented for the ADT self_adt (impl override), else None"""
    for imp in F.impls:
        if imp.get("trait") != trait:
            continue
        st = F.ty(imp["self_ty"])
        if st.kind() == "adt" and st.adt() == self_adt:
            for m in imp["methods"]:
                if m["name"] == name:
                    return F.fn(m["def"])
    return None


def inherent_methods(F, self_adt):
    out = {}
    for imp in F.impls:
        if imp.get("trait"):
            continue
        st = F.ty(imp["self_ty"])
        if st.kind() == "adt" and st.adt() == self_adt:
            for m in imp["methods"]:
                fn = F.fn(m["def"])
                if fn is not None:
                    out[m["name"]] = fn
    return out


def flows_into(fn, src_bb, operand, depth=0, seen=None):
    """does the result of the call at src_bb flow (through moves, aggregates and other calls' arguments) into operand?"""
    from ..flow import origins
    seen = seen if seen is not None else set()
    for d, _ in origins(fn, operand):
        if d[0] == "call":
            if d[1] == src_bb:
                return True
            if d[1] in seen or depth > 16:
                continue
            seen.add(d[1])
            for a in fn.term(d[1])["args"]:
                if flows_into(fn, src_bb, a, depth + 1, seen):
                    return True
        elif d[0] == "agg":
            st = fn.stmts(d[1])[d[2]]
            for o in st["rv"]["ops"]:
                if flows_into(fn, src_bb, o, depth + 1, seen):
                    return True
    return False


def const_of(o):
    c = o.get("const") if isinstance(o, dict) else None
    return c


def depth_dataflow(fn, pushes, pops):
    """PAIR: forward dataflow of the scope depth {0,1,2,..} over the normal-flow CFG; error exits end a path.
    Returns (depth_in: {bb: set}, problems: [text])"""
    pushes, pops = set(pushes), set(pops)
    err = error_exit_blocks(fn)
    depth_in = {0: {0}}
    work = [0]
    problems = []
    guard = 0
    while work and guard < 10000:
        guard += 1
        b = work.pop()
        if b in err:
            continue
        out = set()
        for d in depth_in[b]:
            if b in pushes:
                d += 1
            if b in pops:
                d -= 1
            out.add(max(min(d, 3), -1))
        for s in fn.succs()[b]:
            cur = depth_in.setdefault(s, set())
            if not out <= cur:
                cur |= out
                work.append(s)
    for b in sorted(depth_in):
        if b in err:
            continue
        ds = depth_in[b]
        if b in pops and any(d < 1 for d in ds):
            problems.append("pop at bb%d can run with no scope pushed by this function" % b)
        if b in pushes and any(d != 0 for d in ds):
            problems.append("push at bb%d can run while a scope pushed by this function is still open" % b)
        if fn.term(b)["k"] == "return" and ds != {0}:
            problems.append("a non-error path returns with scope depth %s (a pushed scope is not popped, or popped twice)" % sorted(ds))
    return depth_in, problems



LAZY_ADAPTORS = ("map", "chain", "filter", "filter_map", "flat_map", "zip", "rev", "enumerate", "skip", "take", "cloned",
                 "copied", "once", "iter", "into_iter", "peekable", "inspect", "flatten", "map_while", "take_while", "skip_while", "from_fn")


def site_anchors(F, fn, body, bi):
    """blocks of `fn` at which a call site (body, bi) executes, where `body` is fn or one of its (nested) closures: a closure
    handed to an eager combinator runs at that call, a closure handed to a lazy iterator adaptor runs where the iterator is
    consumed (followed through further adaptors)"""
    from ..flow import origins
    from ..guards import _closure_use
    if body.path == fn.path:
        return {bi}
    use = _closure_use(F, body)
    if use is None:
        return set()
    parent, cb, ct = use
    nm = ct["callee"].get("name")
    if nm in LAZY_ADAPTORS and "indirect" not in ct["callee"]:
        out = set()
        frontier, seen = [cb], set()
        while frontier:
            src = frontier.pop()
            if src in seen:
                continue
            seen.add(src)
            for b2, t2 in parent.calls():
                if b2 != src and any(d[0] == "call" and d[1] == src for a in t2["args"] for d, _ in origins(parent, a)):
                    if t2["callee"].get("name") in LAZY_ADAPTORS and "indirect" not in t2["callee"]:
                        frontier.append(b2)
                    else:
                        out |= site_anchors(F, fn, parent, b2)
        return out
    return site_anchors(F, fn, parent, cb)



def ip_origins(F, fn, operand, depth=0, seen=None):
    """interprocedural deep origins: like c03.kind_deep, but a call of a crate-local function is entered -- the origins of its
    return value are followed and its parameters are mapped back to the arguments at the call.  Returns a set of
    (function path, descriptor, field path); `call` descriptors are kept for every call passed through."""
    from ..flow import origins, rvalue_operands
    seen = seen if seen is not None else set()
    out = set()
    for d, p in origins(fn, operand):
        out.add((fn.path, d, p))
        if d[0] == "call" and (fn.path, d[1]) not in seen and depth < 12:
            seen.add((fn.path, d[1]))
            t = fn.term(d[1])
            h = F.fn(t["callee"].get("resolved") or t["callee"].get("def") or "")
            if h is not None and h.mir and not h.in_test_file() and h.kind != "closure" and depth < 9:
                for hp, hd, hpp in ip_origins(F, h, {"copy": {"l": 0, "p": []}}, depth + 3, seen):
                    if hp == h.path and hd[0] == "param" and 1 <= hd[1] <= len(t["args"]):
                        # a parameter of the helper: continue at the argument, keeping the field path read inside the helper
                        for q in ip_origins(F, fn, t["args"][hd[1] - 1], depth + 1, seen):
                            out.add((q[0], q[1], tuple(q[2]) + tuple(hpp)))
                    else:
                        out.add((hp, hd, hpp))
            else:
                for a in t["args"]:
                    out |= ip_origins(F, fn, a, depth + 1, seen)
        elif d[0] == "agg" and depth < 12:
            st = fn.stmts(d[1])[d[2]]
            for o in st["rv"]["ops"]:
                out |= ip_origins(F, fn, o, depth + 1, seen)
        elif d[0] == "op" and depth < 12 and (fn.path, "op", d[1], d[2]) not in seen:
            seen.add((fn.path, "op", d[1], d[2]))
            for o in rvalue_operands(fn.stmts(d[1])[d[2]]["rv"]):
                out |= ip_origins(F, fn, o, depth + 1, seen)
    return out



def bodies_with_helpers(F, fn, depth=2):
    """the bodies of fn, its closures, and the crate-local free functions / inherent helpers they call (transitively, bounded):
    what a rule should look at when it asks "does this method do X somewhere on the way" """
    out = list(F.with_closures(fn))
    seen = {b.path for b in out}
    frontier = list(out)
    for _ in range(depth):
        nxt = []
        for b in frontier:
            for bi, t in b.calls():
                c = t["callee"]
                if "indirect" in c or c.get("trait"):
                    continue
                h = F.fn(c.get("resolved") or c.get("def") or "")
                if h is None or not h.mir or h.in_test_file() or h.path in seen:
                    continue
                for hb in F.with_closures(h):
                    if hb.path not in seen:
                        seen.add(hb.path)
                        out.append(hb)
                        nxt.append(hb)
        frontier = nxt
    return out



def sort_key_fields(F, fn, sort_term):
    """what a sort call orders by: the set of field names its key / comparator closure (or fn item) reads from the elements and
    compares -- ({'line'}, stable?) for sort_by_key(|d| d.line) and for sort_by(|a, b| a.line.cmp(&b.line)) alike; None if unknown"""
    from ..core import op_local, place_fields, op_place
    from ..flow import origins, rvalue_operands
    name = sort_term["callee"].get("name") or ""
    if len(sort_term["args"]) < 2:
        return set() if name in ("sort", "sorted", "sort_unstable", "sorted_unstable") else None
    a = sort_term["args"][1]
    cf = None
    l = op_local(a)
    if l is not None:
        ty = fn.local_ty(l).peel_refs()
        if ty.kind() == "closure":
            cf = F.fn(ty.d["closure"])
    if cf is None and (a.get("const") or {}).get("fn"):
        cf = F.fn(a["const"]["fn"])
    if cf is None:
        return None
    fields = set()
    other = False
    for body in F.with_closures(cf):
        for bi, si, st in body.assigns():
            rv = st["rv"]
            places = [rv["ref"]] if "ref" in rv else []
            places += [op_place(o) for o in rvalue_operands(rv) if op_place(o) is not None]
            for pl in places:
                fs = [nm for of, nm, _ in place_fields(pl) if of not in ("tuple", "closure", None)]
                if fs and 2 <= pl["l"] <= cf.argc:
                    fields.add(fs[-1])
        for bi, t in body.calls():
            nm = t["callee"].get("name")
            if nm not in ("cmp", "partial_cmp", "clone", "deref", "borrow", "as_ref", "then", "then_with", "reverse", "lt", "le", "gt", "ge", "eq", "ne", "max", "min"):
                other = True
            if nm == "reverse":
                fields.add("<reversed>")
    if other:
        return None
    return fields


def ref_target_fields(fn, operand, depth=0):
    """field projections of the place a reference operand points to, following reborrows (`&mut *r`) and moves within the body"""
    l = op_local(operand) if isinstance(operand, dict) and ("copy" in operand or "move" in operand) else None
    if l is None or depth > 5:
        return []
    for d in fn.defs().get(l, []):
        if d[0] != "stmt":
            continue
        rv = d[3]["rv"]
        if "ref" in rv:
            fs = [x for x in rv["ref"]["p"] if isinstance(x, dict) and "f" in x]
            if fs:
                return fs
            return ref_target_fields(fn, {"copy": {"l": rv["ref"]["l"], "p": []}}, depth + 1)
        if "use" in rv:
            return ref_target_fields(fn, rv["use"], depth + 1)
    return []


def upvar_resolve(F, body, operand, depth=0):
    """(body', operand'): when the operand of a closure body is (only) a captured variable, the enclosing function's local of that
    name; otherwise the operand itself"""
    from ..flow import origins
    if body.kind != "closure" or depth > 3:
        return body, operand
    os_ = list(origins(body, operand))
    if len(os_) != 1 or os_[0][0][0] != "param" or os_[0][0][1] != 1 or not os_[0][1]:
        return body, operand
    idx = str(os_[0][1][0])
    name = None
    for uv in body.mir.get("upvars", []):
        fs = [x for x in uv["place"]["p"] if isinstance(x, dict) and "f" in x]
        if fs and str(fs[0]["f"]) == idx:
            name = uv["name"]
    parent = F.fn(body.d["parent"]) if name else None
    if parent is None:
        return body, operand
    for i, loc in enumerate(parent.locals):
        if loc.get("name") == name:
            return upvar_resolve(F, parent, {"copy": {"l": i, "p": []}}, depth + 1)
    if parent.kind == "closure":
        for uv in parent.mir.get("upvars", []):
            if uv["name"] == name:
                return upvar_resolve(F, parent, {"copy": uv["place"]}, depth + 1)
    return body, operand


class RenamedReport:
    """re-runs another property's rules under one rule id of the current property: obligations keep their text, keys get the original
    rule number as prefix; `keep(rule)` selects which of the other property's rules are taken over"""
    def __init__(self, inner, as_rule, keep=lambda r: True):
        self._i = inner
        self._as = as_rule
        self._keep = keep

    def __getattr__(self, k):
        return getattr(self._i, k)

    def rule(self, r, text):
        pass

    def trust(self, text):
        pass

    def ob(self, rule, key, ok, detail="", where=None, how=None):
        if self._keep(rule):
            return self._i.ob(self._as, rule.split(".", 1)[1] + "::" + key, ok, detail, where, how)

    def fail(self, rule, key, detail, where=None):
        if self._keep(rule):
            return self._i.ob(self._as, rule.split(".", 1)[1] + "::" + key, False, detail, where)

    def floor(self, rule, measured, floor, what="instances"):
        if self._keep(rule.split(".")[0] + "." + rule.split(".")[1]):
            return self._i.floor(self._as + "." + rule.split(".", 1)[1], measured, floor, what)


def rerun_under(ctx, other_prop_fn, as_rule, keep=lambda r: True):
    real = ctx.rep
    ctx.rep = RenamedReport(real, as_rule, keep)
    try:
        other_prop_fn(ctx)
    finally:
        ctx.rep = real


def deep_call_names(F, body, operand, depth=0):
    """names of all calls an operand derives from (through call arguments), following captured variables of a closure into the
    enclosing function"""
    from ..flow import origins
    from .c03 import kind_deep
    names = set()
    for d, p in kind_deep(body, operand):
        if d[0] == "call":
            names.add(body.term(d[1])["callee"].get("name") or "?")
        elif d[0] == "param" and d[1] == 1 and body.kind == "closure" and p and depth < 3:
            idx = str(p[0])
            up = None
            for uv in body.mir.get("upvars", []):
                fs = [x for x in uv["place"]["p"] if isinstance(x, dict) and "f" in x]
                if fs and str(fs[0]["f"]) == idx:
                    up = uv["name"]
            parent = F.fn(body.d["parent"]) if up else None
            if parent is not None:
                for i, loc in enumerate(parent.locals):
                    if loc.get("name") == up:
                        names |= deep_call_names(F, parent, {"copy": {"l": i, "p": []}}, depth + 1)
    return names
