"""C17 — the constant folder only reports values the interpreter would compute (agreement of two evaluators)."""
from .. import kind, kindtables as kt, tables
from ..kind import E, is_e, c
from ..core import callee_def, op_local
from ..flow import origins
from ..props import prop
from . import common, kind_rules
from .common import is_callee, find_method, flows_into
from .c03 import kind_deep

VE = "analysis::visit::VisitExpr"
NCF = "analysis::tools::NumericConstantFolder"
SCF = "analysis::tools::SimpleStringConstantFolder"
NC = "analysis::tools::NumericConstant"
BO = "frontend::ast::BinaryOperator"
UO = "frontend::ast::UnaryOperator"
RES = "std::result::Result"
BE = "frontend::ast::BinaryExpression"


def _norm(term_s):
    return term_s.replace("self.0", "a").replace("other.0", "b")


@prop("C17")
def c17(ctx):
    F, rep = ctx.F, ctx.rep
    rep.rule("C17.R1", "agreement: for Plus/Minus/Multiply/Divide the folder's combining closure computes, as a term, the same f64 operation "
             "with (accumulator, element) in the same order as the interpreter's (Number, Number) cell of plus/subtract/multiply/divide; "
             "every other operator yields Err; unary Minus is f64 negation in both, Not is Err in the folder")
    rep.rule("C17.R2", "fold shape: the folder folds rhs = once(first).chain(rest) in order with try_fold starting from the folded lhs, as the "
             "interpreter does; lists outside a binary expression are folded only when they have one element; both evaluate poetic "
             "literals with PoeticNumberLiteral::compute_value; number literals fold to their own value")
    rep.rule("C17.R3", "never for non-constants: in both folders every method for a node that reads state (pronoun, the three identifier kinds, "
             "array subscript, array pop, function call) returns Err on all paths - either overridden so, or an inherited default whose "
             "first folded element is such a method")
    rep.rule("C17.R4", "the interpreter's side of unary minus: ProduceVal::visit_unary_expression yields negate(operand) (outcome table shared with "
             "C03.R1) and Val::negate on a number is the f64 negation -(x) (term anchor): `0 - x` differs from it on zero")
    from .c03 import unary_rule
    unary_rule(ctx, "C17.R4")
    rep.rule("C17.R5", "the interpreter's side of literals and of printing: a literal evaluates to itself (C03.R7 literal table: a string "
             "literal to exactly its text, a number to itself) and a number is printed by the f64's own Display (C03.R8: no float-to-integer "
             "cast becomes text) -- the folders report the literal / the f64, so an interpreter that unescapes strings or prints through "
             "an integer disagrees with them")
    from .c03 import leaves_rule as _leaves
    from .c18 import text_from_cast_rule as _tfc
    _leaves(ctx, "C17.R5")
    _tfc(ctx, "C17.R5", scope=lambda fn: fn.file.startswith("src/exec/"), min_fns=60)
    ng = kind_rules.tables(ctx).fn("negate")
    if ng is not None:
        got = {kt.term(o.ret) for o in kind_rules.tables(ctx).I.run(ng, [kt.mk("Number", "self")])}
        ok = got == {"Ok(N(neg(self.0)))"}
        rep.ob("C17.R4", "term::negate::N", ok, "" if ok else "negate(Number) computes %s" % sorted(got), ng.loc(), how="Ok(N(neg(self.0)))")
    vb = find_method(F, VE, "visit_binary_expression", NCF)
    if vb is None:
        rep.fail("C17.R1", "anchor", "NumericConstantFolder::visit_binary_expression not found")
        return
    rep.analysed(vb)
    T = kind_rules.tables(ctx)
    # ---- R1: the combining closure (the one handed to try_fold)
    tf = [(bi, t) for bi, t in vb.calls() if callee_def(t) == "std::iter::Iterator::try_fold"]
    opcl = None
    if len(tf) == 1:
        l = op_local(tf[0][1]["args"][2])
        for d, p in origins(vb, tf[0][1]["args"][2]):
            if d[0] == "agg":
                a = vb.stmts(d[1])[d[2]]["rv"]["agg"]
                if isinstance(a, dict) and "closure" in a:
                    opcl = F.fn(a["closure"])
    loop_form = False
    if opcl is None and not tf:
        loop_form = _folder_loop_form(ctx, vb, T)
    if loop_form:
        pass
    elif opcl is None:
        rep.fail("C17.R1", "anchor::closure", "the closure handed to try_fold in the folder was not found (fold shape not recognised)", vb.loc())
    else:
        I = kind.Interp(F)
        interp_cell = {}
        for op, m in (("Plus", "plus"), ("Minus", "subtract"), ("Multiply", "multiply"), ("Divide", "divide")):
            fn = T.fn(m)
            interp_cell[op] = {_norm(kt.term(o.ret)) for o in T.I.run(fn, [kt.mk("Number", "self"), kt.mk("Number", "other")])} if fn else set()
        rep.exhaustive["folder_operator_map"] = True
        for v in F.adts[BO]["variants"]:
            op = v["name"]
            # what the closure captured: the expression itself, or a copy of its operator, under whatever name
            caps = []
            for u in opcl.d["mir"].get("upvars", []):
                uty = None
                for e_ in u["place"]["p"]:
                    if isinstance(e_, dict) and e_.get("of") == "closure":
                        uty = F.ty(e_["ty"]).peel_refs()
                if uty is not None and uty.adt() == BE:
                    caps.append(E(BE, "BinaryExpression", E(BO, op), ("sym", "lhs"), ("sym", "rhs")))
                elif uty is not None and uty.adt() == BO:
                    caps.append(E(BO, op))
                else:
                    caps.append(("sym", u.get("name") or "captured"))
            env = ("closure", opcl.path, tuple(caps))
            a = E(NC, "NumericConstant", ("sym", "a"))
            b = E(RES, "Ok", E(NC, "NumericConstant", ("sym", "b")))
            got = set()
            for o in I.run(opcl, [env, a, b]):
                r = o.ret
                if is_e(r, RES) and r[2] == "Ok" and is_e(r[3][0], NC):
                    got.add("N(" + kt.term(r[3][0][3][0]) + ")")
                elif is_e(r, RES) and r[2] == "Err":
                    got.add("Err")
                else:
                    got.add(kt.term(r))
            key = "operator::" + op
            if op in interp_cell:
                ok = got == interp_cell[op] and len(got) == 1
                rep.ob("C17.R1", key, ok, "" if ok else "folder computes %s for %s, the interpreter computes %s on two numbers" % (sorted(got), op, sorted(interp_cell[op])),
                       opcl.loc(), how="same term %s" % sorted(got))
            else:
                ok = got == {"Err"}
                rep.ob("C17.R1", key, ok, "" if ok else "folder yields %s for %s (must not report a number)" % (sorted(got), op), opcl.loc(), how="Err")
            # an Err element stays Err
            gote = {kt.summ(o.ret) for o in I.run(opcl, [env, a, E(RES, "Err", ("sym", "e"))])}
            ok = all(x.startswith("Err") for x in gote) and bool(gote)
            rep.ob("C17.R1", "error-element::" + op, ok, "" if ok else "an element that does not fold is turned into %s" % sorted(gote), opcl.loc(), how="Err stays Err")
    # the interpreter side of the agreement: each arithmetic operator is exactly one call of the Val method on (a, b)
    from .c03 import op_outcomes, expected_op, OPFN
    outs = op_outcomes(ctx)
    opf = F.fn(OPFN)
    for op in ("Plus", "Minus", "Multiply", "Divide"):
        got = (outs or {}).get(op)
        ok = got is not None and got == expected_op(op)
        rep.ob("C17.R1", "interpreter-dispatch::" + op, ok,
               "" if ok else "the interpreter does not evaluate %s as exactly one call of the value method on (accumulator, element): %s" % (
                   op, sorted(x[0] for x in (got or []))), opf.loc() if opf else None, how="Ok(a.method(b)) on every path where b evaluates")
    # unary
    vu = find_method(F, VE, "visit_unary_expression", NCF)
    if vu is None:
        rep.fail("C17.R1", "anchor::unary", "NumericConstantFolder::visit_unary_expression not found")
    else:
        rep.analysed(vu)

        def m_visit(I_, f, st, t, args, depth):
            yield E(RES, "Ok", E(NC, "NumericConstant", ("sym", "a"))), None, ()
            yield E(RES, "Err", ("sym", "e")), None, ((("operand",), "err"),)
        I2 = kind.Interp(F, models={"analysis::visit::VisitExpr::visit_expression": m_visit})
        UE = "frontend::ast::UnaryExpression"
        neg_fn = T.fn("negate")
        interp_neg = {_norm(kt.term(o.ret)) for o in T.I.run(neg_fn, [kt.mk("Number", "self")])} if neg_fn else set()
        for opv in ("Minus", "Not"):
            got = set()
            for o in I2.run(vu, [("sym", "self"), E(UE, "UnaryExpression", E(UO, opv), ("sym", "x"))]):
                if any(ct == ("operand",) for ct, _ in o.conds):
                    continue
                r = o.ret
                if is_e(r, RES) and r[2] == "Ok" and is_e(r[3][0], NC):
                    got.add("Ok(N(" + kt.term(r[3][0][3][0]) + "))")
                else:
                    got.add(kt.summ(r).split("(")[0])
            if opv == "Minus":
                ok = got == interp_neg
                rep.ob("C17.R1", "unary::Minus", ok, "" if ok else "folder computes %s, the interpreter %s" % (sorted(got), sorted(interp_neg)), vu.loc(), how="neg(a)")
            else:
                ok = got == {"Err"}
                rep.ob("C17.R1", "unary::Not", ok, "" if ok else "folder yields %s for `not`" % sorted(got), vu.loc(), how="Err")
    # ---- R2 fold shape
    ok = len(tf) == 1 or loop_form
    why = "" if ok else "expected one try_fold in the folder's visit_binary_expression, found %d" % len(tf)
    if ok and not loop_form:
        bi, t = tf[0]
        lhs_ok = any(d[0] == "call" and vb.term(d[1])["callee"].get("name") == "visit_expression" and
                     any(pp[:1] == ("lhs",) for dd, pp in origins(vb, vb.term(d[1])["args"][1])) for d, _ in kind_deep(vb, t["args"][1]))
        names = {vb.term(d[1])["callee"].get("name") for d, _ in kind_deep(vb, t["args"][0]) if d[0] == "call"}
        fields = {pp[:2] for d, pp in kind_deep(vb, t["args"][0]) if d[0] == "param" and pp}
        if not lhs_ok:
            ok, why = False, "the fold does not start from the folded value of e.lhs"
        elif not {"once", "chain", "map"} <= names or "rev" in names:
            ok, why = False, "the folded sequence is not once(first).chain(rest) mapped in order (%s)" % sorted(x for x in names if x)
        elif t["dest"]["l"] != 0:
            ok, why = False, "the fold result is not what is returned (something is applied to it afterwards)"
        else:
            # nothing else combines values: no arithmetic outside the combining closure
            for b2, t2 in vb.calls():
                if t2["callee"].get("name") in ("add", "sub", "mul", "div") and "indirect" not in t2["callee"]:
                    ok, why = False, "visit_binary_expression combines values outside the fold"
    rep.ob("C17.R2", "fold-shape", ok, why, vb.loc(), how="once(first).chain(rest).map(fold).try_fold(lhs, op)" if not loop_form else "explicit loop over once(first).chain(rest): runs computed by KIND (see C17.R1 operator::*)")
    for owner in (NCF, SCF):
        vl = find_method(F, VE, "visit_expression_list", owner)
        short = owner.rsplit("::", 1)[-1]
        if vl is None:
            rep.fail("C17.R2", "anchor::list::" + short, "%s does not override visit_expression_list" % short)
            continue
        rep.analysed(vl)
        emp = [(bi, t) for bi, t in vl.calls() if is_callee(t, "std::vec::Vec::<T, A>::is_empty") and any(pp[:1] == ("rest",) for d, pp in origins(vl, t["args"][0]))]
        ok = len(emp) == 1
        rep.ob("C17.R2", "single-element-lists::" + short, ok, "" if ok else "a bare expression list is not folded only when rest is empty", vl.loc(), how="rest.is_empty().then(fold first) else Err(NeedMoreInfo)")
        # ... and what it folds to is the fold of its only element, unchanged (completeness: a constant is reported whatever its value)

        def m_first(I_, f, st, t, args, depth):
            yield E(RES, "Ok", ("sym", "v")), None, ((("fold",), "ok"),)
            yield E(RES, "Err", ("sym", "e")), None, ((("fold",), "err"),)
        Il = kind.Interp(F, models={"analysis::visit::VisitExpr::visit_expression": m_first})
        got = set()
        for o in Il.run(vl, [("sym", "self"), ("sym", "list")]):
            folded = [tk for c_, tk in o.conds if c_ == ("fold",)]
            got.add((kt.term(o.ret), folded[0] if folded else "-"))
        okl = got == {("Ok(v)", "ok"), ("Err(e)", "err"), ("Err(NeedMoreInfo)", "-")} and not Il.incomplete
        rep.ob("C17.R2", "single-element-list-folds-to-its-element::" + short, okl,
               "" if okl else "%s::visit_expression_list yields %s; a one-element list must fold to exactly what its element folds to (value or error) and a longer one to NeedMoreInfo -- otherwise some constant right-hand sides are not reported, or reported as something else" % (short, sorted(got)),
               vl.loc(), how="Ok(v) -> Ok(v), Err(e) -> Err(e), longer -> Err(NeedMoreInfo)")
    vp = find_method(F, VE, "visit_poetic_number_literal", NCF)
    pv = find_method(F, VE, "visit_poetic_number_literal", "exec::produce_val::ProduceVal")
    for who, fn in (("folder", vp), ("interpreter", pv)):
        if fn is None:
            rep.fail("C17.R2", "anchor::poetic::" + who, "visit_poetic_number_literal of the %s not found" % who)
            continue
        rep.analysed(fn)
        cs = [(bi, t) for bi, t in fn.calls() if is_callee(t, "frontend::ast::PoeticNumberLiteral::compute_value")]
        ok = len(cs) == 1 and any(flows_into(fn, cs[0][0], {"copy": {"l": 0, "p": []}}) for _ in [0])
        rep.ob("C17.R2", "poetic-literal::" + who, ok, "" if ok else "the %s does not take the value of a poetic literal from compute_value()" % who, fn.loc(), how="compute_value()")
    vlit = find_method(F, VE, "visit_literal_expression", NCF)
    if vlit is not None:
        rep.analysed(vlit)
        I3 = kind.Interp(F)
        LIT = "frontend::ast::LiteralExpression"
        WR = "frontend::ast::WithRange"
        res = {}
        for v in F.adts[LIT]["variants"]:
            payload = (("sym", "x"),) if v["fields"] else ()
            lit = E(WR, "WithRange", ("e", LIT, v["name"], payload), ("sym", "range"))
            res[v["name"]] = {kt.term(o.ret) for o in I3.run(vlit, [("sym", "self"), lit])}
        ok = res.get("Number") == {"Ok(NumericConstant(x))"} and all(all(x.startswith("Err") for x in r) for k, r in res.items() if k != "Number")
        rep.ob("C17.R2", "number-literal-folds-to-itself", ok, "" if ok else "literal folding table: %s" % {k: sorted(v) for k, v in res.items()}, vlit.loc(), how="Number(x) -> x, others Err")
    # ---- R3
    state_readers = ["visit_pronoun", "visit_simple_identifier", "visit_common_identifier", "visit_proper_identifier", "visit_array_subscript", "visit_array_pop_expr"]
    n = 0
    for owner in (NCF, SCF):
        short = owner.rsplit("::", 1)[-1]
        for name in state_readers:
            n += 1
            fn = find_method(F, VE, name, owner)
            key = "never::%s::%s" % (short, name)
            if fn is None:
                rep.fail("C17.R3", key, "%s inherits the default %s, which folds a node that reads program state to the default value" % (short, name))
                continue
            rep.analysed(fn)
            rs = tables.result_of_arm(fn, 0)
            ok = bool(rs) and all(r[0] == "agg" and r[1] == "Result::Err" for r in rs)
            rep.ob("C17.R3", key, ok, "" if ok else "%s::%s can return something other than Err" % (short, name), fn.loc(), how="Err on every path")
        # function calls: overridden to Err, or the inherited default whose first element is the callee name (an identifier -> Err)
        n += 1
        fc = find_method(F, VE, "visit_function_call", owner)
        key = "never::%s::visit_function_call" % short
        if fc is not None:
            rs = tables.result_of_arm(fc, 0)
            ok = bool(rs) and all(r[0] == "agg" and r[1] == "Result::Err" for r in rs)
            rep.ob("C17.R3", key, ok, "" if ok else "%s::visit_function_call can return something other than Err" % short, fc.loc(), how="Err on every path")
        else:
            from ..guards import g_folder_ids

            class _S:
                path = "NumericConstant as" if owner == NCF else "StringConstant as"
            ok, why = g_folder_ids(ctx, F, _S, None)
            rep.ob("C17.R3", key, ok, why, None, how="inherited default: combine_all stops at the callee name, whose identifier methods return Err")
        # variable_name / identifier dispatchers must not be overridden to something that succeeds
        for name in ("visit_variable_name", "visit_identifier", "visit_primary_expression", "visit_expression"):
            fn = find_method(F, VE, name, owner)
            if fn is not None:
                rep.fail("C17.R3", "dispatcher-overridden::%s::%s" % (short, name), "%s overrides the dispatcher %s: the per-node Err methods may be bypassed" % (short, name), fn.loc())
    rep.floor("C17.R3", n, 14, "state-reading node methods")


def _folder_loop_form(ctx, vb, T):
    """the folder's binary fold written as an explicit loop: KIND interprets the whole method per operator, with the folding of an operand
    (visit_expression) yielding Ok(v_k) / Err and the operand iterator yielding an element or the end; every run must return Err as soon as
    an operand does not fold (or the operator is not arithmetic), and otherwise the left fold, in visiting order, of the interpreter's
    (Number, Number) term.  Returns False when the method has no such loop (the caller then reports the unrecognised shape)."""
    F, rep = ctx.F, ctx.rep
    draws = [(bi, t) for bi, t in vb.calls() if t["callee"].get("name") == "next" and t["args"]]
    visits = [(bi, t) for bi, t in vb.calls() if t["callee"].get("name") == "visit_expression"]
    if len(draws) != 1 or len(visits) < 2:
        return False
    names = {vb.term(d[1])["callee"].get("name") for d, _ in kind_deep(vb, draws[0][1]["args"][0]) if d[0] == "call"}
    if not {"once", "chain"} <= names or names & {"rev", "skip", "filter", "step_by", "skip_while", "take"}:
        rep.ob("C17.R2", "fold-sequence", False, "the folded sequence is not once(first).chain(rest) in order (%s)" % sorted(x for x in names if x), vb.loc(), how="once(first).chain(rest)")
        return True
    counter = [0]
    OPT = "std::option::Option"

    def m_visit(I_, f, st, t, args, depth):
        counter[0] += 1
        k = counter[0]
        yield E(RES, "Ok", E(NC, "NumericConstant", ("sym", "v%d" % k))), None, ((("visit", k), "ok"),)
        yield E(RES, "Err", ("sym", "e")), None, ((("visit", k), "err"),)

    def m_next(I_, f, st, t, args, depth):
        counter[0] += 1
        yield E(OPT, "Some", ("sym", "operand%d" % counter[0])), None, ((("draw", counter[0]), "some"),)
        yield E(OPT, "None"), None, ((("draw", counter[0]), "none"),)
    cells = {}
    for op, m in (("Plus", "plus"), ("Minus", "subtract"), ("Multiply", "multiply"), ("Divide", "divide")):
        fn = T.fn(m)
        raw = {kt.term(o.ret) for o in T.I.run(fn, [kt.mk("Number", "self"), kt.mk("Number", "other")])} if fn else set()
        cells[op] = sorted(raw)[0] if len(raw) == 1 else None
    rep.exhaustive["folder_operator_map"] = True
    for v in F.adts[BO]["variants"]:
        op = v["name"]
        counter[0] = 0
        I = kind.Interp(F, models={"analysis::visit::VisitExpr::visit_expression": m_visit, "std::iter::Iterator::next": m_next})
        bad = None
        n_runs = 0
        for o in I.run(vb, [("sym", "self"), E(BE, "BinaryExpression", E(BO, op), ("sym", "lhs"), ("sym", "rhs"))]):
            n_runs += 1
            seq = [(c_, tk) for c_, tk in o.conds if isinstance(c_, tuple) and c_ and c_[0] in ("visit", "draw")]
            vals = ["v%d" % c_[1] for c_, tk in seq if c_[0] == "visit" and tk == "ok"]
            erred = any(c_[0] == "visit" and tk == "err" for c_, tk in seq)
            drew = any(c_[0] == "draw" and tk == "some" for c_, tk in seq)
            r = o.ret
            is_err = is_e(r, RES) and r[2] == "Err"
            num = kt.term(r[3][0][3][0]) if is_e(r, RES) and r[2] == "Ok" and r[3] and is_e(r[3][0], NC) else None
            if erred:
                if not is_err:
                    bad = "an operand that does not fold is turned into %s" % kt.term(r)
                continue
            if op not in cells:
                if drew and not is_err:
                    bad = "the folder yields %s for %s (must not report a number)" % (kt.term(r), op)
                continue
            if cells[op] is None:
                bad = "the interpreter's (Number, Number) cell of %s is not a single term" % op
                continue
            if is_err:
                bad = "the folder gives up on %s although every operand folded" % op
                continue
            want = vals[0] if vals else None
            inner = cells[op]
            inner = inner[2:-1] if inner.startswith("N(") and inner.endswith(")") else inner
            for x in vals[1:]:
                want = inner.replace("self.0", "\x00").replace("other.0", x).replace("\x00", want)
            if num != want:
                bad = "folder computes %s for %s over the operands %s; the interpreter folds them to %s" % (num, op, vals, want)
        if I.incomplete:
            bad = "the folder's visit_binary_expression could not be interpreted completely"
        key = "operator::" + op
        rep.ob("C17.R1", key, bad is None and n_runs > 0, bad or ("" if n_runs else "no run"), vb.loc(),
               how="%d runs: Err as soon as an operand does not fold%s" % (n_runs, ", otherwise the interpreter's term folded left to right" if op in cells else "; never a number"))
    return True
