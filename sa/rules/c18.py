"""C18 — constant-assignment lint."""
from ..props import prop
from . import common
from . import census_rules as cr


def in_linter(fn):
    return fn.file.startswith("src/linter/") or fn.file.startswith("src/analysis/") or fn.file.startswith("src/frontend/ast") or fn.file.startswith("src/frontend/source_range")


@prop("C18")
def c18(ctx):
    rep = ctx.rep
    rep.rule("C18.R3", "CENSUS: every panic/UB-capable construct in a body reachable from Linter::run (with the virtual pass calls "
             "fanned out through the vtables built in standard_passes), cli::linter::lint and the Display impls of the lint result is "
             "enumerated in both profiles and discharged by an automatic rule or a reviewed argument")
    rep.rule("C18.R1", "the pass overrides exactly visit_assignment, visit_poetic_number_assignment and visit_array_push, so every other "
             "statement is reached through the inherited traversal, which visits every block-typed child (C16.R1 on the base defaults)")
    rep.rule("C18.R2", "which statements are reported: KIND interprets the three methods with the two constant folders enumerated over "
             "their outcomes (Ok, each ConstantFoldingError): a compound assignment, a right-hand side that already is a poetic literal and "
             "a push without a value yield nothing; a numeric fold yields the numeric diagnostic for (target, value, line); WrongType "
             "yields the string diagnostic iff the string folder succeeds; any other folding error yields nothing")
    rep.rule("C18.R4", "no misleading suggestion: PoeticNumberLiteralTemplate::from_value is only reached under bool::then of a guard that "
             "requires a finite, non-negative value; the `says` suggestion is only made for strings without a line break")
    n = cr.census_for(ctx, "C18.R3", "C18", "linting", cr.roots_lint, only=in_linter)
    rep.floor("C18.R3", n, 8, "census sites (both profiles)")
    overrides_rule(ctx, "C18.R1")
    inspected_rule(ctx, "C18.R2")
    spelling_guard_rule(ctx, "C18.R4")
    rep.rule("C18.R6", "one rendering of the value: in the linter no float-to-integer conversion (`as u64`, `as i64` ..., which saturate and "
             "truncate) produces text -- no such cast flows into to_string / a format argument / a string being built; the words and the "
             "report both come from the f64's own Display")
    text_from_cast_rule(ctx, "C18.R6")
    rep.rule("C18.R7", "the text the words are counted from is the plain decimal rendering: Display for NumericConstant hands self.value to "
             "<f64 as Display>::fmt on every path and writes nothing else to the formatter (no exponent form, no precision, no prefix), "
             "so every character of the text is a decimal digit, '.', or a sign -- the alphabet the template maps to words")
    constant_display_rule(ctx, "C18.R7")
    rep.rule("C18.R8", "the whole right-hand side is judged: the constant-assignment pass never reaches into an expression list (no access to "
             "ExpressionList.first / .rest under src/linter) -- whether a list folds to a single constant is the folders' decision "
             "(C17.R2: only a one-element list folds), so `let x be 1, 2` is not reported as `1`; and the text of a string constant is the "
             "string itself: Display for StringConstant hands self.value to write_str / <str as Display>::fmt on every path and never to a "
             "Debug rendering (which would escape backslashes and control characters)")
    whole_rhs_rule(ctx, "C18.R8")
    # the value named in the report is the folder's: re-run the folder/interpreter agreement rules under this property
    rep.rule("C18.R5", "the reported value is the one execution computes: the agreement rules of C17 (operator map, operand order, fold "
             "shape, never for non-constants) re-checked here, because a wrong fold makes the report and its suggestion wrong")
    from . import c17 as _c17

    class _Renamed:
        def __init__(self, inner):
            self._i = inner

        def __getattr__(self, k):
            return getattr(self._i, k)

        def rule(self, r, text):
            pass

        def ob(self, rule, key, ok, detail="", where=None, how=None):
            return self._i.ob("C18.R5", rule.split(".")[1] + "::" + key, ok, detail, where, how)

        def fail(self, rule, key, detail, where=None):
            return self._i.ob("C18.R5", rule.split(".")[1] + "::" + key, False, detail, where)

        def floor(self, rule, measured, floor, what="instances"):
            return self._i.floor("C18.R5." + rule.split(".")[1], measured, floor, what)
    real = ctx.rep
    ctx.rep = _Renamed(real)
    try:
        _c17.c17(ctx)
    finally:
        ctx.rep = real


# ------------------------------------------------------------------------------------------
# which statements are inspected (KIND over the three overridden methods)

from .. import kind, kindtables as kt, tables  # noqa: E402
from ..kind import E, is_e  # noqa: E402
from ..core import callee_def, op_local  # noqa: E402
from ..flow import origins  # noqa: E402
from .common import find_method, is_callee  # noqa: E402
from .c03 import kind_deep as kind_deep_  # noqa: E402

VP = "analysis::visit::VisitProgram"
PASS = "linter::passes::boring_assignment::BoringAssignmentPass"
NCF = "analysis::tools::NumericConstantFolder"
SCF = "analysis::tools::SimpleStringConstantFolder"
CFE = "analysis::tools::ConstantFoldingError"
RES = "std::result::Result"
OPT = "std::option::Option"
MOD = "linter::passes::boring_assignment::"


def lint_models(F):
    def m_fold(I, fn, st, t, args, depth):
        recv = args[0]
        who = "num" if is_e(recv, NCF) else ("str" if is_e(recv, SCF) else "?")
        yield E(RES, "Ok", ("sym", who)), None, ((("fold", who), "Ok"),)
        if who == "num":
            for v in F.adts[CFE]["variants"]:
                yield E(RES, "Err", E(CFE, v["name"])), None, ((("fold", who), v["name"]),)
        else:
            yield E(RES, "Err", ("sym", "strerr")), None, ((("fold", who), "Err"),)
    models = {}
    for n in ("visit_assignment_rhs", "visit_expression", "visit_expression_list"):
        models["analysis::visit::VisitExpr::" + n] = m_fold
    for n in ("build_numeric_diag", "maybe_build_string_diag", "maybe_build_numeric_array_push_diag", "build_diag"):
        models[MOD + n] = kind.m_opaque(n)
    models["frontend::source_range::Line::line"] = kind.m_opaque("line")
    return models


def outcomes(I, fn, args):
    res = set()
    for o in I.run(fn, args):
        dec = tuple(sorted((ct[1], tk) for ct, tk in o.conds if isinstance(ct, tuple) and ct and ct[0] == "fold"))
        res.add((kt.term(o.ret), dec))
    return res


def inspected_rule(ctx, rule):
    F, rep = ctx.F, ctx.rep
    I = kind.Interp(F, models=lint_models(F))
    others = tuple(v["name"] for v in F.adts[CFE]["variants"] if v["name"] != "WrongType") if CFE in F.adts else ()
    # ---- visit_assignment
    va = find_method(F, VP, "visit_assignment", PASS)
    if va is None:
        rep.fail(rule, "anchor::visit_assignment", "BoringAssignmentPass::visit_assignment not found")
    else:
        rep.analysed(va)
        A = "frontend::ast::Assignment"
        got_some = outcomes(I, va, [("sym", "self"), E(A, "Assignment", ("sym", "dest"), ("sym", "value"), E(OPT, "Some", ("sym", "op")))])
        ok = {r for r, d in got_some} == {"Ok(Empty)"}
        rep.ob(rule, "compound-assignment-never-reported", ok, "" if ok else "a compound assignment (operator present) can yield %s" % sorted(r for r, d in got_some if r != "Ok(Empty)"),
               va.loc(), how="operator present -> Empty on every path")
        got = outcomes(I, va, [("sym", "self"), E(A, "Assignment", ("sym", "dest"), ("sym", "value"), E(OPT, "None"))])
        want = {("Ok(build_numeric_diag(dest,num,line(Assignment(dest,value,None))))", (("num", "Ok"),))}
        want |= {("Ok(maybe_build_string_diag(dest,Some(str),line(Assignment(dest,value,None))))", (("num", "WrongType"), ("str", "Ok")))}
        want |= {("Ok(maybe_build_string_diag(dest,None,line(Assignment(dest,value,None))))", (("num", "WrongType"), ("str", "Err")))}
        want |= {("Ok(Empty)", (("num", v),)) for v in others}
        ok = got == want
        rep.ob(rule, "plain-assignment-table", ok, "" if ok else "visit_assignment (no operator): unexpected %s; missing %s" % (sorted(got - want)[:2], sorted(want - got)[:2]), va.loc(),
               how="numeric fold -> numeric diag; WrongType -> string diag if a plain string literal; other errors -> nothing")
    # ---- visit_poetic_number_assignment
    vp = find_method(F, VP, "visit_poetic_number_assignment", PASS)
    if vp is None:
        rep.fail(rule, "anchor::visit_poetic_number_assignment", "BoringAssignmentPass::visit_poetic_number_assignment not found")
    else:
        rep.analysed(vp)
        PA = "frontend::ast::PoeticNumberAssignment"
        RHS = "frontend::ast::PoeticNumberAssignmentRHS"
        got = outcomes(I, vp, [("sym", "self"), E(PA, "PoeticNumberAssignment", ("sym", "dest"), E(RHS, "PoeticNumberLiteral", ("sym", "lit")))])
        ok = {r for r, d in got} == {"Ok(Empty)"}
        rep.ob(rule, "poetic-literal-never-reported", ok, "" if ok else "an assignment that already is a poetic literal can yield %s" % sorted(r for r, d in got), vp.loc(), how="PoeticNumberLiteral rhs -> Empty")
        got = outcomes(I, vp, [("sym", "self"), E(PA, "PoeticNumberAssignment", ("sym", "dest"), E(RHS, "Expression", ("sym", "e")))])
        want = {("Ok(build_numeric_diag(dest,num,line(e)))", (("num", "Ok"),)),
                ("Ok(maybe_build_string_diag(dest,Some(str),line(e)))", (("num", "WrongType"), ("str", "Ok"))),
                ("Ok(maybe_build_string_diag(dest,None,line(e)))", (("num", "WrongType"), ("str", "Err")))}
        want |= {("Ok(Empty)", (("num", v),)) for v in others}
        ok = got == want
        rep.ob(rule, "poetic-expression-table", ok, "" if ok else "visit_poetic_number_assignment (expression rhs): unexpected %s; missing %s" % (sorted(got - want)[:2], sorted(want - got)[:2]), vp.loc(),
               how="same table as plain assignments, line of the expression")
    # ---- visit_array_push
    vu = find_method(F, VP, "visit_array_push", PASS)
    if vu is None:
        rep.fail(rule, "anchor::visit_array_push", "BoringAssignmentPass::visit_array_push not found")
    else:
        rep.analysed(vu)
        AP = "frontend::ast::ArrayPush"
        PR = "frontend::ast::ArrayPushRHS"
        got = outcomes(I, vu, [("sym", "self"), E(AP, "ArrayPush", ("sym", "array"), E(OPT, "None"))])
        ok = {r for r, d in got} == {"Ok(Empty)"}
        rep.ob(rule, "push-without-value-never-reported", ok, "" if ok else "`rock x` without a value can yield %s" % sorted(r for r, d in got), vu.loc(), how="no value -> Empty")
        got = outcomes(I, vu, [("sym", "self"), E(AP, "ArrayPush", ("sym", "array"), E(OPT, "Some", E(PR, "PoeticNumberLiteral", ("sym", "lit"))))])
        ok = {r for r, d in got} == {"Ok(maybe_build_numeric_array_push_diag(array,None,line(ArrayPush(array,Some(PoeticNumberLiteral(lit))))))"}
        rep.ob(rule, "push-of-poetic-literal-never-reported", ok, "" if ok else "`rock x like <literal>` yields %s" % sorted(r for r, d in got), vu.loc(), how="poetic literal -> no constant -> no diag")
        got = outcomes(I, vu, [("sym", "self"), E(AP, "ArrayPush", ("sym", "array"), E(OPT, "Some", E(PR, "ExpressionList", ("sym", "el"))))])
        rs = {r.split("(", 2)[1] + ":" + ("Some" if ",Some(num)," in r else "None") for r, d in got}
        by = {d: r for r, d in got}
        ok = set(by) == {(("num", "Ok"),)} | {(("num", v["name"]),) for v in F.adts[CFE]["variants"]} and ",Some(num)," in by[(("num", "Ok"),)] and all(",None," in r for d, r in by.items() if d != (("num", "Ok"),))
        rep.ob(rule, "push-table", ok, "" if ok else "visit_array_push (expression list): %s" % sorted(got)[:3], vu.loc(), how="numeric fold -> diag, anything else -> nothing")
    # maybe_* helpers build a diag exactly for Some
    for name in ("maybe_build_string_diag", "maybe_build_numeric_array_push_diag"):
        fn = F.fn(MOD + name)
        if fn is None:
            # generic over the Render parameter: find by prefix
            c = [f for p, f in F.fns.items() if p.startswith(MOD + name) and f.kind != "closure"]
            fn = c[0] if c else None
        if fn is None:
            rep.fail(rule, "anchor::" + name, "%s not found" % name)
            continue
        rep.analysed(fn)
        I2 = kind.Interp(F, models={MOD + "build_diag": kind.m_opaque("build_diag")})
        none = {kt.term(o.ret) for o in I2.run(fn, [("sym", "var"), E(OPT, "None"), ("sym", "line")])}
        some = {kt.term(o.ret).split("(")[0] for o in I2.run(fn, [("sym", "var"), E(OPT, "Some", ("sym", "v")), ("sym", "line")])}
        ok = none == {"Empty"} and some == {"build_diag"}
        rep.ob(rule, "maybe-helper::" + name, ok, "" if ok else "%s: None -> %s, Some -> %s" % (name, sorted(none), sorted(some)), fn.loc(), how="None -> Empty, Some -> one diag")


def overrides_rule(ctx, rule):
    F, rep = ctx.F, ctx.rep
    for imp in F.impls:
        st = F.ty(imp["self_ty"])
        if imp.get("trait") == VP and st.kind() == "adt" and st.adt() == PASS:
            got = sorted(m["name"] for m in imp["methods"])
            want = ["visit_array_push", "visit_assignment", "visit_poetic_number_assignment"]
            ok = got == want
            rep.ob(rule, "overrides", ok, "" if ok else "BoringAssignmentPass overrides %s; block-carrying statements must keep the inherited traversal (C16.R1) and only %s are inspected" % (got, want),
                   imp.get("file"), how=str(want))
            return
    rep.fail(rule, "anchor::impl", "impl VisitProgram for BoringAssignmentPass not found")


def spelling_guard_rule(ctx, rule):
    """no misleading suggestion: the template is only built from values that have a poetic spelling"""
    F, rep = ctx.F, ctx.rep
    from ..guards import _closure_use
    fv = [f for p, f in F.fns.items() if p == MOD + "PoeticNumberLiteralTemplate::from_value"]
    if not fv:
        rep.fail(rule, "anchor::from_value", "PoeticNumberLiteralTemplate::from_value not found")
        return
    # outcome tables by KIND, whatever idiom the guard is written in
    hps = F.fn(MOD + "has_poetic_spelling")
    n = 0
    users = sorted({common.top_fn(F, fn).path for fn, bi, t in common.who_calls(F, lambda c: c["def"] == fv[0].path) if not fn.in_test_file()})
    for up in users:
        fn = F.fn(up)
        n += 1
        rep.analysed(fn)

        def m_guard(I_, f, st, t, args, depth):
            yield kc_(True), None, ((("spellable",), "T"),)
            yield kc_(False), None, ((("spellable",), "F"),)

        def m_from_value(I_, f, st, t, args, depth):
            yield ("call", "from_value", tuple(kind._short(a_) for a_ in args)), None, ((("from_value",), "1"),)
        from ..kind import c as kc_
        guards_ = [callee_def(t) for b in F.with_closures(fn) for bi, t in b.calls() if F.fn(callee_def(t) or "") is not None and F.ty(F.fn(callee_def(t)).d["ret"]).s == "bool" and (callee_def(t) or "").startswith(MOD)]
        ok, why = False, ""
        if not guards_:
            why = "%s builds the poetic words without asking whether the value has a poetic spelling" % up
        else:
            I_ = kind.Interp(F, models={guards_[0]: m_guard, fv[0].path: m_from_value})
            args_ = [("sym", "a%d" % i) for i in range(1, fn.argc + 1)]
            rows = set()
            for o in I_.run(fn, args_):
                g = [c_[1] for c_ in o.conds if c_[0] == ("spellable",)]
                used = any(c_[0] == ("from_value",) for c_ in o.conds)
                some = is_e(o.ret, OPT) and o.ret[2] == "Some"
                none = is_e(o.ret, OPT) and o.ret[2] == "None"
                rows.add((g[0] if g else "-", used, "Some" if some else ("None" if none else kt.summ(o.ret))))
            ok = rows == {("T", True, "Some"), ("F", False, "None")} and not I_.incomplete
            why = "" if ok else "%s yields %s; the rule: a suggestion (built from from_value) exactly when the value has a poetic spelling, nothing otherwise" % (up, sorted(rows))
            gf = F.fn(guards_[0])
            if ok and gf is not None:
                names = {tt["callee"].get("name") for b in F.with_closures(gf) for bb, tt in b.calls() if "indirect" not in tt["callee"]}
                if not {"is_finite", "is_sign_positive"} <= names:
                    ok, why = False, "the guard %s does not require a finite, non-negative value (%s)" % (gf.path, sorted(x for x in names if x))
        rep.ob(rule, "numeric-suggestion-guarded::%s" % up, ok, why, fn.loc(), how="suggestion iff finite, non-negative (sign bit clear)")
    rep.floor(rule, n, 1, "uses of from_value")
    ss = [f for p, f in F.fns.items() if p.startswith(MOD + "string_suggestion_payload") and f.kind != "closure"]
    if not ss:
        rep.fail(rule, "anchor::string_suggestion_payload", "string_suggestion_payload not found")
    else:
        fn = ss[0]
        rep.analysed(fn)
        from ..kind import c as kc_

        def m_contains(I_, f, st, t, args, depth):
            pat = args[1] if len(args) > 1 else None
            yield kc_(True), None, ((("contains", kind._short(pat)), "T"),)
            yield kc_(False), None, ((("contains", kind._short(pat)), "F"),)
        I_ = kind.Interp(F, models={"core::str::<impl str>::contains": m_contains, "std::str::<impl str>::contains": m_contains})
        rows = set()
        for o in I_.run(fn, [("sym", "var"), ("sym", "val")]):
            g = [(c_[0][1], c_[1]) for c_ in o.conds if isinstance(c_[0], tuple) and c_[0] and c_[0][0] == "contains"]
            rows.add((tuple(g), "Some" if is_e(o.ret, OPT) and o.ret[2] == "Some" else ("None" if is_e(o.ret, OPT) and o.ret[2] == "None" else kt.summ(o.ret))))
        NL = ("c", "\n")
        want = {(((NL, "T"),), "None"), (((NL, "F"),), "Some")}
        ok = rows == want and not I_.incomplete
        rep.ob(rule, "string-suggestion-guarded", ok, "" if ok else "a `says` suggestion is not made exactly for strings without a line break (a poetic string ends at the end of the line): %s" % sorted(rows, key=str), fn.loc(),
               how="contains('\\n') -> None, otherwise Some(..)")


def whole_rhs_rule(ctx, rule):
    F, rep = ctx.F, ctx.rep
    EL = "frontend::ast::ExpressionList"
    n_fns = sum(1 for fn in F.all_bodies(tests=False) if fn.file.startswith("src/linter/"))
    hits = []
    for field in ("first", "rest"):
        for fn, bi, kind, s_ in common.field_accesses(F, EL, field):
            if fn.file.startswith("src/linter/"):
                hits.append((fn, s_, field))
    ok = not hits and n_fns >= 20
    rep.ob(rule, "pass-never-splits-a-list", ok,
           "" if ok else ("%s reads ExpressionList.%s: the pass judges a part of the right-hand side instead of the whole list" % (common.top_fn(F, hits[0][0]).path, hits[0][2]) if hits else "only %d linter bodies found" % n_fns),
           hits[0][0].loc(hits[0][1].get("line")) if hits else None, how="%d linter bodies, no access to ExpressionList.first/.rest" % n_fns)
    fn = None
    for f in F.all_fns(tests=False):
        if f.path == "<analysis::tools::StringConstant as std::fmt::Display>::fmt":
            fn = f
    if fn is None:
        rep.fail(rule, "anchor::StringConstant::fmt", "impl Display for StringConstant not found")
        return
    rep.analysed(fn)
    bodies = list(F.with_closures(fn))
    dbg = [t for b in bodies for bi, t in b.calls() if (callee_def(t) or "").endswith(("::new_debug", "::new_debug_noop")) or ((callee_def(t) or "") == "std::fmt::Debug::fmt")]
    def is_plain(b_, t):
        return (t["callee"].get("name") in ("write_str", "pad") or (callee_def(t) == "std::fmt::Display::fmt" and any(k in (t["callee"].get("inst") or "") for k in ("<str as", "<std::string::String as")))) \
            and any(d[0] == "param" and d[1] == 1 and "value" in p for a in t["args"] for d, p in kind_deep_(b_, a))
    plain = [bi for bi, t in fn.calls() if is_plain(fn, t)]
    plain_in_closure = [b_ for b_ in bodies if b_ is not fn for bi, t in b_.calls() if is_plain(b_, t)]
    ok, why = True, ""
    if dbg:
        ok, why = False, "the string constant is rendered with Debug formatting: backslashes, quotes and control characters come out escaped, so the report no longer shows the string the program assigns"
    elif len(plain) < 1 and not plain_in_closure:
        ok, why = False, "self.value is not written to the formatter as plain text"
    elif plain and common.path_to_return_avoiding(fn, plain[:1]):
        ok, why = False, "on some path the string is not written as plain text"
    elif not plain:
        # written inside a closure chained on the earlier write's result (`.and_then(|()| f.write_str(..))`): it runs unless that write failed
        from ..guards import _closure_use
        u = _closure_use(F, plain_in_closure[0])
        if not u or u[2]["callee"].get("name") not in ("and_then", "map", "and"):
            ok, why = False, "the string is written inside a closure that is not chained on the preceding write"
    rep.ob(rule, "string-constant-text-is-the-string", ok, why, fn.loc(), how="write_str(self.value) between the quotes, no Debug rendering")


def constant_display_rule(ctx, rule):
    F, rep = ctx.F, ctx.rep
    fn = None
    for f in F.all_fns(tests=False):
        if f.path == "<analysis::tools::NumericConstant as std::fmt::Display>::fmt":
            fn = f
    if fn is None:
        rep.fail(rule, "anchor", "impl Display for NumericConstant not found")
        return
    rep.analysed(fn)
    plain = [bi for bi, t in fn.calls() if callee_def(t) == "std::fmt::Display::fmt" and (t["callee"].get("inst") or "").startswith("<f64 as")]
    ok, why = True, ""
    if len(plain) != 1:
        ok, why = False, "expected one call of <f64 as Display>::fmt, found %d" % len(plain)
    else:
        t = fn.term(plain[0])
        if not any(d[0] == "param" and d[1] == 1 and p[-1:] == ("value",) for d, p in origins(fn, t["args"][0])):
            ok, why = False, "what is rendered is not self.value"
        elif common.path_to_return_avoiding(fn, plain, through_errors=True):
            ok, why = False, "on some path the constant is rendered by other means than <f64 as Display>::fmt (an exponent or otherwise decorated form contains characters the poetic template cannot spell)"
        else:
            others = [callee_def(t2) for b2 in F.with_closures(fn) for bi2, t2 in b2.calls()
                      if not (b2 is fn and bi2 == plain[0]) and any("Formatter" in b2.local_ty(op_local(a)).s for a in t2["args"] if op_local(a) is not None)]
            if others:
                ok, why = False, "the formatter is also written to by %s" % sorted(set(x or "?" for x in others))
    rep.ob(rule, "constant-text-is-f64-display", ok, why, fn.loc(), how="self.value.fmt(f), nothing else")


def text_from_cast_rule(ctx, rule, scope=None, min_fns=20):
    F, rep = ctx.F, ctx.rep
    scope = scope or (lambda fn: fn.file.startswith("src/linter/") or fn.file == "src/analysis/tools.rs")
    from ..flow import Labels
    SINKS = ("to_string", "new_display", "new_debug", "new_lower_exp", "new_upper_exp", "push_str", "write_str", "format", "push", "to_digit", "from_digit")
    n_fns = 0
    n_casts = 0
    for fn in F.all_fns(tests=False):
        if fn.kind == "closure" or not scope(fn) or fn.is_derived() or not fn.mir:
            continue
        n_fns += 1
        seeds = {}
        where = {}
        for body in F.with_closures(fn):
            for bi, si, st in body.assigns():
                if st["rv"].get("cast") == "FloatToInt":
                    seeds.setdefault((body.path, st["pl"]["l"]), set()).add(("cast", body.path, bi, si))
                    where[("cast", body.path, bi, si)] = body.loc(st.get("line"))
        if not seeds:
            continue
        rep.analysed(fn)
        lab = Labels(F, fn, seeds)
        for lbl in sorted(where):
            n_casts += 1
            hit = None
            for body in F.with_closures(fn):
                for bi, t in body.calls():
                    if t["callee"].get("name") in SINKS and any(lbl in lab.op_labels(body, a) for a in t["args"]):
                        hit = (body, t)
                        break
                if hit:
                    break
            ok = hit is None
            rep.ob(rule, "float-to-int-into-text::%s#%d" % (fn.path, sorted(where).index(lbl)), ok,
                   "" if ok else "%s converts a floating-point value to an integer and turns the result into text (%s, line %s): beyond the integer type's range the conversion saturates, so the text no longer spells the value" % (
                       fn.path, hit[1]["callee"].get("def"), hit[1]["line"]), where[lbl], how="the converted value never becomes text")
    rep.ob(rule, "scanned", n_fns >= min_fns, "" if n_fns >= min_fns else "only %d functions found" % n_fns, None, how="%d functions scanned, %d float-to-integer casts" % (n_fns, n_casts))
