"""C18 — constant-assignment lint."""
from ..props import prop
from . import common
from . import census_rules as cr


def in_linter(fn):
    return fn.file.startswith("src/linter/") or fn.file.startswith("src/analysis/") or fn.file.startswith("src/frontend/ast") or fn.file.startswith("src/frontend/source_range")


@prop("C18")
def c18(ctx):
    rep = ctx.rep
    rep.rule("C18.R3", "CENSUS: every panic/UB-capable construct in a body reachable from Linter::run (with the virtual pass calls "
             "fanned out through the vtables built in standard_passes), cli::linter::lint and the Display impls of the lint result is "
             "enumerated in both profiles and discharged by an automatic rule or a reviewed argument")
    n = cr.census_for(ctx, "C18.R3", "C18", "linting", cr.roots_lint, only=in_linter)
    rep.floor("C18.R3", n, 12, "census sites (both profiles)")
