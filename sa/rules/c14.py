"""C14 — equality, ordering and logic obey their algebraic laws (finite truth tables and symmetry of the coercion)."""
from .. import kind, kindtables as kt
from ..core import callee_def
from ..flow import origins
from ..props import prop
from . import common, kind_rules
from .c03 import op_outcomes, OPFN, fold_rule, find_method, VP
from .common import is_callee, flows_into


def table_of(outs, family):
    """{decision: result} of one operator restricted to the outcomes where b was evaluated successfully"""
    tab = {}
    for res, dec in outs:
        d = dict((ct[0] if isinstance(ct, tuple) else ct, (ct, tk)) for ct, tk in dec)
        if family == "compare":
            k = [tk for ct, tk in dec if isinstance(ct, tuple) and ct[0] == "compare"]
            if k:
                tab.setdefault(k[0], set()).add(res)
        elif family == "equals":
            k = [tk for ct, tk in dec if isinstance(ct, tuple) and ct[0] == "equals"]
            if k:
                tab.setdefault(k[0], set()).add(res)
        else:
            ta = [tk for ct, tk in dec if isinstance(ct, tuple) and ct[0] == "truthy" and ct[1] == "a"]
            tb = [tk for ct, tk in dec if isinstance(ct, tuple) and ct[0] == "truthy" and ct[1] == "b()"]
            called = [tk for ct, tk in dec if isinstance(ct, tuple) and ct[0] == "called"]
            if ta and (not called or called[0] == "ok"):
                tab.setdefault((ta[0], tb[0] if tb else "-"), set()).add(res)
    return tab


@prop("C14")
def c14(ctx):
    F, rep = ctx.F, ctx.rep
    rep.rule("C14.R1", "laws on the extracted truth tables (oracle-free): Less(o) = Greater(reverse o) and LessEq(o) = GreaterEq(reverse o) over "
             "{Less, Equal, Greater}; an unordered pair (None) is false and an error is an error in all four; LessEq and GreaterEq both hold "
             "exactly on Equal; NotEq is the negation of Eq on the same operands; nor = not or, with the same evaluation of b; and/or agree "
             "with truthiness")
    rep.rule("C14.R2", "symmetry of the coercion: for all 36 ordered kind pairs, cmp_coerced(A, B) is the mirror image (roles and pair "
             "components exchanged, terms compared) of cmp_coerced(B, A)")
    rep.rule("C14.R3", "equals and compare both start from one call cmp_coerced(self, other) on the unchanged operands, so equality and ordering "
             "share one coercion")
    rep.rule("C14.R4", "compound assignment uses the same fold as the binary expression (C03.R3 on visit_assignment), on every path: once "
             "the statement has an operator, the write of the destination is reachable only through binary_operator_fold, whose result is "
             "the value written, with the statement's own operator -- no operator or operand kind gets a path of its own")
    outs = op_outcomes(ctx)
    fn = F.fn(OPFN)
    if outs is None:
        rep.fail("C14.R1", "anchor", "binary_operator_fold::op not found")
    else:
        rep.analysed(fn)
        rep.exhaustive["operator_truth_tables"] = True
        rev = {"Less": "Greater", "Equal": "Equal", "Greater": "Less", "None": "None", "Err": "Err"}
        t = {op: table_of(outs.get(op, set()), "compare") for op in ("Greater", "GreaterEq", "Less", "LessEq")}
        for lo, hi in (("Less", "Greater"), ("LessEq", "GreaterEq")):
            for o in ("Less", "Equal", "Greater", "None", "Err"):
                a = t[lo].get(o)
                b = t[hi].get(rev[o])
                ok = a is not None and a == b and len(a) == 1
                rep.ob("C14.R1", "mirror::%s(%s)=%s(%s)" % (lo, o, hi, rev[o]), ok,
                       "" if ok else "%s on ordering %s gives %s but %s on the reversed ordering %s gives %s: a < b and b > a (or <= and >=) disagree" % (
                           lo, o, sorted(a or []), hi, rev[o], sorted(b or [])), fn.loc(), how="equal cells")
        for op in t:
            a = t[op].get("None")
            ok = a == {"Ok(B(False))"}
            rep.ob("C14.R1", "unordered-is-false::" + op, ok, "" if ok else "%s on an unordered pair gives %s" % (op, sorted(a or [])), fn.loc(), how="None -> false")
            e = t[op].get("Err")
            ok = e is not None and all(x.startswith("Err(") for x in e)
            rep.ob("C14.R1", "error-is-error::" + op, ok, "" if ok else "%s turns a comparison error into %s" % (op, sorted(e or [])), fn.loc(), how="Err -> Err")
        both = [o for o in ("Less", "Equal", "Greater") if t["LessEq"].get(o) == {"Ok(B(True))"} and t["GreaterEq"].get(o) == {"Ok(B(True))"}]
        rep.ob("C14.R1", "le-and-ge-is-equal", both == ["Equal"], "" if both == ["Equal"] else "<= and >= hold together on %s" % both, fn.loc(), how="only on Equal")
        eq = table_of(outs.get("Eq", set()), "equals")
        ne = table_of(outs.get("NotEq", set()), "equals")
        neg = {"Ok(B(True))": "Ok(B(False))", "Ok(B(False))": "Ok(B(True))"}
        for k in ("T", "F"):
            a, b = eq.get(k), ne.get(k)
            ok = a is not None and b is not None and len(a) == 1 and {neg.get(x) for x in a} == b
            rep.ob("C14.R1", "noteq-negates-eq::" + k, ok, "" if ok else "Eq gives %s and NotEq gives %s when equals is %s" % (sorted(a or []), sorted(b or []), k), fn.loc(), how="negation")
        eq_ops = {ct[1:] for res, dec in outs.get("Eq", set()) for ct, tk in dec if isinstance(ct, tuple) and ct[0] == "equals"}
        ne_ops = {ct[1:] for res, dec in outs.get("NotEq", set()) for ct, tk in dec if isinstance(ct, tuple) and ct[0] == "equals"}
        ok = eq_ops == ne_ops == {("a", "b()")}
        rep.ob("C14.R1", "eq-noteq-same-operands", ok, "" if ok else "Eq compares %s, NotEq compares %s" % (sorted(eq_ops), sorted(ne_ops)), fn.loc(), how="a.equals(b)")
        lor = table_of(outs.get("Or", set()), "logic")
        lnor = table_of(outs.get("Nor", set()), "logic")
        land = table_of(outs.get("And", set()), "logic")
        ok = set(lor) == set(lnor) and all(len(lor[k]) == 1 and {neg.get(x) for x in lor[k]} == lnor[k] for k in lor)
        rep.ob("C14.R1", "nor-is-not-or", ok, "" if ok else "nor %s is not the negation of or %s on the same evaluations" % (
            {k: sorted(v) for k, v in lnor.items()}, {k: sorted(v) for k, v in lor.items()}), fn.loc(), how="cellwise negation, same short-circuit")
        want_and = {("F", "-"): {"Ok(B(False))"}, ("T", "T"): {"Ok(B(True))"}, ("T", "F"): {"Ok(B(False))"}}
        want_or = {("T", "-"): {"Ok(B(True))"}, ("F", "T"): {"Ok(B(True))"}, ("F", "F"): {"Ok(B(False))"}}
        rep.ob("C14.R1", "and-agrees-with-truthiness", land == want_and, "" if land == want_and else "and: %s" % {k: sorted(v) for k, v in land.items()}, fn.loc(), how="truth table")
        rep.ob("C14.R1", "or-agrees-with-truthiness", lor == want_or, "" if lor == want_or else "or: %s" % {k: sorted(v) for k, v in lor.items()}, fn.loc(), how="truth table")
    n = kind_rules.symmetry(ctx, "C14.R2")
    rep.floor("C14.R2", n, 36, "ordered kind pairs")
    # R3
    for name in ("equals", "compare"):
        f = F.fn("exec::val::Val::" + name)
        if f is None:
            rep.fail("C14.R3", "anchor::" + name, "Val::%s not found" % name)
            continue
        rep.analysed(f)
        cs = [(bi, t) for bi, t in f.calls() if callee_def(t) == "exec::val::Val::cmp_coerced"]
        ok = len(cs) == 1
        why = "" if ok else "expected one call of cmp_coerced, found %d" % len(cs)
        if ok:
            t = cs[0][1]
            a = origins(f, t["args"][0])
            b = origins(f, t["args"][1])
            if not (any(d[0] == "param" and d[1] == 1 and not p for d, p in a) and any(d[0] == "param" and d[1] == 2 and not p for d, p in b)):
                ok, why = False, "cmp_coerced is not applied to (self, other) unchanged"
            elif not f.dominates(cs[0][0], f.return_blocks()[0]) if f.return_blocks() else True:
                ok, why = False, "a path through %s avoids the coercion" % name
        rep.ob("C14.R3", "shared-coercion::" + name, ok, why, f.loc(), how="self.cmp_coerced(other)")
    # R4
    fold_rule(ctx, "C14.R4")
    compound_through_fold(ctx, "C14.R4")
    rep.rule("C14.R6", "`not` agrees with truthiness: ProduceVal::visit_unary_expression yields Boolean(!is_truthy(operand)) of the evaluated "
             "operand itself (outcome table by KIND; the same is_truthy that and/or/nor and the conditions use)")
    from .c03 import unary_rule
    unary_rule(ctx, "C14.R6")
    rep.rule("C14.R10", "an assignment stores the value it computed, whatever was there before: the writer closure of ExecStmt::writer assigns the "
             "target on every path and compares nothing (a `store only if different` skips -0 over 0 and makes the compound form differ from "
             "the spelled-out one)")
    wr = F.fn("exec::exec_stmt::ExecStmt::<'a, I, O>::writer")
    if wr is None:
        rep.fail("C14.R10", "anchor", "ExecStmt::writer not found")
    else:
        rep.analysed(wr)
        cls = [b for b in F.with_closures(wr) if b.kind == "closure"]
        ok, why = len(cls) == 1, "" if len(cls) == 1 else "expected one writer closure, found %d" % len(cls)
        if ok:
            b = cls[0]
            stores = [bi for bi, si, st in b.assigns() if st["pl"]["p"] == ["deref"] and 2 <= st["pl"]["l"] <= b.argc]
            stores += [bi for bi, t in b.calls() if t["dest"]["p"] == ["deref"] and 2 <= t["dest"]["l"] <= b.argc]
            cmps = [callee_def(t) for bi, t in b.calls() if (callee_def(t) or "").startswith("std::cmp::") or (t["callee"].get("name") or "") in ("equals", "eq", "ne")]
            if not stores:
                ok, why = False, "the writer never assigns the target"
            elif common.path_to_return_avoiding(b, stores, through_errors=True):
                ok, why = False, "on some path the writer does not store the value (a store that depends on what the target held)"
            elif cmps:
                ok, why = False, "the writer compares (%s) before it stores" % cmps
        rep.ob("C14.R10", "writer-stores-unconditionally", ok, why, wr.loc(), how="*v = val.clone() on every path")
    rep.rule("C14.R9", "within one kind, ordering is the kind's own comparison and nothing else: compare(Number, Number) is f64::partial_cmp of "
             "(self, other) or unordered, compare(String, String) is str::cmp of (self, other) -- the relations whose `Equal` is exactly the "
             "derived equality `is` uses (R7), so `a <= b and a >= b` cannot hold for two strings that `is` tells apart (term anchors shared "
             "with C03.R5)")
    from .c03 import term_anchor_rule as _anchors
    _anchors(ctx, "C14.R9")
    rep.rule("C14.R8", "`let x be <op> e` is always read as the compound form: in Parser::parse_let_assignment every non-error path passes the "
             "one optional match of the operator tokens {+, with, -, *, /} (whose outcome alone decides Assignment.operator) before the value is "
             "parsed -- no look-ahead at what follows the operator (a number, a literal ...) takes another route, so `let x be -5` and "
             "`let x be x -5` agree")
    pl_ = F.fn("frontend::parser::Parser::<'a>::parse_let_assignment")
    if pl_ is None:
        rep.fail("C14.R8", "anchor", "Parser::parse_let_assignment not found")
    else:
        from .. import tokens as _tokens
        rep.analysed(pl_)
        MC_ = "frontend::parser::Parser::<'a>::match_and_consume"

        def op_matches(b_):
            return [bi for bi, t in b_.calls() if callee_def(t) == MC_ and (_tokens.resolve_token_set(F, b_, t["args"][1]) or set()) >= {"Plus", "Minus", "Multiply", "Divide"}]
        ms = op_matches(pl_)
        if not ms:
            # the match may live in a private helper that does nothing else: one such match on every path, handed back
            for bi, t in pl_.calls():
                h = F.fn(callee_def(t) or "")
                if h is not None and h.mir and h.file == pl_.file and h.kind != "closure" and t["callee"].get("trait") is None:
                    hm = op_matches(h)
                    if len(hm) == 1 and not common.path_to_return_avoiding(h, hm, through_errors=True) and hm[0] in __import__("sa.progress", fromlist=["deep_sources"]).deep_sources(h, {"copy": {"l": 0, "p": []}}):
                        ms.append(bi)
        vals = [bi for bi, t in pl_.calls() if (callee_def(t) or "").endswith(("::parse_toplevel_expression_list", "::parse_expression_list", "::parse_expression"))]
        ok, why = True, ""
        if len(ms) != 1:
            ok, why = False, "expected one match of the compound operator tokens, found %d" % len(ms)
        elif common.path_to_return_avoiding(pl_, ms):
            ok, why = False, "some `let` statements are parsed without asking whether an operator follows `be`: `let x be <op> e` is then an ordinary assignment of `<op> e`"
        elif not vals or not all(pl_.dominates(ms[0], v) for v in vals):
            ok, why = False, "the value of a `let` can be parsed before (or without) the operator match"
        else:
            fields = [f["name"] for f in F.adts["frontend::ast::Assignment"]["variants"][0]["fields"]]
            for bi, si, st in pl_.assigns():
                a = st["rv"].get("agg")
                if isinstance(a, dict) and a.get("adt") == "frontend::ast::Assignment":
                    o = st["rv"]["ops"][fields.index("operator")]
                    from ..progress import deep_sources
                    if ms[0] not in deep_sources(pl_, o):
                        ok, why = False, "Assignment.operator of a `let` does not come from the operator match"
        rep.ob("C14.R8", "let-compound-operator-always-asked", ok, why, pl_.loc(), how="match_and_consume({+, with, -, *, /}) on every path, before the value")
    rep.rule("C14.R7", "equality of values is the derived, component-wise equality -- symmetric and (NaN aside) reflexive by construction: the "
             "PartialEq impls of Val, Array and DictKey carry #[automatically_derived]; a hand-written comparison (one-directional over the "
             "dictionary, tolerant on numbers) cannot be shown symmetric or consistent with the ordering and is reported")
    n_eq = 0
    for adt in ("exec::val::Val", "exec::val::Array", "exec::val::DictKey"):
        imps = [im for im in F.impls if im.get("trait") == "std::cmp::PartialEq" and im.get("trait_ref", "").startswith("<%s as " % adt)]
        n_eq += len(imps)
        ok = len(imps) == 1 and bool(imps[0].get("derived"))
        rep.ob("C14.R7", "derived-equality::" + adt.rsplit("::", 1)[-1], ok,
               "" if ok else ("%s has no PartialEq impl" % adt if not imps else "PartialEq for %s is written by hand (%s:%s): its symmetry and its agreement with compare() cannot be shown" % (adt, imps[0].get("file"), imps[0].get("lo"))),
               "%s:%s" % (imps[0].get("file"), imps[0].get("lo")) if imps else None, how="#[derive(PartialEq)]")
    rep.floor("C14.R7", n_eq, 3, "PartialEq impls of the value types")



def compound_through_fold(ctx, rule):
    F, rep = ctx.F, ctx.rep
    from .. import tables
    from ..core import op_place
    fn = find_method(F, VP, "visit_assignment", "exec::exec_stmt::ExecStmt")
    if fn is None:
        rep.fail(rule, "anchor::visit_assignment", "ExecStmt::visit_assignment not found")
        return
    rep.analysed(fn)
    FOLD = "exec::produce_val::binary_operator_fold"

    def always_folds(h, depth=0):
        """a private helper whose every normal return has passed binary_operator_fold (and hands its result on)"""
        fs = [bi for bi, t in h.calls() if callee_def(t) == FOLD]
        if not fs:
            return False
        return not common.path_to_return_avoiding(h, fs)
    folds = [bi for bi, t in fn.calls() if callee_def(t) == FOLD]
    helper_fold = False
    if not folds:
        for bi, t in fn.calls():
            h = F.fn(callee_def(t) or "")
            if h is not None and h.mir and h.file == fn.file and t["callee"].get("trait") is None and always_folds(h):
                folds.append(bi)
                helper_fold = True
    # the branch on `operator`
    some_targets = []
    for bi in range(len(fn.blocks)):
        t = fn.term(bi)
        if t["k"] != "switch":
            continue
        sw = tables.switch_on_discr(fn, bi)
        if not sw:
            continue
        pl = sw[0]
        names = [e.get("name") for e in pl["p"] if isinstance(e, dict) and "f" in e]
        if names[-1:] == ["operator"] and "Some" in sw[2]:
            some_targets.append(sw[2]["Some"])
    # the write: a visit call on a WriteVal receiver
    writes = []
    for bi, t in fn.calls():
        if (t["callee"].get("name") or "").startswith("visit_") and t["args"] and op_place(t["args"][0]) is not None:
            if fn.local_ty(op_place(t["args"][0])["l"]).peel_refs().s.startswith("exec::write_val::WriteVal"):
                writes.append(bi)
    if len(folds) != 1 or len(some_targets) != 1 or not writes:
        rep.fail(rule, "compound::shape", "shape not recognised: %d fold call(s), %d branch(es) on the operator, %d write(s)" % (len(folds), len(some_targets), len(writes)), fn.loc())
        return
    reach = fn.reachable(some_targets[0], avoid=folds)
    bypass = [w for w in writes if w in reach]
    ok = not bypass
    rep.ob(rule, "compound::every-path-through-fold", ok,
           "" if ok else "with an operator present, the write at line %s can be reached without passing binary_operator_fold: some operator / operand kinds are combined by other code than `x op e`" % fn.term(bypass[0])["line"],
           fn.loc(fn.term(folds[0])["line"]), how="the write is unreachable from the Some(op) branch once the fold call is removed")
    # the operator handed to the fold is the statement's
    t = fn.term(folds[0])
    op_arg = t["args"][0]
    if helper_fold:
        # which argument of the helper becomes the fold's operator
        h = F.fn(callee_def(t))
        ft = [tt for b2, tt in h.calls() if callee_def(tt) == FOLD][0]
        ps = [d[1] for d, _ in origins(h, ft["args"][0]) if d[0] == "param"]
        op_arg = t["args"][ps[0] - 1] if ps and ps[0] - 1 < len(t["args"]) else t["args"][0]
    src = set(origins(fn, op_arg))
    ok = any(d == ("param", 2) and "operator" in p for d, p in src) and len({d for d, p in src}) == 1
    rep.ob(rule, "compound::operator-is-the-statement's", ok, "" if ok else "the operator handed to the fold is not a.operator (%s)" % sorted(map(str, src)), fn.loc(t["line"]), how="a.operator")
