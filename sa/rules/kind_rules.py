"""Rules built on KIND tables: comparison with the reviewed reference (spec/kind_tables.json), decay law,
symmetry of the coercion, operator truth tables."""
import json
import os

from .. import kind, kindtables as kt
from ..kind import E, is_e, c
from ..core import callee_def

VERIF = os.path.dirname(os.path.dirname(os.path.dirname(os.path.abspath(__file__))))
L = kt.LET
K6 = "ULBNSA"


def load_spec():
    with open(os.path.join(VERIF, "spec", "kind_tables.json")) as f:
        return json.load(f)


def tables(ctx):
    if "kt" not in ctx.cache:
        ctx.cache["kt"] = kt.Tables(ctx.F)
    return ctx.cache["kt"]


def computed(ctx, group, name):
    """{cell name: sorted summaries} for one operation, as in the spec file"""
    key = ("kt", group, name)
    if key in ctx.cache:
        return ctx.cache[key]
    T = tables(ctx)
    out = None
    if group == "binary":
        tab = T.binary(name)
        if tab is not None:
            ws = name in ("index_or_insert",)
            out = {L[a] + L[b]: kt.cell(tab[(a, b)], ws) for a in kt.KINDS for b in kt.KINDS}
    elif group == "unary":
        extra = [("sym", "x")] if name == "inc" else []
        u = T.unary(name, extra)
        if u is not None:
            out = {L[a]: kt.cell(u[a], True) for a in kt.KINDS}
    else:
        t = T.with_option_param(name)
        if t is not None:
            out = {L[a] + ":" + (p if p == "None" else L[p]): kt.cell(t[(a, p)], True) for a in kt.KINDS for p in ["None"] + kt.KINDS}
    ctx.cache[key] = out
    return out


def compare_with_reference(ctx, rule, group, names, d12_prop=None):
    """every cell of the named operations equals the reviewed reference; D12 cells: the law-conforming reference value is
    accepted silently, today's recorded value is reported under the key `d12::<op>:<cell>` (a known finding), anything else
    is a violation"""
    rep = ctx.rep
    spec = load_spec()
    n = 0
    for name in names:
        ref = spec[group].get(name)
        got = computed(ctx, group, name)
        fn = ctx.F.fn("exec::val::Val::" + name)
        where = fn.loc() if fn else None
        if got is None or ref is None:
            rep.fail(rule, "anchor::" + name, "exec::val::Val::%s not found (or no reference table)" % name)
            continue
        rep.exhaustive[name] = True
        for cellname in sorted(ref):
            n += 1
            g = got.get(cellname)
            r = ref[cellname]
            d12 = spec.get("d12_cells", {}).get("%s:%s" % (name, cellname))
            key = "%s::%s" % (name, cellname)
            if g == r:
                rep.ob(rule, key, True, "", where, how="cell equals the reviewed reference %s" % "|".join(r))
            elif d12 is not None and g == d12["today"]:
                if d12_prop is not None:
                    rep.fail(d12_prop, "d12::%s:%s" % (name, cellname),
                             "%s(%s): an array operand is coerced one step only: result %s, but the same cell with the array's length in its "
                             "place gives %s" % (name, cellname, "|".join(g), "|".join(d12["law"])), where)
                else:
                    rep.ob(rule, key, True, "", where, how="D12 cell (reported under C06.R6): today's value %s" % "|".join(g))
            else:
                rep.fail(rule, key, "%s(%s) yields %s; the reviewed table has %s" % (name, cellname, "|".join(g or ["?"]), "|".join(r)), where)
    return n


def _swap_syms(v):
    """exchange the roles of self and other in a term"""
    if isinstance(v, tuple):
        if v and v[0] == "sym" and isinstance(v[1], str):
            s = v[1]
            if s.startswith("self"):
                return ("sym", "other" + s[4:])
            if s.startswith("other"):
                return ("sym", "self" + s[5:])
            return v
        return tuple(_swap_syms(x) for x in v)
    return v


def _strip(v):
    """drop Cow wrappers and bounded-depth markers so that terms compare structurally"""
    if isinstance(v, tuple):
        if is_e(v, "std::borrow::Cow"):
            return _strip(v[3][0])
        return tuple(_strip(x) for x in v)
    return v


def symmetry(ctx, rule):
    """C14.R2: for all 36 ordered kind pairs, cmp_coerced(A, B) mirrored (roles and components exchanged) equals cmp_coerced(B, A)"""
    rep = ctx.rep
    T = tables(ctx)
    fn = ctx.F.fn("exec::val::Val::cmp_coerced")
    if fn is None:
        rep.fail(rule, "anchor", "Val::cmp_coerced not found")
        return 0
    rep.analysed(fn)
    rep.exhaustive["cmp_coerced_symmetry"] = True
    spec = load_spec()
    d12_pairs = {k.split(":")[1] for k in spec.get("d12_cells", {}) if k.startswith(("equals:", "compare:"))}

    def outcomes(a, b):
        res = set()
        for o in T.I.run(fn, [kt.mk(a, "self"), kt.mk(b, "other")]):
            r = _strip(o.ret)
            if is_e(r, "std::option::Option") and r[2] == "Some":
                pair = r[3][0]
                if pair[0] == "t" and len(pair[1]) == 2:
                    x, y = pair[1]
                    if is_e(x, kt.VAL) and is_e(y, kt.VAL) and x[2] != y[2]:
                        # the kinds still differ after coercion: equality is false and ordering an error whatever the payloads are
                        res.add(("mismatch",))
                    else:
                        res.add(("some", x, y))
                else:
                    res.add(("some?", r))
            elif is_e(r, "std::option::Option"):
                res.add(("none",))
            else:
                res.add(("?", r))
        return res

    n = 0
    for a in kt.KINDS:
        for b in kt.KINDS:
            n += 1
            ab = outcomes(a, b)
            ba = outcomes(b, a)
            mirrored = set()
            for x in ba:
                if x[0] == "some":
                    mirrored.add(("some", _swap_syms(x[2]), _swap_syms(x[1])))
                else:
                    mirrored.add(_swap_syms(x))
            ok = ab == mirrored
            key = "symmetric::%s%s" % (L[a], L[b])
            if not ok:
                d = "cmp_coerced(%s, %s) is not the mirror image of cmp_coerced(%s, %s): %s vs %s" % (
                    L[a], L[b], L[b], L[a],
                    sorted(kt.term(("t", x[1:])) if x[0] == "some" else x[0] for x in ab),
                    sorted(kt.term(("t", x[1:])) if x[0] == "some" else x[0] for x in mirrored))
                rep.fail(rule, key, d, fn.loc())
            else:
                rep.ob(rule, key, True, "", fn.loc(), how="mirror image of the (%s,%s) cell" % (L[b], L[a]))
    return n
