"""C12 — tokens carry their exact spelling and true source position (shape of the bookkeeping)."""
from .. import tables, units as units_mod
from ..core import callee_def, op_local, op_place
from ..flow import origins, rvalue_operands
from ..props import prop
from . import common
from .common import is_callee

LEXER = "frontend::lexer::Lexer"
LEX = "frontend::lexer::Lexer::<'a>::"
LEXRESULT = "frontend::lexer::LexResult"


def in_lexer(fn):
    return (fn.file.endswith("frontend/lexer.rs") or fn.file.endswith("frontend/source_range.rs")) and not fn.in_test_file()


def units_rule(ctx, rule):
    """shared by C01.R2 and C12.R1"""
    F, rep = ctx.F, ctx.rep
    key = "units_results"
    if key not in ctx.cache:
        U = units_mod.Units(F)
        res = []
        for fn in F.all_fns(tests=False, derived=False):
            if not in_lexer(fn):
                continue
            ordinal = {}
            for exp, o, desc, line in U.sinks(fn):
                if exp == "=":
                    a, b = U.unit_of(fn, o[0]), U.unit_of(fn, o[1])
                    j = units_mod.join(a, b)
                    ok = not j.startswith("!")
                    got = "%s vs %s" % (a, b)
                    exp_s = "like with like"
                else:
                    got = U.unit_of(fn, o)
                    ok = got in (exp, "W")
                    exp_s = exp
                n = ordinal.get(desc, 0)
                ordinal[desc] = n + 1
                res.append((fn, "%s::%s#%d" % (fn.path, desc, n), ok, got, exp_s, desc, line))
        ctx.cache[key] = res
    names = {"P": "a byte offset", "V": "a length", "LP": "a line number", "LV": "a newline count", "W": "a literal", "?": "not typeable"}
    n = 0
    for fn, k, ok, got, exp_s, desc, line in ctx.cache[key]:
        n += 1
        rep.analysed(fn)
        why = ""
        if not ok and "!F" in got:
            why = ("%s: %s is computed from the byte length of a converted copy of the text (to_lowercase / format / collect ..), not of the source slice: "
                   "case conversion can change the UTF-8 length, so the offset can fall outside the token or inside a character" % (fn.path, desc))
        elif not ok:
            why = "%s: %s receives %s where %s is required (%s vs %s): the position arithmetic is dimensionally wrong" % (
                fn.path, desc, names.get(got, got), names.get(exp_s, exp_s), got, exp_s)
        rep.ob(rule, k, ok, why, fn.loc(line), how="unit %s" % got)
    rep.floor(rule, n, 60, "position sinks")
    return n


def line_state_readers(F):
    """functions of lexer.rs that read Lexer.line / Lexer.line_start, transitively through calls"""
    direct = set()
    for field in ("line", "line_start"):
        for fn, bi, kind, s in common.field_accesses(F, LEXER, field):
            if kind == "read":
                direct.add(common.top_fn(F, fn).path)
    readers = set(direct)
    changed = True
    fns = [fn for fn in F.all_fns(tests=False) if in_lexer(fn)]
    while changed:
        changed = False
        for fn in fns:
            top = common.top_fn(F, fn).path
            if top in readers:
                continue
            for bi, t in fn.calls():
                d = t["callee"].get("resolved") or callee_def(t)
                if d in readers:
                    readers.add(top)
                    changed = True
                    break
    return direct, readers


@prop("C12")
def c12(ctx):
    F, rep = ctx.F, ctx.rep
    rep.rule("C12.R1", "UNITS with the line space: every integer reaching a position sink of lexer.rs / source_range.rs (byte ranges, "
             "make_token_from / make_range / make_loc / advance_to arguments, LexResult and SourceLocation fields, writes of the line state, "
             "comparisons) is typed by following its definitions: column = offset - line start, line + newline count, new line start = "
             "offset + 1; mixing offsets, lengths, line numbers and newline counts is an error")
    rep.rule("C12.R2", "freshness of the line state: Lexer.line / line_start are advanced only at the tail of match_loop; any other function "
             "that writes them restores both on every path to its return; a function that holds a pending LexResult (whose newlines may be "
             "non-zero) must bring both fields up to date from that result before calling anything that (transitively) reads them")
    rep.rule("C12.R3", "every '\\n' outside strings and comments becomes a token: the '\\n' arm of match_loop builds a Newline through char_token, "
             "whose Newline case reports newlines = 1 and the next line start = end; the whitespace skipped before a token excludes '\\n'")
    rep.rule("C12.R4", "provenance of line counts: every value stored in LexResult.newlines is a literal, or a counter incremented by one "
             "under a test `c == '\\n'` while scanning the token's own characters; every new_line_start is None, or offset-of-that-newline + 1")
    rep.rule("C12.R6", "merging a token's result with its suffix keeps the token's line information: in LexResult::extended_to the "
             "`newlines` and `new_line_start` of the merged result depend on the receiver's own fields (a field left untouched does); a "
             "merge that takes them from the suffix alone forgets the line breaks inside a multi-line string or comment")
    merge_rule(ctx)
    rep.rule("C12.R5", "ORDERINGS: SourceRange::new, SourceLocation::to and the From conversions return, for every order configuration of "
             "the two line numbers and the two columns (3 x 3 weak orders, exhaustive), the range whose start is the lexicographically "
             "smaller (line, column) and whose end is the larger; SourceRange::concat of two ordered, non-overlapping ranges (weak "
             "orders of four lines x four columns restricted to that precondition; thorough tier) starts at the smaller start and "
             "ends at the larger end.  The code is interpreted by KIND with every comparison decided by the configuration; a "
             "comparison the configuration cannot decide (a line against a column) is reported")
    ordering_rule(ctx)
    units_rule(ctx, "C12.R1")
    rep.rule("C12.R7", "a token's spelling is the slice its range covers, of the text the caller passed: Lexer::new stores its argument itself "
             "as the buffer (and iterates over that same text) -- nothing is stripped or copied first, so offsets are offsets into the "
             "caller's source; at every Token::new in the lexer the spelling is the result of Lexer::substr itself (no trimming or other "
             "string operation in between), and where the range is make_range(a, b) the slice is substr(a..b) with the same a and b")
    spelling_rule(ctx, "C12.R7")
    rep.rule("C12.R8", "no token is staged for a scan that is thrown away: Lexer::tokenize_word stages the `'s` / `'re` suffix token as a side "
             "effect, so at every call site its result is what the caller yields on every path from the call to the return (the value "
             "returned always derives from that call) -- tokenising first and rejecting afterwards would emit the suffix a second time, "
             "overlapping the error token")
    staged_rule(ctx, "C12.R8")
    # ---- R2
    ml = F.fn(LEX + "match_loop")
    writes = {}
    for field in ("line", "line_start"):
        for fn, bi, kind, s in common.field_accesses(F, LEXER, field):
            if kind in ("write", "mutref"):
                writes.setdefault(common.top_fn(F, fn).path, []).append((fn, bi, field, s))
    rep.floor("C12.R2", sum(len(v) for v in writes.values()), 2, "writes of the line state")
    for path, ws in sorted(writes.items()):
        fn = F.fn(path)
        if ml is not None and path == ml.path:
            # advanced at the tail: after advance_to, right before returning the token
            adv = [bi for bi, t in ml.calls() if callee_def(t) == LEX + "advance_to"]
            ok = bool(adv) and all(ml.dominates(adv[0], bi) for f_, bi, fld, s in ws) and {fld for f_, bi, fld, s in ws} == {"line", "line_start"}
            rep.ob("C12.R2", "advanced-at-the-tail::" + path, ok, "" if ok else "match_loop does not advance both line fields after the token was scanned", ml.loc(), how="after advance_to(end)")
            continue
        if fn is not None and fn.name == "new":
            continue
        # any other writer must restore both fields from saved copies before it returns
        rep.analysed(fn)
        ok = True
        why = ""
        for field in ("line", "line_start"):
            fw = [(fn, bi, vals) for bi, vals in _line_field_writes(F, fn, field)]
            if not fw:
                ok, why = False, "%s writes only one of the two line fields" % path
                continue
            # the last write on every path to the return restores a value read from the field at entry (a copy of the field, or what
            # mem::replace / mem::take handed back when the field was overwritten)
            restoring = []
            for f_, bi, vals in fw:
                for v in vals:
                    for d, p in origins(fn, v):
                        if d[0] == "param" and d[1] == 1 and p[-1:] == (field,):
                            restoring.append(bi)
                        if d[0] == "call" and callee_def(fn.term(d[1])) in ("std::mem::replace", "std::mem::take") and _refs_field(fn, fn.term(d[1])["args"][0], field):
                            restoring.append(bi)
            if not restoring:
                ok, why = False, "%s changes Lexer.%s and does not restore it" % (path, field)
                continue
            non_restoring = [bi for f_, bi, vals in fw if bi not in restoring]
            for nb in non_restoring:
                if common.path_to_return_avoiding(fn, restoring, start=nb, through_errors=True):
                    ok, why = False, "a path through %s returns with Lexer.%s still changed" % (path, field)
        rep.ob("C12.R2", "temporary-writer-restores::" + path, ok, why, fn.loc() if fn else None, how="both fields restored from the values saved at entry on every path")
    direct, readers = line_state_readers(F)
    rep.notes["line_state_readers"] = sorted(x.rsplit("::", 1)[-1] for x in readers)
    n_pending = 0
    for fn in F.all_fns(tests=False):
        if not in_lexer(fn) or fn.kind == "closure" or fn.argc < 2:
            continue
        pend = [i for i in range(2, fn.argc + 1) if fn.local_ty(i).peel_refs().adt() == LEXRESULT]
        recv_lexer = fn.local_ty(1).peel_refs().adt() == LEXER
        if not pend or not recv_lexer:
            continue
        n_pending += 1
        rep.analysed(fn)
        for bi, t in fn.calls():
            d = t["callee"].get("resolved") or callee_def(t)
            if d not in readers:
                continue
            key = "fresh-before-read::%s::%s" % (fn.path, t["callee"]["name"])
            okf = True
            why = ""
            for field, src in (("line", "newlines"), ("line_start", "new_line_start")):
                ws = [(b2, vals) for b2, vals in _line_field_writes(F, fn, field) if fn.dominates(b2, bi)]
                dep = False
                for b2, ops in ws:
                    for o in ops:
                        from .c03 import kind_deep
                        if any(dd[0] == "param" and dd[1] in pend and (src in pp) for dd, pp in kind_deep(fn, o)):
                            dep = True
                if not dep:
                    okf = False
                    why = ("%s holds a scanned result whose newlines may be non-zero and calls %s, which locates a token with Lexer.line / line_start, "
                           "without first bringing Lexer.%s up to date from the result: a token that follows a multi-line token on the same line gets "
                           "the stale line" % (fn.path, t["callee"]["name"], field))
            rep.ob("C12.R2", key, okf, why, fn.loc(t["line"]), how="line and line_start written from the pending result before the call")
    rep.floor("C12.R2.pending", n_pending, 1, "functions holding a pending LexResult")
    # ---- R3
    ct = F.fn(LEX + "char_token")
    if ml is None or ct is None:
        rep.fail("C12.R3", "anchor", "Lexer::match_loop / char_token not found")
    else:
        rep.analysed(ct)
        # the '\n' arm of match_loop
        arm_ok = False
        for bi in range(len(ml.blocks)):
            t = ml.term(bi)
            if t["k"] == "switch":
                for v, tg in t["targets"]:
                    if v == "10":
                        tt = ml.term(tg)
                        if tt["k"] == "call" and callee_def(tt) == ct.path and tables.token_set_of(ml, tt["args"][1]) == {"Newline"}:
                            arm_ok = True
        rep.ob("C12.R3", "newline-arm-builds-newline-token", arm_ok, "" if arm_ok else "the '\\n' arm of match_loop does not build a Newline token through char_token", ml.loc(), how="'\\n' => char_token(Newline, start)")
        sw = None
        for bi in range(len(ct.blocks)):
            s = tables.arms_complete(ct, bi)
            if s and s[1].peel_refs().adt() == "frontend::lexer::TokenType":
                sw = s
        ok = False
        if sw:
            nl = tables.result_of_arm(ct, sw[2]["Newline"], stop=[x for v, x in sw[2].items() if x != sw[2]["Newline"]])
            for r in nl:
                if r[0] == "agg" and r[1] == "LexResult::LexResult" and len(r[2]) == 4:
                    ok = r[2][2] == ("const", "1") and r[2][3][0] == "agg" and r[2][3][1] == "Option::Some"
        rep.ob("C12.R3", "newline-token-advances-the-line", ok, "" if ok else "char_token(Newline) does not report newlines = 1 and a new line start", ct.loc(), how="LexResult{newlines: 1, new_line_start: Some(end)}")
        iw = F.fn("frontend::lexer::is_ignorable_whitespace")
        ok = False
        if iw is not None:
            rep.analysed(iw)
            for bi, si, s in iw.assigns():
                if s["rv"].get("bin") == "ne" and any((o.get("const") or {}).get("char") == "\n" for o in (s["rv"]["a"], s["rv"]["b"])):
                    ok = True
            fws = F.fn("frontend::lexer::find_word_start")
            uses = fws is not None and any(callee_def(t) == iw.path for b in F.with_closures(fws) for bi, t in b.calls())
            ok = ok and uses
        rep.ob("C12.R3", "newline-is-not-skipped", ok, "" if ok else "the whitespace skipped before a token may include '\\n'", iw.loc() if iw else None, how="is_whitespace() && c != '\\n'")
    # ---- R4
    n4 = 0
    for fn in F.all_fns(tests=False):
        if not in_lexer(fn):
            continue
        for bi, si, s in fn.assigns():
            a = s["rv"].get("agg")
            if not (isinstance(a, dict) and a.get("adt") == LEXRESULT):
                continue
            n4 += 1
            rep.analysed(fn)
            adt = F.adts[LEXRESULT]
            fields = [f["name"] for f in adt["variants"][0]["fields"]]
            for fname in ("newlines", "new_line_start"):
                o = s["rv"]["ops"][fields.index(fname)]
                ok, why = _line_provenance(F, fn, o, fname)
                rep.ob("C12.R4", "provenance::%s::%s#%d" % (fn.path, fname, bi), ok,
                       "" if ok else "%s builds a LexResult whose %s %s" % (fn.path, fname, why), fn.loc(s["line"]), how="literal or '\\n'-guarded counter")
    rep.floor("C12.R4", n4, 5, "LexResult constructions")


def staged_rule(ctx, rule):
    F, rep = ctx.F, ctx.rep
    TW = LEX + "tokenize_word"
    tw = F.fn(TW)
    if tw is None:
        rep.fail(rule, "anchor", "Lexer::tokenize_word not found")
        return
    staged_w = [fn for fn, bi, kind, st in common.field_accesses(F, LEXER, "staged") if kind in ("write", "mutref") and common.top_fn(F, fn).path == TW]
    rep.ob(rule, "tokenize_word-stages", bool(staged_w), "" if staged_w else "tokenize_word no longer writes Lexer.staged (the rule's premise is gone)", tw.loc(), how="writes Lexer.staged")
    n = 0
    for b, bi, t in common.who_calls(F, lambda c: (c.get("resolved") or c.get("def")) == TW):
        n += 1
        rep.analysed(common.top_fn(F, b))
        after = b.reachable_from_succs(bi) | {bi}
        bad = None
        for b2, s2, st2 in b.assigns():
            if st2["pl"]["l"] == 0 and not st2["pl"]["p"] and b2 in after:
                ops_ = rvalue_operands(st2["rv"])
                if not any(d == ("call", bi) for o in ops_ for d, _ in origins(b, o)):
                    bad = st2.get("line")
        for b2, t2 in b.calls():
            if b2 != bi and b2 in after and t2["dest"]["l"] == 0 and not t2["dest"]["p"]:
                from .c03 import kind_deep
                if not any(d == ("call", bi) for a in t2["args"] for d, _ in kind_deep(b, a)):
                    bad = t2["line"]
        if t["dest"]["l"] == 0:
            bad = None if bad is None else bad
        ok = bad is None
        rep.ob(rule, "result-is-yielded::" + common.top_fn(F, b).path.rsplit("::", 1)[-1], ok,
               "" if ok else "%s calls tokenize_word (which stages the suffix token) and then, on some path, yields something else (line %s): the staged suffix is emitted after a token that already covers it" % (
                   common.top_fn(F, b).path.rsplit("::", 1)[-1], bad),
               b.loc(t["line"]), how="every value returned after the call derives from it")
    rep.floor(rule, n, 1, "call sites of tokenize_word")


def spelling_rule(ctx, rule):
    F, rep = ctx.F, ctx.rep
    new = F.fn(LEX + "new")
    if new is None:
        rep.fail(rule, "anchor::new", "Lexer::new not found")
    else:
        rep.analysed(new)
        ok, why = False, "Lexer::new builds no Lexer value"
        adt = F.adts.get(LEXER)
        fields = [f["name"] for f in adt["variants"][0]["fields"]] if adt else []
        for bi, si, s in new.assigns():
            a = s["rv"].get("agg")
            if isinstance(a, dict) and a.get("adt") == LEXER and "buf" in fields:
                o = s["rv"]["ops"][fields.index("buf")]
                srcs = {d for d, p in origins(new, o)}
                ok = srcs == {("param", 1)}
                why = "" if ok else "Lexer::new does not store its argument itself as the buffer (it stores %s): offsets, columns and spellings are then relative to another text than the caller's" % sorted(
                    (new.term(d[1])["callee"].get("name") if d[0] == "call" else d[0]) for d in srcs)
                if ok and "char_indices" in fields:
                    ci = s["rv"]["ops"][fields.index("char_indices")]
                    cs = [d for d, p in origins(new, ci)]
                    ok = len(cs) == 1 and cs[0][0] == "call" and new.term(cs[0][1])["callee"].get("name") == "char_indices" and \
                        {d for d, p in origins(new, new.term(cs[0][1])["args"][0])} == {("param", 1)}
                    why = "" if ok else "Lexer::new does not iterate over the characters of the buffer it stores"
        rep.ob(rule, "buffer-is-the-argument", ok, why, new.loc(), how="Lexer { buf, char_indices: buf.char_indices(), .. }")
    n = 0
    for fn, bi, t in common.who_calls(F, lambda c: (c.get("def") or "") == "frontend::lexer::Token::<'a>::new"):
        if not in_lexer(fn):
            continue
        n += 1
        rep.analysed(fn)
        top = common.top_fn(F, fn)
        b1, o1 = common.upvar_resolve(F, fn, t["args"][1])
        srcs = list(origins(b1, o1))
        bad = sorted({(b1.term(d[1])["callee"].get("name") if d[0] == "call" else d[0]) for d, p in srcs
                      if not (d[0] == "call" and callee_def(b1.term(d[1])) == LEX + "substr")})
        ok = bool(srcs) and not bad
        why = "" if ok else "%s builds a token whose spelling is not the slice Lexer::substr returned (it comes from %s): the spelling and the range no longer describe the same characters" % (top.path.rsplit("::", 1)[-1], bad or "nothing")
        key = "spelling-is-the-slice::%s" % top.path.rsplit("::", 1)[-1]
        if ok:
            # where the range is make_range(a, b): the slice is substr(a..b)
            b2, o2 = common.upvar_resolve(F, fn, t["args"][2])
            rs = list(origins(b2, o2))
            subs = [d[1] for d, p in srcs]
            if len(rs) == 1 and rs[0][0][0] == "call" and callee_def(b2.term(rs[0][0][1])) == LEX + "make_range" and len(subs) == 1:
                mr = b2.term(rs[0][0][1])
                rng = None
                for d, p in origins(b1, b1.term(subs[0])["args"][1]):
                    if d[0] == "agg":
                        st = b1.stmts(d[1])[d[2]]
                        if isinstance(st["rv"]["agg"], dict) and st["rv"]["agg"].get("adt") == "std::ops::Range":
                            rng = st["rv"]["ops"]
                if rng is not None:
                    def roots(b_, o_):
                        bb_, oo_ = common.upvar_resolve(F, b_, o_)
                        return frozenset((bb_.path, d, p) for d, p in origins(bb_, oo_))
                    same = roots(b2, mr["args"][1]) == roots(b1, rng[0]) and roots(b2, mr["args"][2]) == roots(b1, rng[1])
                    if not same:
                        ok, why = False, "%s builds a token whose range is make_range(a, b) but whose spelling is a slice with other bounds" % top.path.rsplit("::", 1)[-1]
        rep.ob(rule, key, ok, why, fn.loc(t["line"]), how="spelling <- substr(a..b), range <- make_range(a, b)")
    rep.floor(rule, n, 3, "Token::new call sites in the lexer")


def _refs_field(fn, operand, field):
    """is the operand a reference to self.<field> taken in this body (possibly reborrowed)?"""
    fs = common.ref_target_fields(fn, operand)
    return bool(fs) and fs[-1].get("name") == field


def _line_field_writes(F, fn, field):
    """[(block, [operands the written value is computed from])] for the writes of Lexer.<field> in this body: assignments to the
    field, and mem::replace(&mut self.<field>, v)"""
    out = []
    for f_, bi, kind, s in common.field_accesses(F, LEXER, field):
        if f_ is not fn:
            continue
        if kind == "write" and "rv" in s:
            out.append((bi, list(rvalue_operands(s["rv"]))))
    for bi, t in fn.calls():
        if callee_def(t) == "std::mem::replace" and len(t["args"]) == 2 and _refs_field(fn, t["args"][0], field):
            out.append((bi, [t["args"][1]]))
    return out


def _line_provenance(F, fn, operand, fname, depth=0):
    c = operand.get("const")
    if c is not None:
        return True, ""
    for d, p in origins(fn, operand):
        if d[0] == "const":
            continue
        if d[0] == "agg":
            st = fn.stmts(d[1])[d[2]]
            a = st["rv"]["agg"]
            if isinstance(a, dict) and a.get("variant") == "None":
                continue
            if isinstance(a, dict) and a.get("variant") == "Some":
                # Some(end as u32) in the single-character Newline case: end = start + 1
                ok = False
                for dd, pp in origins(fn, st["rv"]["ops"][0]):
                    if dd[0] == "op":
                        s2 = fn.stmts(dd[1])[dd[2]]
                        if s2["rv"].get("bin") == "add" and (s2["rv"]["b"].get("const") or {}).get("int") == "1":
                            ok = True
                if ok:
                    continue
                return False, "is computed from something other than `offset + 1`"
            return False, "is built from an unexpected aggregate"
        if d[0] == "param" and p and p[-1] == fname:
            continue  # copied from another LexResult
        if d[0] == "call" and p and isinstance(p[0], str) and p[0].isdigit() and depth < 3:
            # a component of the tuple a private scanning helper returns: judged inside the helper
            h = F.fn(fn.term(d[1])["callee"].get("resolved") or callee_def(fn.term(d[1])) or "")
            if h is not None and h.mir and in_lexer(h) and h.kind != "closure":
                rets = [st2 for bi2, si2, st2 in h.assigns() if st2["pl"]["l"] == 0 and not st2["pl"]["p"] and st2["rv"].get("agg") == "tuple" and int(p[0]) < len(st2["rv"]["ops"])]
                if rets:
                    bad = None
                    for st2 in rets:
                        ok2, why2 = _line_provenance(F, h, st2["rv"]["ops"][int(p[0])], fname, depth + 1)
                        if not ok2:
                            bad = why2
                    if bad is None:
                        continue
                    return False, bad
        if d[0] == "unknown" or d[0] == "op" or d[0] == "call" or d[0] == "param":
            # a local: all its writes must be literal initialisations or '\n'-guarded updates inside a scanning closure
            l = op_local(operand)
            if l is None:
                return False, "does not come from a literal or a '\\n'-guarded counter"
            ok, why = _guarded_counter(F, fn, l, fname)
            if ok:
                continue
            return False, why
    return True, ""


def _guarded_counter(F, fn, l, fname):
    name = fn.local_name(l)
    # initialisation in fn
    for d in fn.defs().get(l, []):
        if d[0] == "call":
            return False, "is the result of %s (it must be counted while scanning the token's own characters)" % callee_def(d[2])
        rv = d[3]["rv"]
        if "use" in rv and rv["use"].get("const") is not None:
            continue
        if isinstance(rv.get("agg"), dict) and rv["agg"].get("variant") == "None":
            continue
        if "use" in rv:
            # copy of another local: follow once
            l2 = op_local(rv["use"])
            if l2 is not None and l2 != l:
                ok, why = _guarded_counter(F, fn, l2, fname)
                if not ok:
                    return ok, why
                continue
        return False, "is computed by an expression outside the '\\n'-guarded scan"
    # updates through closures capturing the variable by reference
    updated = False
    for cf in F.closures_of(fn):
        cap = None
        for uv in cf.mir.get("upvars", []):
            if uv["name"] == name:
                fs = [x for x in uv["place"]["p"] if isinstance(x, dict) and "f" in x]
                cap = fs[0]["f"] if fs else None
        if cap is None:
            continue
        for bi, si, s in cf.assigns():
            pl = s["pl"]
            if not (pl["p"] and pl["p"][0] == "deref"):
                continue
            # which capture does the written pointer come from?
            src = None
            for d in cf.defs().get(pl["l"], []):
                if d[0] == "stmt" and "use" in d[3]["rv"]:
                    p2 = op_place(d[3]["rv"]["use"])
                    if p2 and p2["l"] == 1:
                        fs = [x for x in p2["p"] if isinstance(x, dict) and "f" in x]
                        if fs:
                            src = fs[0]["f"]
            if src != cap:
                continue
            updated = True
            # the block must be on the true edge of `c == '\n'`
            guarded = False
            for sb in range(len(cf.blocks)):
                t = cf.term(sb)
                if t["k"] != "switch":
                    continue
                ol = op_local(t["on"])
                for d in cf.defs().get(ol, []) if ol is not None else []:
                    if d[0] == "stmt" and d[3]["rv"].get("bin") == "eq" and any((o.get("const") or {}).get("char") == "\n" for o in (d[3]["rv"]["a"], d[3]["rv"]["b"])):
                        from ..guards import _dominated_by_edge
                        if _dominated_by_edge(cf, bi, sb, t["otherwise"]):
                            guarded = True
            if not guarded:
                return False, "is updated outside a `c == '\\n'` test"
            # the update is +1 (newlines) or Some(i + 1) (new_line_start)
            good = False
            if fname == "newlines":
                for d, p in origins(cf, s["rv"]["use"]) if "use" in s["rv"] else []:
                    if d[0] == "op":
                        s2 = cf.stmts(d[1])[d[2]]
                        if s2["rv"].get("bin") == "add" and (s2["rv"]["b"].get("const") or {}).get("int") == "1":
                            good = True
            else:
                for d, p in origins(cf, s["rv"]["use"]) if "use" in s["rv"] else []:
                    if d[0] == "agg":
                        st = cf.stmts(d[1])[d[2]]
                        for dd, pp in origins(cf, st["rv"]["ops"][0]) if st["rv"]["ops"] else []:
                            if dd[0] == "op":
                                s2 = cf.stmts(dd[1])[dd[2]]
                                if s2["rv"].get("bin") == "add" and (s2["rv"]["b"].get("const") or {}).get("int") == "1":
                                    good = True
            if not good:
                return False, "is not updated by exactly one per newline / to the offset after the newline"
    return True, ""



def merge_rule(ctx, rule="C12.R6"):
    F, rep = ctx.F, ctx.rep
    fn = F.fn("frontend::lexer::LexResult::<'a>::extended_to")
    if fn is None:
        rep.fail(rule, "anchor", "LexResult::extended_to not found")
        return
    rep.analysed(fn)
    from .c03 import kind_deep
    # the value returned is the receiver (moved) or a fresh aggregate
    ret_srcs = set()
    for bi, si, st in fn.assigns():
        if st["pl"]["l"] == 0 and not st["pl"]["p"]:
            agg = st["rv"].get("agg")
            if isinstance(agg, dict):
                ret_srcs.add(("agg", bi, si))
            elif "use" in st["rv"]:
                ret_srcs |= {d for d, p in origins(fn, st["rv"]["use"])}
            else:
                ret_srcs.add(("other",))
    for field in ("newlines", "new_line_start"):
        ok, why = True, ""
        if ret_srcs == {("param", 1)}:
            writes = [(bi, si, st) for bi, si, st in fn.assigns() if st["pl"]["l"] == 1 and [e.get("name") for e in st["pl"]["p"] if isinstance(e, dict) and "f" in e][:1] == [field]]
            for bi, si, st in writes:
                from ..flow import rvalue_operands
                deps = set()
                for o in rvalue_operands(st["rv"]):
                    deps |= kind_deep(fn, o)
                if not any(d == ("param", 1) and p[:1] == (field,) for d, p in deps):
                    ok = False
                    why = "extended_to overwrites `%s` with a value that does not depend on the receiver's own `%s`: the line breaks inside the first token are forgotten when a suffix is merged" % (field, field)
        elif ret_srcs and all(x[0] == "agg" for x in ret_srcs):
            # a fresh LexResult { .. }: the operand stored in this field must depend on the receiver's field
            adt = F.adts.get("frontend::lexer::LexResult")
            idx = None
            if adt:
                for i_, f_ in enumerate(adt["variants"][0]["fields"]):
                    if f_["name"] == field:
                        idx = i_
            for x in ret_srcs:
                st = fn.stmts(x[1])[x[2]]
                ops = st["rv"].get("ops", [])
                if idx is None or idx >= len(ops):
                    ok, why = False, "cannot tell which operand of the new LexResult is `%s`" % field
                    continue
                deps = kind_deep(fn, ops[idx])
                if not any(d == ("param", 1) and p[:1] == (field,) for d, p in deps):
                    ok = False
                    why = "extended_to builds its result with a `%s` that does not depend on the receiver's own `%s`: the line breaks inside the first token are forgotten when a suffix is merged" % (field, field)
        else:
            ok, why = False, "shape not recognised: extended_to returns neither its (updated) receiver nor a new LexResult"
        rep.ob(rule, "merge-keeps::%s" % field, ok, why, fn.loc(), how="result.%s depends on self.%s" % (field, field))



def ordering_rule(ctx):
    F, rep = ctx.F, ctx.rep
    from .. import order, kindtables as kt
    from ..kind import E
    SL = "frontend::source_range::SourceLocation"
    SR = "frontend::source_range::SourceRange"
    s = E(SL, "SourceLocation", ("sym", "sl"), ("sym", "sc"))
    e = E(SL, "SourceLocation", ("sym", "el"), ("sym", "ec"))
    chains = [["sl", "el"], ["sc", "ec"]]
    entries = []
    for path, mk in (("frontend::source_range::SourceRange::new", lambda: [s, e]),
                     ("frontend::source_range::SourceLocation::to", lambda: [s, e]),
                     ("<frontend::source_range::SourceRange as std::convert::From<(frontend::source_range::SourceLocation, frontend::source_range::SourceLocation)>>::from", lambda: [("t", (s, e))]),
                     ("<frontend::source_range::SourceRange as std::convert::From<((u32, u32), (u32, u32))>>::from", lambda: [("t", (("t", (("sym", "sl"), ("sym", "sc"))), ("t", (("sym", "el"), ("sym", "ec")))))])):
        fn = F.fn(path)
        if fn is None:
            rep.fail("C12.R5", "anchor::" + path.rsplit("::", 2)[-2] + "::" + path.rsplit("::", 1)[-1], "%s not found" % path)
            continue
        rep.analysed(fn)
        entries.append((path, fn, mk))
    n = 0
    for path, fn, mk in entries:
        short = path.replace("frontend::source_range::", "").replace("std::convert::", "")
        for r1 in order.weak_orders(chains[0]):
            for r2 in order.weak_orders(chains[1]):
                cfg = order.Config(chains, {**r1, **r2})
                I = order.interp(F, cfg)
                outs = I.run(fn, mk())
                n += 1
                rets = {kt.term(o.ret) for o in outs}
                lo_first = (cfg.rank["sl"], cfg.rank["sc"]) <= (cfg.rank["el"], cfg.rank["ec"])
                hi_first = (cfg.rank["el"], cfg.rank["ec"]) <= (cfg.rank["sl"], cfg.rank["sc"])
                want = set()
                if lo_first:
                    want.add("SourceRange(SourceLocation(sl,sc),SourceLocation(el,ec))")
                if hi_first:
                    want.add("SourceRange(SourceLocation(el,ec),SourceLocation(sl,sc))")
                ok = len(rets) == 1 and rets <= want and not cfg.undecided and not I.incomplete and not any(o.conds for o in outs)
                why = ""
                if not ok:
                    if cfg.undecided:
                        why = "%s compares %s with %s, which no order of lines and of columns decides" % (short, cfg.undecided[0][0], cfg.undecided[0][1])
                    else:
                        why = "for %s, %s yields %s; the range must run from the lexicographically smaller (line, column) to the larger: %s" % (
                            cfg.describe(), short, sorted(rets), sorted(want))
                rep.ob("C12.R5", "order::%s::%s" % (short, cfg.describe()), ok, why, fn.loc(), how=next(iter(rets)) if rets else "")
    rep.floor("C12.R5", n, 36, "(entry point, order configuration) pairs")
    rep.exhaustive["C12.R5 weak orders of 2 lines x 2 columns"] = True
    if ctx.thorough:
        concat_rule(ctx)


def concat_rule(ctx):
    F, rep = ctx.F, ctx.rep
    from .. import order, kindtables as kt
    from ..kind import E
    SL = "frontend::source_range::SourceLocation"
    SR = "frontend::source_range::SourceRange"
    fn = F.fn("frontend::source_range::SourceRange::concat")
    if fn is None:
        rep.fail("C12.R5", "anchor::concat", "SourceRange::concat not found")
        return
    rep.analysed(fn)
    L = ["al", "bl", "cl", "dl"]
    C = ["ac", "bc", "cc", "dc"]
    loc = {k: E(SL, "SourceLocation", ("sym", k + "l"), ("sym", k + "c")) for k in "abcd"}
    r1 = E(SR, "SourceRange", loc["a"], loc["b"])
    r2 = E(SR, "SourceRange", loc["c"], loc["d"])
    n = bad = 0
    first_bad = None
    los = order.weak_orders(L)
    cos = order.weak_orders(C)
    for lo in los:
        for co in cos:
            rank = {**lo, **co}
            key = {k: (rank[k + "l"], rank[k + "c"]) for k in "abcd"}
            # precondition: both ranges ordered, and one ends before (or where) the other starts
            if not (key["a"] <= key["b"] and key["c"] <= key["d"] and (key["b"] <= key["c"] or key["d"] <= key["a"])):
                continue
            cfg = order.Config([L, C], rank)
            I = order.interp(F, cfg)
            outs = I.run(fn, [r1, r2])
            n += 1
            rets = {kt.term(o.ret) for o in outs}
            starts = [k for k in "ac" if key[k] == min(key["a"], key["c"])]
            ends = [k for k in "bd" if key[k] == max(key["b"], key["d"])]
            want = {"SourceRange(SourceLocation(%sl,%sc),SourceLocation(%sl,%sc))" % (x, x, y, y) for x in starts for y in ends}
            ok = len(rets) == 1 and rets <= want and not cfg.undecided and not I.incomplete
            if not ok:
                bad += 1
                if first_bad is None:
                    first_bad = (cfg.describe(), sorted(rets), sorted(want), list(cfg.undecided)[:1])
    rep.ob("C12.R5", "order::concat::ordered-disjoint-ranges", bad == 0,
           "" if bad == 0 else "SourceRange::concat is wrong for %d of %d order configurations of two ordered, non-overlapping ranges, e.g. %s: yields %s, the hull is %s%s" % (
               bad, n, first_bad[0], first_bad[1], first_bad[2], (" (undecidable comparison %s)" % (first_bad[3],)) if first_bad[3] else ""),
           fn.loc(), how="%d configurations, each yields the hull" % n)
    rep.exhaustive["C12.R5 concat: weak orders of 4 lines x 4 columns under the precondition (%d)" % n] = True
