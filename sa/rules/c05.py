"""C05 — functions, scopes and pronouns."""
from ..core import op_place, op_local, callee_def
from ..flow import origins
from ..props import prop
from . import common
from .common import is_callee, flows_into, find_method, inherent_methods, depth_dataflow, error_exit_blocks
from .c03 import kind_deep

VP = "analysis::visit::VisitProgram"
VE = "analysis::visit::VisitExpr"
EXEC = "exec::exec_stmt::ExecStmt"
ENV = "exec::environment::Environment"
PV = "exec::produce_val::ProduceVal"
VARNAME = "frontend::ast::VariableName"

RET0 = {"copy": {"l": 0, "p": []}}


def env_method_path(env, name):
    f = env.get(name)
    return f.path if f else None


def is_exec_visit_block(t):
    return is_callee(t, "<exec::exec_stmt::ExecStmt<'a, I, O> as analysis::visit::VisitProgram>::visit_block") or (
        callee_def(t) == "analysis::visit::VisitProgram::visit_block")


def pair_rule(ctx, env):
    F, rep = ctx.F, ctx.rep
    push_paths = {env_method_path(env, "push_scope"), env_method_path(env, "push_function_scope")} - {None}
    pop_path = env_method_path(env, "pop_scope")
    if not push_paths or not pop_path:
        rep.fail("C05.R1", "anchor", "Environment::push_scope / push_function_scope / pop_scope not found")
        return
    users = {}
    for fn, bi, t in common.who_calls(F, lambda c: c["def"] in push_paths or c["def"] == pop_path):
        users.setdefault(fn.path, fn)
    n_push = 0
    for path, fn in sorted(users.items()):
        rep.analysed(fn)
        pushes = [bi for bi, t in fn.calls() if callee_def(t) in push_paths]
        pops = [bi for bi, t in fn.calls() if callee_def(t) == pop_path]
        bodies = [bi for bi, t in fn.calls() if is_exec_visit_block(t)]
        n_push += len(pushes)
        key = "pair::" + path
        if fn.kind == "closure":
            rep.fail("C05.R1", key, "scope push/pop inside a closure (%s): pairing cannot be shown" % path, fn.loc())
            continue
        depth_in, problems = depth_dataflow(fn, pushes, pops)
        rep.ob("C05.R1", key, not problems, "; ".join(problems[:3]), fn.loc(), how="depth dataflow: 0 at every non-error return, pop only at depth 1, push only at depth 0")
        # every activation of a block body runs in its own scope
        if not bodies:
            rep.fail("C05.R1", "scope-without-body::" + path, "%s pushes or pops a scope but executes no block body" % path, fn.loc())
        for b in bodies:
            ds = depth_in.get(b, set())
            ok = ds == {1}
            why = "" if ok else "the block body at line %s runs at scope depth %s (must be exactly one fresh scope)" % (fn.term(b)["line"], sorted(ds))
            if ok:
                # per activation: from one execution of the body to the next there is a pop and a push
                again_no_pop = b in fn.reachable_from_succs(b, avoid=pops)
                again_no_push = b in fn.reachable_from_succs(b, avoid=pushes)
                if again_no_pop or again_no_push:
                    ok = False
                    why = ("the body at line %s can run again without the scope having been %s in between: locals of one "
                           "activation (iteration) survive into the next" % (fn.term(b)["line"], "popped" if again_no_pop else "pushed afresh"))
            rep.ob("C05.R1", "fresh-scope-per-activation::%s" % path, ok, why, fn.loc(fn.term(b)["line"]), how="depth 1, pop+push on every cycle")
    rep.floor("C05.R1", n_push, 2, "scope push sites")
    # block bodies executed anywhere else must not exist without a scope: every ExecStmt::visit_block call site
    # outside visit_block/visit_program dispatch is in one of the functions above
    for fn, bi, t in common.who_calls(F, lambda c: c.get("resolved") == "<exec::exec_stmt::ExecStmt<'a, I, O> as analysis::visit::VisitProgram>::visit_block"):
        if fn.in_test_file():
            continue
        top = common.top_fn(F, fn)
        ok = top.path in users
        rep.ob("C05.R1", "body-exec-site::" + top.path, ok, "" if ok else "%s executes a block body without a scope of its own" % top.path, fn.loc(t["line"]),
               how="inside a push/pop bracket")


def lookup_order_rule(ctx, env):
    F, rep = ctx.F, ctx.rep
    st = env.get("stop_searching")
    n = 0
    for name, fn in sorted(env.items()):
        # functions that consult one SymTable at a time: the scope walk (written with combinators or as a loop)
        uses = []
        for body in F.with_closures(fn):
            for bi, t in body.calls():
                d = callee_def(t) or ""
                if d.startswith("exec::sym_table::SymTable::lookup_"):
                    uses.append((body, bi, t))
        if not uses:
            continue
        n += 1
        rep.analysed(fn)
        key = "innermost-first::" + name
        ok, why = True, ""
        # (a) every iterator over self.symbols in this function is reversed before anything else consumes it
        iters = []
        for bi, t in fn.calls():
            nm = t["callee"].get("name")
            if nm in ("iter", "iter_mut", "into_iter") and t["args"]:
                deep = _deep_origins(fn, t["args"][0])
                if not any(d == ("param", 1) and p[:1] == ("symbols",) for d, p in deep):
                    continue
                if any(d[0] == "call" and fn.term(d[1])["callee"].get("name") in ("iter", "iter_mut", "into_iter", "rev", "map", "enumerate") for d, p in deep):
                    continue   # an adaptor of an iterator that is already counted
                iters.append((bi, t))
        if not iters:
            ok, why = False, "no iteration over self.symbols found in the scope walk"
        for bi, t in iters:
            cons = [(b2, t2) for b2, t2 in fn.calls() if b2 != bi and t2["args"] and any(d[0] == "call" and d[1] == bi for a in t2["args"][:1] for d, _ in origins(fn, a))]
            # look through IntoIterator::into_iter of a for loop
            flat = []
            for b2, t2 in cons:
                if t2["callee"].get("name") == "into_iter":
                    flat += [(b3, t3) for b3, t3 in fn.calls() if b3 != b2 and t3["args"] and any(d[0] == "call" and d[1] == b2 for a in t3["args"][:1] for d, _ in origins(fn, a))]
                else:
                    flat.append((b2, t2))
            if not flat or any(t2["callee"].get("name") != "rev" for b2, t2 in flat):
                ok = False
                why = "the scopes are walked by %s without rev(): lookup starts at the outermost scope" % (sorted({t2["callee"].get("name") or "?" for b2, t2 in flat}) or "nothing")
        # (b) the walk stops by Environment::stop_searching applied to the result of the per-scope lookup
        if ok:
            used = False
            for body in F.with_closures(fn):
                for bi, t in body.calls():
                    if st is not None and callee_def(t) == st.path and t["args"]:
                        if any(d[0] == "call" and (callee_def(body.term(d[1])) or "").startswith("exec::sym_table::SymTable::lookup_") for d, _ in _deep_origins(body, t["args"][0])):
                            used = True
                    if t["callee"].get("name") in ("find", "find_map", "skip_while", "take_while") and len(t["args"]) > 1:
                        if st is not None and (t["args"][1].get("const") or {}).get("fn") == st.path:
                            used = True
            if not used:
                ok, why = False, "the walk does not decide where to stop with Environment::stop_searching on the scope's lookup result"
        rep.ob("C05.R2", key, ok, why, fn.loc(), how="self.symbols iterated through rev(); stop decided by stop_searching")
    rep.floor("C05.R2", n, 2, "scope walks")
    # stop_searching: Ok -> stop, NameNotFound -> continue, other errors -> stop  (table computed by KIND)
    if st is None:
        rep.fail("C05.R2", "anchor::stop_searching", "Environment::stop_searching not found")
    else:
        rep.analysed(st)
        from .. import kind as _kind, kindtables as _kt
        I = _kind.Interp(F)
        rows = {}
        for o in I.run(st, [("sym", "r")]):
            k = tuple(c_[1] for c_ in o.conds if isinstance(c_[0], tuple) and c_[0] and c_[0][0] == "is")
            extra = [c_ for c_ in o.conds if not (isinstance(c_[0], tuple) and c_[0] and c_[0][0] == "is")]
            rows.setdefault(k, set()).add(_kt.term(o.ret) if not extra else "depends on " + str(extra[0][0]))
        errs = {v["name"] for v in F.adts.get("exec::sym_table::SymTableError", {"variants": []})["variants"]}
        want = {("Ok",): {"True"}}
        for e in errs:
            want[("Err", e)] = {"False"} if e == "NameNotFound" else {"True"}
        ok = rows == want and not I.incomplete and bool(errs)
        why = ""
        if not ok:
            diff = sorted(k for k in set(rows) | set(want) if rows.get(k) != want.get(k))
            why = "stop_searching differs from Ok -> stop, NameNotFound -> go on, any other error -> stop, at %s: %s" % (diff[:3], [sorted(rows.get(k, [])) for k in diff[:3]])
        rep.ob("C05.R2", "stop_searching-table", ok, why, st.loc(), how="table over Ok and the %d error kinds computed by KIND" % len(errs))
        rep.exhaustive["C05.R2 stop_searching over Ok / every SymTableError kind"] = True
    # creation happens in the innermost scope
    for name in ("create_var", "create_func"):
        fn = env.get(name)
        if fn is None:
            rep.fail("C05.R2", "anchor::" + name, "Environment::%s not found" % name)
            continue
        rep.analysed(fn)
        last = [(bi, t) for bi, t in fn.calls() if is_callee(t, "core::slice::<impl [T]>::last_mut")]
        bad = [(bi, t) for bi, t in fn.calls() if is_callee(t, "core::slice::<impl [T]>::first_mut", "core::slice::<impl [T]>::first",
                                                            "core::slice::<impl [T]>::get_mut", "std::ops::IndexMut::index_mut")]
        emp = [(bi, t) for bi, t in fn.calls() if (callee_def(t) or "").startswith("exec::sym_table::SymTable::emplace_")]
        ok = len(last) == 1 and len(emp) == 1 and not bad and flows_into(fn, last[0][0], emp[0][1]["args"][0])
        rep.ob("C05.R2", "innermost-create::" + name, ok, "" if ok else "%s does not create in symbols.last_mut()" % name, fn.loc(), how="symbols.last_mut() -> emplace")


def _deep_origins(fn, operand, depth=0, seen=None):
    """origins, looking through calls' first arguments (deref / iter / as_ref chains)"""
    seen = seen if seen is not None else set()
    out = set()
    for d, p in origins(fn, operand):
        out.add((d, p))
        if d[0] == "call" and d[1] not in seen and depth < 10:
            seen.add(d[1])
            t = fn.term(d[1])
            if t["args"]:
                out |= _deep_origins(fn, t["args"][0], depth + 1, seen)
    return out


def pronoun_rule(ctx, env):
    F, rep = ctx.F, ctx.rep
    writes = [(fn, bi, s) for fn, bi, kind, s in common.field_accesses(F, ENV, "last_access") if kind == "write"]
    mutrefs = [(fn, bi, s) for fn, bi, kind, s in common.field_accesses(F, ENV, "last_access") if kind == "mutref"]
    rep.floor("C05.R3", len(writes), 2, "writes of Environment.last_access")
    by_fn = {}
    for fn, bi, s in writes:
        by_fn.setdefault(common.top_fn(F, fn).path, []).append((fn, bi, s))
    for fn, bi, s in mutrefs:
        rep.fail("C05.R3", "mutref::" + common.top_fn(F, fn).path, "a mutable reference to the pronoun referent escapes in %s" % fn.path, fn.loc(s.get("line")))

    def written_kind(fn, s):
        kinds = set()
        rv = s.get("rv")
        if rv is None:
            return {"?"}
        for o in ([rv["use"]] if "use" in rv else []):
            for d, p in origins(fn, o):
                if d[0] == "agg":
                    a = fn.stmts(d[1])[d[2]]["rv"]["agg"]
                    kinds.add(a.get("variant"))
                else:
                    kinds.add("?")
        a = rv.get("agg")
        if isinstance(a, dict):
            kinds.add(a.get("variant"))
        return kinds or {"?"}

    # (a) variable accessors by name: pub methods taking &VariableName and returning a Val reference
    for name, fn in sorted(env.items()):
        if fn.argc < 2:
            continue
        takes_name = any(fn.local_ty(i).peel_refs().adt() == VARNAME for i in range(2, fn.argc + 1))
        ret = F.ty(fn.d["ret"])
        returns_val = any(t.kind() == "adt" and t.adt() == "exec::val::Val" for t in ret.walk())
        public = fn.d.get("pub")
        ws = by_fn.get(fn.path, [])
        if takes_name and returns_val and public:
            rep.analysed(fn)
            key = "names-variable::" + name
            ok = len(ws) == 1
            why = "" if ok else "%s names a variable but writes the pronoun referent %d times" % (name, len(ws))
            if ok:
                f2, bi, s = ws[0]
                kinds = written_kind(f2, s)
                if kinds != {"Some"}:
                    ok, why = False, "the referent written is %s, not Some(name)" % sorted(kinds)
                else:
                    # Some(clone(name)) of this function's own name parameter, on every path
                    good = False
                    for d, p in origins(f2, s["rv"]["use"]):
                        if d[0] == "agg":
                            st = f2.stmts(d[1])[d[2]]
                            for dd, pp in origins(f2, st["rv"]["ops"][0]):
                                if dd[0] == "call" and is_callee(f2.term(dd[1]), "std::clone::Clone::clone"):
                                    if any(x[0] == "param" and x[1] >= 2 for x, _ in origins(f2, f2.term(dd[1])["args"][0])):
                                        good = True
                    if not good:
                        ok, why = False, "the referent written is not a clone of the name passed in"
                    elif common.path_to_return_avoiding(fn, [bi], through_errors=True):
                        ok, why = False, "a path through %s does not record the name as pronoun referent" % name
            rep.ob("C05.R3", key, ok, why, fn.loc(), how="last_access = Some(name.clone()) on every path")
        elif ws:
            # other writers: only clearing is allowed, and only where a scope is left
            rep.analysed(fn)
            kinds = set()
            for f2, bi, s in ws:
                kinds |= written_kind(f2, s)
            pops_symbols = any(is_callee(t, "std::vec::Vec::<T, A>::pop") and any(
                d[0] == "param" and d[1] == 1 and p[:1] == ("symbols",) for d, p in origins(fn, t["args"][0])) for bi, t in fn.calls())
            ok = kinds == {"None"} and pops_symbols
            rep.ob("C05.R3", "other-writer::" + name, ok,
                   "" if ok else "%s writes the pronoun referent (%s) although it neither names a variable nor leaves a scope" % (name, sorted(kinds)),
                   fn.loc(), how="clears the referent when a scope is popped")
    # (b) leaving a scope clears the referent on every path
    pop = env.get("pop_scope")
    if pop is not None:
        ws = by_fn.get(pop.path, [])
        ok = bool(ws) and not common.path_to_return_avoiding(pop, [bi for _, bi, _ in ws], through_errors=True)
        rep.ob("C05.R3", "pop_scope-clears-referent", ok, "" if ok else "pop_scope does not reset last_access to None on every path (a pronoun would "
               "still denote a variable of the scope that just ended)", pop.loc(), how="last_access = None dominates return")
    # (c) writers outside Environment
    for path in by_fn:
        if not path.startswith("exec::environment::Environment"):
            rep.fail("C05.R3", "foreign-writer::" + path, "%s writes Environment.last_access" % path)
    # pronoun reads go through last_access / last_access_mut, which do not re-record
    for name in ("last_access", "last_access_mut", "lookup_func"):
        fn = env.get(name)
        if fn is not None:
            ok = fn.path not in by_fn
            rep.ob("C05.R3", "does-not-record::" + name, ok, "" if ok else "%s changes the pronoun referent" % name, fn.loc(), how="no write")


def call_protocol_rule(ctx, env):
    F, rep = ctx.F, ctx.rep
    fc = find_method(F, VE, "visit_function_call", PV)
    if fc is None:
        rep.fail("C05.R4", "anchor", "impl VisitExpr for ProduceVal: visit_function_call not found")
        return
    rep.analysed(fc)
    calls = list(fc.calls())

    def sites(pred):
        return [(bi, t) for bi, t in calls if pred(t)]

    L = sites(lambda t: callee_def(t) == env_method_path(env, "lookup_func"))
    # argument evaluation: the visit_expression site(s) of this method or its closures, placed where they run
    E_raw = [(b, bi, t) for b in F.with_closures(fc) for bi, t in b.calls() if is_callee(t, "analysis::visit::VisitExpr::visit_expression")]
    E = []
    for b, bi, t in E_raw:
        for anc in sorted(common.site_anchors(F, fc, b, bi)):
            E.append((anc, t))
    P = sites(lambda t: callee_def(t) in (env_method_path(env, "push_function_scope"), env_method_path(env, "push_scope")))
    N = sites(lambda t: is_callee(t, "exec::exec_stmt::ExecStmt::<'a, I, O>::new"))
    B = sites(is_exec_visit_block)
    Q = sites(lambda t: callee_def(t) == env_method_path(env, "pop_scope"))
    R = sites(lambda t: is_callee(t, "exec::exec_stmt::ExecStmt::<'a, I, O>::return_val"))
    counts = dict(lookup_func=len(L), visit_expression=len(E), push=len(P), new=len(N), visit_block=len(B), pop=len(Q), return_val=len(R))
    ok = all(len(x) == 1 for x in (L, E, P, N, B, Q, R))
    rep.ob("C05.R4", "events-present", ok, "" if ok else "expected one site each of lookup_func, argument evaluation, push_function_scope, ExecStmt::new, "
           "visit_block, pop_scope, return_val; found %s" % counts, fc.loc(), how=str(counts))
    if not ok:
        return
    (lb, lt), (eb, et), (pb, pt), (nb, nt), (bb, bt), (qb, qt), (rb, rt) = L[0], E[0], P[0], N[0], B[0], Q[0], R[0]
    # arity check
    ar_ok, ar_why = False, "no comparison of params.len() with args.len() guarding the call"
    for bi, blk in enumerate(fc.blocks):
        t = blk["term"]
        if t["k"] != "switch":
            continue
        ol = op_local(t["on"])
        for d in fc.defs().get(ol, []) if ol is not None else []:
            if d[0] == "stmt" and d[3]["rv"].get("bin") in ("ne", "eq"):
                rv = d[3]["rv"]
                srcs = []
                for o in (rv["a"], rv["b"]):
                    ss = set()
                    for dd, pp in origins(fc, o):
                        if dd[0] == "call" and is_callee(fc.term(dd[1]), "len"):
                            for x, px in _deep_origins(fc, fc.term(dd[1])["args"][0]):
                                if px and px[-1] in ("params", "args"):
                                    ss.add(px[-1])
                    srcs.append(ss)
                if {"params"} <= (srcs[0] | srcs[1]) and {"args"} <= (srcs[0] | srcs[1]) and srcs[0] != srcs[1]:
                    # unequal edge must lead to an error return, equal edge to the evaluation
                    zero = [tgt for v, tgt in t["targets"] if v == "0"][0]
                    other = t["otherwise"]
                    uneq, eq = (other, zero) if rv["bin"] == "ne" else (zero, other)
                    err = error_exit_blocks(fc)
                    constructs = False
                    for rbk in fc.reachable(uneq, avoid=[eq]):
                        for s in fc.stmts(rbk):
                            a = s.get("rv", {}).get("agg") if s["k"] == "assign" else None
                            if isinstance(a, dict) and a.get("variant") == "WrongNumberOfFunctionArguments":
                                constructs = True
                    reaches_eval = eb in fc.reachable(uneq, avoid=[eq])
                    dominated = fc.dominates(bi, eb) and fc.dominates(bi, pb)
                    if constructs and not reaches_eval and dominated and eb in fc.reachable(eq):
                        ar_ok, ar_why = True, ""
                    else:
                        ar_why = "the arity comparison does not cut off the call with WrongNumberOfFunctionArguments before the arguments are evaluated"
    rep.ob("C05.R4", "arity-check", ar_ok, ar_why, fc.loc(), how="params.len() != args.len() -> Err(WrongNumberOfFunctionArguments)")
    # order of the protocol
    order = [("lookup_func", lb), ("push_function_scope", pb), ("visit_block(body)", bb), ("pop_scope", qb), ("return_val", rb)]
    pairs = list(zip(order, order[1:])) + [(("lookup_func", lb), ("argument evaluation", eb))]
    for (n1, b1), (n2, b2) in pairs:
        ok = fc.dominates(b1, b2)
        rep.ob("C05.R4", "order::%s<%s" % (n1, n2), ok, "" if ok else "%s does not precede %s on every path" % (n1, n2), fc.loc(fc.term(b2)["line"]), how="dominance")
    ok = fc.dominates(nb, bb)
    rep.ob("C05.R4", "order::ExecStmt::new<visit_block", ok, "" if ok else "the body does not run on a freshly created ExecStmt", fc.loc(), how="dominance")
    # all arguments are evaluated in the caller's environment: no evaluation once the callee scope exists
    after_push = fc.reachable_from_succs(pb)
    ok = eb not in after_push and not (fc.reachable_from_succs(pb, avoid=[qb]) & {b for b, t in E})
    rep.ob("C05.R4", "arguments-evaluated-before-callee-scope", ok,
           "" if ok else "an argument expression can be evaluated after the callee's scope was pushed: it would see the parameters bound so far",
           fc.loc(et["line"]), how="visit_expression not reachable from push_function_scope")
    # forward order of arguments and parameters
    revs = [(bi, t) for b in F.with_closures(fc) for bi, t in b.calls() if is_callee(t, "std::iter::Iterator::rev", "next_back", "pop", "rfold", "rposition")]
    rep.ob("C05.R4", "arguments-left-to-right", not revs, "" if not revs else "%s appears in the call protocol (arguments must be evaluated and bound left to right)" % callee_def(revs[0][1]),
           fc.loc(), how="no reversal in the protocol")
    # evaluated values are what is bound: the results of the argument evaluation flow (through the container they are collected
    # in) into what push_function_scope receives, together with data.params
    from ..flow import Labels
    seeds = {}
    for b, bi, t in E_raw:
        seeds.setdefault((b.path, t["dest"]["l"]), set()).add("arg-value")
    lab = Labels(F, fc, seeds, through_mut=True)
    got_vals = any("arg-value" in lab.op_labels(fc, a) for a in pt["args"][1:])
    got_params = any(px and "params" in px for a in pt["args"][1:] for x, px in kind_deep(fc, a))
    ok = got_vals and got_params
    rep.ob("C05.R4", "binds-evaluated-arguments", ok,
           "" if ok else ("the values handed to push_function_scope are not the evaluated arguments" if not got_vals else "push_function_scope is not handed the callee's parameter names (data.params)"),
           fc.loc(pt["line"]), how="evaluated arguments paired with data.params")
    # the body run is the callee's, on the fresh ExecStmt; the result is that ExecStmt's return value
    body_ok = any(px[-1:] == ("body",) for x, px in _deep_origins(fc, bt["args"][1]))
    recv_ok = any(d[0] == "call" and d[1] == nb for d, _ in origins(fc, bt["args"][0]))
    ret_ok = any(d[0] == "call" and d[1] == nb for d, _ in origins(fc, rt["args"][0])) and flows_into(fc, rb, RET0)
    rep.ob("C05.R4", "runs-callee-body-on-fresh-exec", body_ok and recv_ok, "" if (body_ok and recv_ok) else "visit_block is not run on the fresh ExecStmt with data.body",
           fc.loc(bt["line"]), how="exec.visit_block(&data.body)")
    rep.ob("C05.R4", "yields-return-value", ret_ok, "" if ret_ok else "the call does not yield exec.return_val()", fc.loc(rt["line"]), how="Ok(ProduceValOutput(exec.return_val()))")


def return_value_rule(ctx):
    F, rep = ctx.F, ctx.rep
    vr = find_method(F, VP, "visit_return", EXEC)
    writes = [(fn, bi, s) for fn, bi, kind, s in common.field_accesses(F, EXEC, "return_val") if kind in ("write", "mutref")]
    rep.floor("C05.R5", len(writes), 1, "writes of ExecStmt.return_val")
    for fn, bi, s in writes:
        top = common.top_fn(F, fn)
        ok = vr is not None and top.path == vr.path
        rep.ob("C05.R5", "writer::" + top.path, ok, "" if ok else "%s writes ExecStmt.return_val (only `return` may)" % top.path, fn.loc(s.get("line")), how="visit_return")
    if vr is not None:
        rep.analysed(vr)
        ev = [(bi, t) for bi, t in vr.calls() if is_callee(t, "analysis::visit::VisitExpr::visit_expression")]
        ws = [(fn, bi, s) for fn, bi, s in writes if fn is vr]
        ok = len(ev) == 1 and len(ws) == 1
        if ok:
            s = ws[0][2]
            ok = "rv" in s and any(flows_into(vr, ev[0][0], o) for o in ([s["rv"]["use"]] if "use" in s["rv"] else s["rv"].get("ops", [])))
        rep.ob("C05.R5", "return-stores-evaluated-value", ok, "" if ok else "visit_return does not store Some(value of the expression)", vr.loc(), how="return_val = Some(visit_expression(r.value))")
        if len(ev) == 1:
            # by value, for every kind of returned expression: no non-error path reaches the end of visit_return without evaluating
            # the expression through the reading visitor (which clones) -- no special route that takes the value out of a variable
            ok2, why2 = common.exactly_once_on_normal_paths(vr, [ev[0][0]])
            rep.ob("C05.R5", "return-evaluates-on-every-path", ok2, "" if ok2 else "visit_return: %s -- some expressions are returned by another route than evaluating them" % why2, vr.loc(),
                   how="every non-error path passes visit_expression(r.value) exactly once")
    rv = inherent_methods(F, EXEC).get("return_val")
    if rv is None:
        rep.fail("C05.R5", "anchor::return_val", "ExecStmt::return_val not found")
    else:
        rep.analysed(rv)
        ok = False
        for body in F.with_closures(rv):
            if body.kind == "closure":
                for bi, si, s in body.assigns():
                    a = s["rv"].get("agg")
                    if s["pl"]["l"] == 0 and isinstance(a, dict) and a.get("adt") == "exec::val::Val":
                        ok = a.get("variant") == "Undefined"
        uo = [(bi, t) for bi, t in rv.calls() if is_callee(t, "std::option::Option::<T>::unwrap_or_else", "std::option::Option::<T>::unwrap_or", "unwrap_or_default")]
        ok = ok and len(uo) == 1 and any(d[0] == "param" and p[:1] == ("return_val",) for d, p in origins(rv, uo[0][1]["args"][0]))
        rep.ob("C05.R5", "default-is-mysterious", ok, "" if ok else "a call that reaches no `return` does not yield mysterious", rv.loc(), how="return_val.unwrap_or_else(|| Val::Undefined)")


@prop("C05")
def c05(ctx):
    F, rep = ctx.F, ctx.rep
    rep.rule("C05.R1", "PAIR: in every function that pushes or pops an Environment scope, the scope depth is 0 at every non-error "
             "return, each block body runs at depth exactly 1, and between two executions of a body there is a pop and a fresh push; "
             "every ExecStmt::visit_block call site that executes a construct's body lies in such a bracket")
    create_on_any_lookup_failure(ctx)
    rep.rule("C05.R2", "lookup order: every scope walk is symbols.iter().rev() .. find(stop_searching) (innermost first; stop at a hit or a "
             "non-NotFound error); creation goes to symbols.last_mut()")
    rep.rule("C05.R3", "pronoun referent: every public Environment method that takes a variable name and returns a value reference "
             "records Some(that name) on every path; the only other writer clears it where a scope is popped; nobody else writes it")
    rep.rule("C05.R4", "call protocol of ProduceVal::visit_function_call: lookup_func, arity comparison cutting off with "
             "WrongNumberOfFunctionArguments, arguments evaluated left to right before the callee scope exists, push_function_scope "
             "with params zipped with the evaluated values, fresh ExecStmt, visit_block(data.body), pop_scope, return_val()")
    rep.rule("C05.R5", "return value: ExecStmt.return_val is written only by visit_return with the evaluated expression; absent -> mysterious")
    env = inherent_methods(F, ENV)
    if not env:
        rep.fail("C05.R1", "anchor", "impl Environment not found")
        return
    pair_rule(ctx, env)
    lookup_order_rule(ctx, env)
    pronoun_rule(ctx, env)
    call_protocol_rule(ctx, env)
    return_value_rule(ctx)
    who_may_mutate_rule(ctx, env)
    fresh_scope_rule(ctx, env)


def fresh_scope_rule(ctx, env):
    """C05.R8: a scope that is opened is a new table"""
    F, rep = ctx.F, ctx.rep
    rep.rule("C05.R8", "every table pushed onto Environment.symbols is freshly constructed: the pushed value is computed by SymTable::new / "
             "Default::default / SymTable::for_function_call (through `?`) and by nothing else -- not taken from a pool, a clone or another "
             "field, so no binding of an ended block, loop round or call can reappear in a later scope")
    FRESH = ("exec::sym_table::SymTable::new", "std::default::Default::default", "exec::sym_table::SymTable::for_function_call",
             "std::ops::Try::branch", "std::ops::FromResidual::from_residual")
    n = 0

    def check_value(body, operand, label, line, depth=0):
        """the pushed value (or, when it is a parameter of a helper method, what every caller passes) is freshly constructed"""
        nonlocal n
        params = sorted({d[1] for d, _ in origins(body, operand) if d[0] == "param"})
        top = common.top_fn(F, body)
        if params and depth < 2 and body.kind != "closure":
            sites = [(b2, bi2, t2) for b2, bi2, t2 in common.who_calls(F, lambda c: (c.get("resolved") or c.get("def")) == top.path)]
            if sites and all(k - 1 < len(t2["args"]) for _, _, t2 in sites for k in params):
                for b2, bi2, t2 in sites:
                    for k in params:
                        check_value(b2, t2["args"][k - 1], common.top_fn(F, b2).name, t2["line"], depth + 1)
                return
        n += 1
        srcs = {(callee_def(body.term(d[1])) or body.term(d[1])["callee"].get("name") or "?") for d, _ in _deep_origins(body, operand) if d[0] == "call"}
        stale = sorted(x for x in srcs if x not in FRESH)
        ok = bool(srcs) and not stale and not params
        rep.ob("C05.R8", "fresh::%s" % label, ok,
               "" if ok else "Environment::%s pushes a table that is not freshly constructed (it comes from %s): bindings of an earlier scope can survive into the new one" % (label, stale or ("a parameter" if params else "nothing recognisable")),
               body.loc(line), how="pushed value <- %s" % sorted(x.rsplit("::", 1)[-1] for x in srcs))
    for name, m in sorted(env.items()):
        for body in F.with_closures(m):
            for bi, t in body.calls():
                if t["callee"].get("name") not in ("push", "push_back", "insert", "extend") or len(t["args"]) < 2:
                    continue
                if not any(f_.get("name") == "symbols" for f_ in common.ref_target_fields(body, t["args"][0])) and \
                        not any(d[0] == "param" and p[:1] == ("symbols",) for d, p in origins(body, t["args"][0])):
                    continue
                check_value(body, t["args"][-1], name, t["line"])
    rep.floor("C05.R8", n, 2, "pushes onto Environment.symbols")


def who_may_mutate_rule(ctx, env):
    """C05.R7: a variable's cell is handed out mutably only to the write visitor"""
    F, rep = ctx.F, ctx.rep
    rep.rule("C05.R7", "who-may-mutate: the Environment methods that hand out `&mut Val` to a variable's cell (every public inherent method of "
             "Environment returning a mutable value reference: lookup_var_mut, last_access_mut, create_var) are called only by the write "
             "visitor (methods and helpers of exec::write_val) and by Environment itself -- reading, calling, returning and printing never "
             "obtain a cell they could change, so they cannot alter a variable of an enclosing scope")
    handing = []
    for name, m in sorted(env.items()):
        ret = F.ty(m.d["ret"]).s
        if "&mut exec::val::Val" in ret or "&mut Val" in ret:
            handing.append(m.path)
    rep.floor("C05.R7", len(handing), 3, "Environment methods returning &mut Val")
    n = 0
    for fn, bi, t in common.who_calls(F, lambda c: c.get("def") in handing):
        top = common.top_fn(F, fn)
        n += 1
        ok = top.file == "src/exec/write_val.rs" or top.path.startswith(ENV + "::")
        rep.ob("C05.R7", "caller::%s::%s" % (top.path, t["callee"].get("name")), ok,
               "" if ok else "%s obtains a mutable reference to a variable's cell through %s: only the write visitor may change variables" % (top.path, t["callee"].get("name")),
               fn.loc(t["line"]), how="caller is the write visitor or Environment")
    rep.floor("C05.R7", n, 3, "call sites handing out a variable cell")



def create_on_any_lookup_failure(ctx):
    """C05.R6: a write to a name creates the variable whenever the lookup does not find a *variable* -- whatever the reason"""
    F, rep = ctx.F, ctx.rep
    rep.rule("C05.R6", "a variable first assigned in a body is created in the innermost scope: in the write visitor, every failure edge of "
             "lookup_var_mut leads, on every path, to create_var (an unknown name and a name that is a function in an enclosing scope "
             "alike) -- no kind of lookup failure is turned into an error of the assignment")
    n = 0
    for fn in F.all_bodies(tests=False):
        if fn.file != "src/exec/write_val.rs":
            continue
        for lb, lt in fn.calls():
            if (callee_def(lt) or "").endswith("::lookup_var_mut"):
                n += 1
                from .. import tables
                err_t = None
                for sb in range(len(fn.blocks)):
                    sw = tables.arms_complete(fn, sb)
                    if sw and "Err" in sw[2] and "Ok" in sw[2] and any(d[0] == "call" and d[1] == lb for d, _ in origins(fn, {"copy": {"l": sw[0]["l"], "p": []}})):
                        # the branch right after the call (later switches on the same discriminant are drop elaboration)
                        if err_t is None and not fn.blocks[sb].get("cleanup"):
                            err_t = sw[2]["Err"]
                creates = [bi for bi, t in fn.calls() if (callee_def(t) or "").endswith("::create_var")]
                if err_t is None:
                    ok, why = False, "no branch on the result of lookup_var_mut found"
                else:
                    # a normal or error return reachable from the failure edge without passing create_var
                    reach = fn.reachable(err_t, avoid=creates)
                    exits = [b for b in reach if fn.term(b)["k"] == "return"]
                    ok = bool(creates) and not exits
                    why = "" if ok else "after a failed lookup the write can finish without create_var: some lookup failures (a function of that name in an enclosing scope) become an error instead of creating a local"
                rep.ob("C05.R6", "create-on-any-lookup-failure::%s" % common.top_fn(F, fn).path, ok, why, fn.loc(lt["line"]), how="Err(_) -> create_var(name)? on every path")
    rep.floor("C05.R6", n, 1, "lookup_var_mut sites in the write visitor")
