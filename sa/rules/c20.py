"""C20 — the command-line tool behaves like the library on the same file (wiring, streams, prefixes, exit codes)."""
from .. import tables
from ..core import callee_def, op_local, op_place
from ..flow import origins
from ..props import prop
from . import common
from .common import is_callee, flows_into
from .c03 import kind_deep

RET0 = {"copy": {"l": 0, "p": []}}


def callees(F, fn, prefix=None):
    """callee def paths, including fn items handed to combinators (parse(..).map(prettify))"""
    out = []
    for b in F.with_closures(fn):
        for bi, t in b.calls():
            d = callee_def(t)
            if d and (prefix is None or d.startswith(prefix)):
                out.append(d)
            for a in t["args"]:
                c = a.get("const")
                if c and "fn" in c and (prefix is None or c["fn"].startswith(prefix)):
                    out.append(c["fn"])
    return out


def local_callees(F, fn):
    return [d for d in callees(F, fn) if F.fn(d) is not None or d.split("::")[0] in ("cli", "exec", "frontend", "linter", "analysis")]


@prop("C20")
def c20(ctx):
    F, rep = ctx.F, ctx.rep
    B = ctx.bins.get(ctx.primary)
    rep.rule("C20.R1", "wiring: `exec` = cli::exec::run -> cli::parser::parse -> frontend::parser::parse, then exec::exec, whose body is "
             "exec_using's with the environment built from stdin() and the bare stdout(); `lint` = standard_linter().run on the parsed "
             "program; `parse` = {:#?} of the parsed Program; the sub-command names select exactly these three")
    rep.rule("C20.R2", "streams and prefixes: dump_output prints Ok output with print! (stdout) and errors with eprintln! (stderr), after the "
             "run has finished; cli::Error built from a ParseError / RuntimeError starts with \"Parse error: \" / \"Runtime error: \"; nothing "
             "else in cli/ prints")
    rep.rule("C20.R3", "exit status: run() maps Ok to 0 and Err to 1 and main exits with it; in cli() the clap result and the io::Result of "
             "reading the file are propagated with `?` (ERRFLOW over src/cli and lib.rs)")
    rep.rule("C20.R4", "diagnostic rendering: the text cli::linter::colorized builds for one library diagnostic depends on all three of its "
             "fields (line, issue, suggestions), and a line break that does not depend on the suggestions terminates it (a string "
             "constant ending in \\n that reaches the result from the function's own body, not from the per-suggestion closure): a "
             "diagnostic without suggestions still ends its line")
    render_rule(ctx, "C20.R4")
    rep.rule("C20.R5", "hand-through: the text the library parses is what read_to_string returned -- on the way from load_and_run_from_command_line "
             "to the sub-command nothing but borrowing is applied to it (no replace / trim / to_lowercase ..); the diagnostics printed are the "
             "library's -- no code under src/cli mutates LinterResult.diags, and the chain from diags to the printed segments only maps and "
             "flattens (no filter / dedup / skip / take / rev)")
    hand_through_rule(ctx, "C20.R5")
    rep.rule("C20.R8", "FILE is whatever can be read: under src/cli and in lib.rs nothing probes the file system (is_file / exists / metadata / "
             "canonicalize ...) to decide whether FILE is acceptable -- the file is read, and only a failed read is a usage error; a pipe, "
             "/dev/stdin or a FIFO is as good as a regular file")
    probes = []
    n_cli = 0
    for fn in F.all_bodies(tests=False):
        if not (fn.file.startswith("src/cli/") or fn.file == "src/lib.rs"):
            continue
        n_cli += 1
        for bi, t in fn.calls():
            d_ = callee_def(t) or ""
            nm_ = t["callee"].get("name") or ""
            if (d_.startswith(("std::path::Path::", "std::fs::")) and nm_ in ("is_file", "exists", "try_exists", "is_dir", "metadata", "symlink_metadata", "canonicalize", "is_symlink", "read_dir")):
                probes.append((fn, t))
            for a in t["args"]:
                c_ = a.get("const")
                if c_ and "fn" in c_ and c_["fn"].startswith(("std::path::Path::", "std::fs::")) and c_["fn"].rsplit("::", 1)[-1] in ("is_file", "exists", "is_dir", "metadata"):
                    probes.append((fn, t))
    okp = not probes and n_cli >= 15
    rep.ob("C20.R8", "no-file-system-probing", okp,
           "" if okp else ("%s probes the file system with %s before reading FILE: a readable FILE that is not a regular file is rejected as bad usage" % (common.top_fn(F, probes[0][0]).path, callee_def(probes[0][1])) if probes else "only %d cli bodies found" % n_cli),
           probes[0][0].loc(probes[0][1]["line"]) if probes else None, how="%d bodies of src/cli and lib.rs" % n_cli)
    rep.rule("C20.R7", "the library's texts are printed as they are: in cli::linter::colorized the issue text and each suggestion go into the output "
             "through styling only (colored::Colorize methods) -- nothing splits, trims or rebuilds them (`lines()` swallows a CR); and the "
             "message of a parse / runtime error is `to_string()` of the library's error handed straight to a styling method, after the prefix "
             "-- nothing abbreviates or rewrites it")
    texts_unchanged_rule(ctx, "C20.R7")
    rep.rule("C20.R6", "the real stdout gets what the library's writer gets: Environment::output makes one *complete* write per say (write_fmt / "
             "write_all; a bare `write` may be cut short by the line-buffered process stdout and not by a Vec) -- C08.R1 and the fault table "
             "C08.R7 re-checked here")
    from . import c08 as _c08
    common.rerun_under(ctx, _c08.c08, "C20.R6", keep=lambda r: r in ("C08.R1", "C08.R7"))
    # ---- R1
    want_chain = {
        "cli::exec::run": {"cli::parser::parse", "exec::exec"},
        "cli::parser::parse": {"frontend::parser::parse"},
        "cli::parser::run": {"cli::parser::parse", "cli::parser::prettify"},
        "cli::linter::lint": {"cli::parser::parse", "linter::standard_linter", "linter::Linter::run"},
        "cli::linter::run": {"cli::linter::lint", "cli::linter::build_output"},
    }
    for path, want in want_chain.items():
        fn = F.fn(path)
        if fn is None:
            rep.fail("C20.R1", "anchor::" + path, "%s not found" % path)
            continue
        rep.analysed(fn)
        got = {d for d in callees(F, fn) if d.split("::")[0] in ("cli", "exec", "frontend", "linter", "analysis") and "Error" not in d and not d.startswith("cli::cli_output")}
        ok = want <= got and not (got - want - {"cli::cli_output::CLIOutput::empty"})
        rep.ob("C20.R1", "calls::" + path, ok, "" if ok else "%s calls %s; the wiring is %s" % (path, sorted(got), sorted(want)), fn.loc(), how=str(sorted(want)))
    pf = F.fn("cli::parser::prettify")
    if pf is None:
        rep.fail("C20.R1", "anchor::prettify", "cli::parser::prettify not found")
    else:
        rep.analysed(pf)
        dbg = [bi for bi, t in pf.calls() if (callee_def(t) or "").endswith("::new_debug") and "frontend::ast::Program" in (t["callee"].get("inst") or "")
               and any(d == ("param", 1) for d, _ in origins(pf, t["args"][0]))]
        outs = [bi for bi, t in pf.calls() if (callee_def(t) or "").startswith("cli::cli_output::CLIOutput::")]
        ok, why = True, ""
        if len(dbg) == 1 and common.path_to_return_avoiding(pf, dbg, through_errors=True):
            ok, why = False, "for some programs `rrss parse` does not print the Debug rendering of the tree (a path through prettify avoids it)"
        elif len(dbg) != 1 or len(outs) != 1:
            ok, why = False, "expected one Debug rendering of the program and one CLIOutput constructor, found %d / %d" % (len(dbg), len(outs))
        elif not common.flows_into(pf, dbg[0], pf.term(outs[0])["args"][0]):
            ok, why = False, "what prettify hands to CLIOutput is not the Debug rendering of the program"
        rep.ob("C20.R1", "parse-prints-the-tree-for-every-program", ok, why, pf.loc(), how="CLIOutput::one_str(format!(\"{:#?}\\n\", program)) on every path")
    ex = F.fn("exec::exec")
    eu = F.fn("exec::exec_using")
    if ex is None or eu is None:
        rep.fail("C20.R1", "anchor::exec", "exec::exec / exec::exec_using not found")
    else:
        rep.analysed(ex)
        rep.analysed(eu)

        def seq(fn, depth=0):
            """calls into the interpreter in block order, with free helper functions of exec/mod.rs inlined"""
            out = []
            for bi, t in fn.calls():
                d = callee_def(t) or ""
                if d.startswith(("exec::", "analysis::", "<exec::")):
                    h = F.fn(d)
                    if h is not None and h.file == "src/exec/mod.rs" and h.kind != "closure" and h.d.get("impl_self") is None and depth < 3 and h.path not in ("exec::exec", "exec::exec_using"):
                        out += seq(h, depth + 1)
                        continue
                    out.append(d.replace("refcell_raw", "refcell").replace("<In, Out>", "<*>").replace("<std::io::Stdin, std::io::Stdout>", "<*>"))
            return out
        a, b = seq(ex), seq(eu)
        ok = a == b and len(a) >= 3 and a[-1] == "analysis::visit::VisitProgram::visit_program" and any("ExecStmt" in x and x.endswith("::new") for x in a[:-1]) and "refcell" in a[0]
        rep.ob("C20.R1", "exec-equals-exec_using", ok, "" if ok else "exec runs %s but exec_using runs %s: the binary would not behave like the library entry point" % (a, b), ex.loc(),
               how="Environment::refcell*(..) ; ExecStmt::new(&env) ; visit_program(program)")
        if ok:
            def returns_vp(fn, prog, depth=0):
                """fn returns visit_program(.., its parameter `prog`), directly or through a free helper of exec/mod.rs"""
                for bi, t in fn.calls():
                    d = callee_def(t) or ""
                    if t["dest"]["l"] != 0:
                        continue
                    if d == "analysis::visit::VisitProgram::visit_program":
                        return any(dd == ("param", prog) for dd, _ in origins(fn, t["args"][1]))
                    h = F.fn(d)
                    if h is not None and h.file == "src/exec/mod.rs" and depth < 3:
                        for i, a in enumerate(t["args"]):
                            if any(dd == ("param", prog) for dd, _ in origins(fn, a)) and returns_vp(h, i + 1, depth + 1):
                                return True
                return False
            ok2 = returns_vp(ex, 1)
            rep.ob("C20.R1", "exec-runs-whole-program-once", ok2, "" if ok2 else "exec does not return visit_program(program) of the program passed in", ex.loc(), how="one visitor, one visit_program")
    env_new = None
    for p, fn in F.fns.items():
        if p.startswith("exec::environment::Environment::<std::io::Stdin, std::io::Stdout>::new"):
            env_new = fn
    if env_new is None:
        rep.fail("C20.R1", "anchor::Environment::new", "Environment::<Stdin, Stdout>::new not found")
    else:
        rep.analysed(env_new)
        raws = [(bi, t) for bi, t in env_new.calls() if (callee_def(t) or "").endswith("::raw")]
        ok = len(raws) == 1
        if ok:
            t = raws[0][1]
            a0 = [callee_def(env_new.term(d[1])) for d, _ in origins(env_new, t["args"][0]) if d[0] == "call"]
            a1 = [callee_def(env_new.term(d[1])) for d, _ in origins(env_new, t["args"][1]) if d[0] == "call"]
            ok = a0 == ["std::io::stdin"] and a1 == ["std::io::stdout"]
        rep.ob("C20.R1", "environment-is-stdin-and-bare-stdout", ok, "" if ok else "Environment::new is not raw(stdin(), stdout()): output could be held back in a buffer and appear after an error message", env_new.loc(), how="raw(stdin(), stdout())")
    rc = F.fn("cli::run_from_command_line")
    cli = F.fn("cli::cli")
    if rc is None or cli is None:
        rep.fail("C20.R1", "anchor::dispatch", "cli::run_from_command_line / cli::cli not found")
    else:
        rep.analysed(rc)
        rep.analysed(cli)
        arms = None
        for bi in range(len(rc.blocks)):
            sw = tables.arms_complete(rc, bi)
            if sw and sw[1].peel_refs().adt() == "cli::Command":
                arms = {}
                for v, tg in sw[2].items():
                    others = [y for vv, y in sw[2].items() if y != tg]
                    arms[v] = [callee_def(rc.term(x)) for x in sorted(rc.reachable(tg, avoid=others)) if rc.term(x)["k"] == "call" and (callee_def(rc.term(x)) or "").startswith("cli::") and (callee_def(rc.term(x)) or "").endswith("::run")]
        want = {"Parse": ["cli::parser::run"], "Lint": ["cli::linter::run"], "Exec": ["cli::exec::run"]}
        rep.exhaustive["command_dispatch"] = True
        rep.ob("C20.R1", "command-dispatch", arms == want, "" if arms == want else "commands dispatch to %s" % arms, rc.loc(), how=str(want))
        d_out = [bi for bi, t in rc.calls() if callee_def(t) == "cli::dump_output"]
        ok = len(d_out) == 1 and all(rc.dominates(b, d_out[0]) or b == d_out[0] or b in rc.reachable_from_succs(d_out[0]) is False for b in [])
        runs = [bi for bi, t in rc.calls() if (callee_def(t) or "").endswith("::run")]
        # every run's result is handed to a dump_output that follows it; no run after a dump; at most one dump on a path
        ok = bool(d_out) and bool(runs)
        for b in runs:
            fed = [d_ for d_ in d_out if d_ in rc.reachable_from_succs(b) and any(flows_into(rc, b, a) for a in rc.term(d_)["args"])]
            if not fed:
                ok = False
        if any(b in rc.reachable_from_succs(d_) for d_ in d_out for b in runs):
            ok = False
        if any(d2 in rc.reachable_from_succs(d1) for d1 in d_out for d2 in d_out):
            ok = False
        rep.ob("C20.R1", "output-dumped-after-the-run", ok, "" if ok else "dump_output is not called once, after the selected run has finished", rc.loc(), how="dump_output(result of the run)")
        # sub-command names -> Command variants in cli()
        pairs = set()
        for bi in range(len(cli.blocks)):
            pass
        names = []
        for b in [cli] + cli.promoteds():
            for bi, si, s in b.assigns():
                for o in ([s["rv"].get("use")] if "use" in s["rv"] else []) + list(s["rv"].get("ops", [])):
                    c = (o or {}).get("const")
                    if c and c.get("str") in ("lint", "parse", "exec"):
                        names.append(c["str"])
            for bi, t in b.calls():
                for a in t["args"]:
                    c = a.get("const")
                    if c and c.get("str") in ("lint", "parse", "exec"):
                        names.append(c["str"])
        cmds = []
        loaders = _loaders(F)
        for bi, t in cli.calls():
            if callee_def(t) in loaders:
                d = tables.describe_value(cli, t["args"][loaders[callee_def(t)]])
                cmds.append(d[1] if d[0] == "agg" else "?")
        ok = set(names) == {"lint", "parse", "exec"} and sorted(cmds) == ["Command::Exec", "Command::Lint", "Command::Parse"]
        rep.ob("C20.R1", "subcommands-present", ok, "" if ok else "sub-command names %s, commands %s" % (sorted(set(names)), sorted(cmds)), cli.loc(), how="lint / parse / exec")
    # ---- R2
    do = F.fn("cli::dump_output")
    if do is None:
        rep.fail("C20.R2", "anchor::dump_output", "cli::dump_output not found")
    else:
        rep.analysed(do)
        sw = tables.arms_complete(do, 0)
        got = {}
        if sw:
            for v, tg in sw[2].items():
                others = [y for vv, y in sw[2].items() if y != tg]
                got[v] = sorted({callee_def(do.term(x)) for x in do.reachable(tg, avoid=others) if do.term(x)["k"] == "call" and (callee_def(do.term(x)) or "").startswith("std::io::")})
        want = {"Ok": ["std::io::_print"], "Err": ["std::io::_eprint"]}
        rep.exhaustive["stream_table"] = True
        rep.ob("C20.R2", "stream-table", got == want, "" if got == want else "dump_output writes %s" % got, do.loc(), how="Ok -> stdout, Err -> stderr")
    for src, prefix in (("frontend::parser::ParseError", "Parse error: "), ("exec::RuntimeError", "Runtime error: ")):
        fn = None
        for p, f in F.fns.items():
            if p.startswith("<cli::error::Error as std::convert::From<%s" % src) and p.endswith(">::from") and f.kind != "closure":
                fn = f
        if fn is None:
            rep.fail("C20.R2", "anchor::From<%s>" % src, "impl From<%s> for cli::Error not found" % src)
            continue
        rep.analysed(fn)
        # the text constants of the conversion (its own body): exactly the prefix; it becomes the first segment and the error's own
        # rendering the second -- in this body or in the private helper the two are handed to
        consts = []
        for bi, t in fn.calls():
            for ai, a in enumerate(t["args"]):
                cs = sorted({d[1] for d, p in kind_deep(fn, a) if d[0] == "const" and isinstance(d[1], str) and len(d[1]) > 1})
                if cs:
                    consts.append((bi, ai, cs))
        all_c = sorted({c_ for bi, ai, cs in consts for c_ in cs})
        first = all_c if all_c != [prefix] else prefix

        def ordered(body, is_prefix, is_text):
            """a two-element array / vec literal in `body` whose first element derives from the prefix and second from the error text"""
            for bi, si, st in body.assigns():
                if st["rv"].get("agg") == "array" or (isinstance(st["rv"].get("agg"), dict) and "array" in st["rv"]["agg"]):
                    ops = st["rv"].get("ops", [])
                    if len(ops) == 2 and is_prefix(body, ops[0]) and is_text(body, ops[1]) and not is_text(body, ops[0]):
                        return True
            return False

        def text_of(param_idx):
            return lambda body, o: any(d[0] == "call" and body.term(d[1])["callee"].get("name") == "to_string" and
                                       any(dd == ("param", param_idx) for dd, pp in kind_deep(body, body.term(d[1])["args"][0])) for d, p in kind_deep(body, o))
        ok = all_c == [prefix]
        if ok:
            here = ordered(fn, lambda body, o: any(d[0] == "const" and d[1] == prefix for d, p in kind_deep(body, o)), text_of(1))
            via = False
            for bi, ai, cs in consts:
                h = F.fn(callee_def(fn.term(bi)) or "")
                if h is None or not h.mir or h.file != fn.file:
                    continue
                # which parameter of the helper receives the error
                t = fn.term(bi)
                epar = [j + 1 for j, a in enumerate(t["args"]) if any(dd == ("param", 1) for dd, pp in kind_deep(fn, a))]
                if epar and ordered(h, lambda body, o, k=ai + 1: any(d == ("param", k) for d, p in kind_deep(body, o)), text_of(epar[0])):
                    via = True
            ok = here or via
            if not ok:
                first = "%r, but not as the first of the two segments [prefix, error text]" % prefix
        rep.ob("C20.R2", "prefix::" + src.rsplit("::", 1)[-1], ok, "" if ok else "the message built from a %s starts with %r" % (src, first), fn.loc(), how=repr(prefix) + " + the error's own text")
    printers = set()
    for fn, bi, t in common.who_calls(F, lambda c: c["def"] in ("std::io::_print", "std::io::_eprint")):
        if fn.file.startswith("src/cli/") or fn.file == "src/lib.rs":
            printers.add(common.top_fn(F, fn).path)
    ok = printers == {"cli::dump_output", "run"}
    rep.ob("C20.R2", "who-prints", ok, "" if ok else "printing happens in %s" % sorted(printers), None, how="dump_output and run only")
    # ---- R3
    run = F.fn("run")
    if run is None:
        rep.fail("C20.R3", "anchor::run", "rrss::run not found")
    else:
        rep.analysed(run)
        sw = None
        for bi in range(len(run.blocks)):
            s = tables.arms_complete(run, bi)
            if s and s[1].peel_refs().adt() == "std::result::Result":
                sw = (bi, s)
        got = {}
        if sw:
            for v, tg in sw[1][2].items():
                others = [y for vv, y in sw[1][2].items() if y != tg]
                vals = set()
                for x in run.reachable(tg, avoid=others):
                    for st in run.stmts(x):
                        if st["k"] == "assign" and "use" in st["rv"] and "const" in st["rv"]["use"] and "int" in st["rv"]["use"]["const"] and run.local_ty(st["pl"]["l"]).s == "i32":
                            vals.add(st["rv"]["use"]["const"]["int"])
                got[v] = sorted(vals)
        rep.exhaustive["exit_table"] = True
        ok = got == {"Ok": ["0"], "Err": ["1"]}
        rep.ob("C20.R3", "exit-table", ok, "" if ok else "run() yields exit codes %s" % got, run.loc(), how="Ok -> 0, Err -> 1")
        clis = [bi for bi, t in run.calls() if callee_def(t) == "cli::cli"]
        ok = len(clis) == 1 and sw is not None and any(d[0] == "call" and d[1] == clis[0] for d, _ in origins(run, {"copy": sw[1][0]}))
        rep.ob("C20.R3", "exit-code-from-cli-result", ok, "" if ok else "the exit code is not decided by the result of cli::cli(args)", run.loc(), how="match cli(args)")
    if B is None or B.fn("main") is None:
        rep.fail("C20.R3", "anchor::main", "the binary's main was not found in the facts")
    else:
        m = B.fn("main")
        rep.analysed(m)
        ex = [(bi, t) for bi, t in m.calls() if callee_def(t) == "std::process::exit"]
        ok = len(ex) == 1 and any(d[0] == "call" and (callee_def(m.term(d[1])) or "").endswith("run") for d, _ in origins(m, ex[0][1]["args"][0]))
        rep.ob("C20.R3", "main-exits-with-run", ok, "" if ok else "main does not exit with rrss::run()", m.loc(), how="process::exit(rrss::run())")
    n = common.errflow(ctx, "C20.R3", lambda fn: fn.file.startswith("src/cli/") or fn.file == "src/lib.rs")
    lr = F.fn("cli::load_and_run_from_command_line")
    if lr is not None and cli is not None:
        sites = [(bi, t) for bi, t in cli.calls() if callee_def(t) in _loaders(F)]
        tries = [(bi, t) for bi, t in cli.calls() if callee_def(t) == "std::ops::Try::branch"]
        ok = len(sites) == 3 and all(any(flows_into(cli, sb, tt["args"][0]) for tb, tt in tries) for sb, st in sites)
        rep.ob("C20.R3", "file-errors-propagated", ok, "" if ok else "the io::Result of loading the file is not propagated with `?` in all three arms", cli.loc(), how="load_and_run(..)? x3")
        gm = [(bi, t) for bi, t in cli.calls() if t["callee"].get("name") in ("try_get_matches_from", "try_get_matches")]
        ok = len(gm) == 1 and any(flows_into(cli, gm[0][0], tt["args"][0]) for tb, tt in tries)
        rep.ob("C20.R3", "usage-errors-propagated", ok, "" if ok else "the clap result is not propagated with `?` (bad usage would exit 0)", cli.loc(), how="try_get_matches_from(args)?")



def texts_unchanged_rule(ctx, rule):
    F, rep = ctx.F, ctx.rep
    TEXT_OPS = {"lines", "split", "split_whitespace", "trim", "trim_end", "trim_start", "replace", "to_lowercase", "to_uppercase", "chars", "char_indices",
                "strip_prefix", "strip_suffix", "truncate", "get", "index", "split_at", "splitn", "rsplit", "split_terminator", "escape_debug", "escape_default",
                "trim_matches", "trim_end_matches", "trim_start_matches", "repeat", "bytes", "as_bytes", "from_utf8_lossy", "split_once", "nth", "take", "skip"}
    col = F.fn("cli::linter::colorized")
    if col is None:
        rep.fail(rule, "anchor::colorized", "cli::linter::colorized not found")
    else:
        rep.analysed(col)
        bad = set()
        for b in F.with_closures(col):
            for bi, t in b.calls():
                nm = t["callee"].get("name") or ""
                if nm not in TEXT_OPS or not t["args"]:
                    continue
                fields = {p for d, p in kind_deep(b, t["args"][0]) if d[0] == "param"}
                if any("issue" in p or "suggestions" in p for p in fields) or b.kind == "closure":
                    bad.add(nm)
        ok = not bad
        rep.ob(rule, "diagnostic-texts-styled-only", ok, "" if ok else "colorized applies %s to the library's diagnostic text: what is printed is no longer the text the library reported" % sorted(bad), col.loc(), how="styling only")
    def text_path(fn, pidx, depth=0):
        """(found, ok, detail, where): how the text of parameter pidx of fn gets into the output -- to_string() handed straight to a styling
        call, here or in a private helper of the same file the parameter is passed to"""
        ts = [(bi, t) for bi, t in fn.calls() if t["callee"].get("name") == "to_string" and t["args"] and any(d == ("param", pidx) for d, _ in kind_deep(fn, t["args"][0]))]
        if ts:
            bi, t = ts[0]
            users, frontier, seen_ = [], [bi], set()
            while frontier:
                src = frontier.pop()
                if src in seen_:
                    continue
                seen_.add(src)
                for b2, t2 in fn.calls():
                    if b2 != src and any(d == ("call", src) for a in t2["args"] for d, _ in origins(fn, a)):
                        if t2["callee"].get("name") in ("deref", "as_str", "as_ref", "borrow"):
                            frontier.append(b2)
                        else:
                            users.append((b2, t2))
            styled = [t2 for b2, t2 in users if t2["callee"].get("trait") == "colored::Colorize" or (callee_def(t2) or "").startswith("colored::")]
            inter = [t2["callee"].get("name") for b2, t2 in users if t2 not in styled]
            ok_ = len(ts) == 1 and bool(styled) and not inter
            return True, ok_, (inter or "no styling call"), fn.loc(t["line"])
        if depth < 2:
            for bi, t in fn.calls():
                h = F.fn(callee_def(t) or "")
                if h is None or not h.mir or h.file != fn.file or h.kind == "closure" or h.path == fn.path:
                    continue
                for ai, a in enumerate(t["args"]):
                    if any(d == ("param", pidx) for d, _ in kind_deep(fn, a)):
                        found, ok_, det, wh = text_path(h, ai + 1, depth + 1)
                        if found:
                            return found, ok_, det, wh
        return False, False, "", None
    n = 0
    for fn in F.all_fns(tests=False):
        if fn.file != "src/cli/error.rs" or "std::convert::From<" not in fn.path or not fn.path.endswith("::from") or fn.kind == "closure":
            continue
        found, ok, det, wh = text_path(fn, 1)
        if not found:
            continue
        n += 1
        rep.analysed(fn)
        rep.ob(rule, "error-text-is-to_string::%d" % n, ok,
               "" if ok else "%s passes the library's error text through %s before printing it: the message on stderr is not the library's" % (fn.path, det),
               wh, how="p.to_string().normal()")
    rep.floor(rule, n, 2, "conversions of library errors in src/cli/error.rs")


def render_rule(ctx, rule):
    F, rep = ctx.F, ctx.rep
    from ..flow import Labels
    from ..core import place_fields
    fn = F.fn("cli::linter::colorized")
    if fn is None:
        rep.fail(rule, "anchor", "cli::linter::colorized not found")
        return
    rep.analysed(fn)
    DIAG = "linter::Diag"
    # forward labels: which fields of the diagnostic reach the return value
    def ext(label, pl):
        fs = [name for of, name, _ in place_fields(pl) if of == DIAG]
        return label + tuple(fs[:1]) if fs and len(label) == 1 else label
    lab = Labels(F, fn, {(fn.path, 1): {("diag",)}}, extend=ext, through_mut=True)
    ret = lab.lab.get((fn.path, 0), set())
    got = {l[1] for l in ret if len(l) == 2}
    # fields read inside closures reach the result through the closure's own return; collect them too
    for body in F.with_closures(fn):
        if body.path != fn.path:
            got |= {l[1] for l in lab.lab.get((body.path, 0), set()) if len(l) == 2}
    for f in ("line", "issue", "suggestions"):
        ok = f in got
        rep.ob(rule, "render::uses::" + f, ok, "" if ok else "the rendered text of a diagnostic does not depend on its `%s`" % f, fn.loc(), how="flows into the result")
    # the terminator: a constant ending in a line break, in the function's own body, flowing into the result
    term = False
    for bi, si, st in fn.assigns():
        use = st["rv"].get("use")
        cst = use.get("const") if isinstance(use, dict) else None
        sval = cst.get("str") if isinstance(cst, dict) else None
        if sval is None and isinstance(cst, dict) and isinstance(cst.get("v"), str):
            v = cst["v"]
            if v.startswith("b\"") and v.rstrip('"').endswith("\\n\\x00"):
                sval = "\n"
        if sval is not None and sval.endswith("\n"):
            l2 = Labels(F, fn, {(fn.path, st["pl"]["l"]): {"nl"}}, through_mut=True)
            if "nl" in l2.lab.get((fn.path, 0), set()):
                term = True
    rep.ob(rule, "render::own-terminator", term, "" if term else "no line break of the function's own reaches the rendered text: a diagnostic without suggestions is not terminated and runs into the next one", fn.loc(),
           how="constant ending in \\n flows from the body into the result")



def _loaders(F):
    """load_and_run_from_command_line and the private helpers of cli/mod.rs that return its result for the command they are given:
    {function path: index of the command argument}"""
    base = "cli::load_and_run_from_command_line"
    out = {base: 0}
    for _ in range(2):
        for fn in F.all_fns(tests=False):
            if fn.kind == "closure" or fn.file != "src/cli/mod.rs" or fn.path in out or not fn.mir:
                continue
            for bi, t in fn.calls():
                d = callee_def(t)
                if d in out and t["dest"]["l"] == 0:
                    src = {dd for dd, _ in origins(fn, t["args"][out[d]])}
                    ps = [dd[1] for dd in src if dd[0] == "param"]
                    if len(src) == 1 and len(ps) == 1:
                        out[fn.path] = ps[0] - 1
    return out



def hand_through_rule(ctx, rule):
    F, rep = ctx.F, ctx.rep
    BORROW = ("deref", "as_str", "as_ref", "borrow", "as_bytes", "read_to_string", "clone", "to_owned", "to_string", "into", "from", "branch", "from_output")
    lr = F.fn("cli::load_and_run_from_command_line")
    if lr is None:
        rep.fail(rule, "anchor::load_and_run", "cli::load_and_run_from_command_line not found")
    else:
        rep.analysed(lr)
        n = 0
        for body in F.with_closures(lr):
            for bi, t in body.calls():
                if callee_def(t) == "cli::run_from_command_line" and len(t["args"]) > 1:
                    n += 1
                    names = set()
                    for d, p in kind_deep(body, t["args"][1]):
                        if d[0] == "call":
                            names.add(body.term(d[1])["callee"].get("name") or "?")
                    bad = sorted(x for x in names if x not in BORROW)
                    ok = not bad
                    rep.ob(rule, "text-unchanged::load_and_run", ok, "" if ok else "the file's text goes through %s before it is run: the binary runs a different text from the one in FILE" % bad, body.loc(t["line"]),
                           how="the read text is only borrowed")
        if n == 0:
            rep.fail(rule, "text-unchanged::load_and_run", "no call of run_from_command_line under load_and_run_from_command_line", lr.loc())
    # ... and all the way down: wherever code under src/cli hands a text it received as `&str` on to the library or to another cli
    # function, the text is the parameter itself
    n_hand = 0
    for fn in F.all_bodies(tests=False):
        if not fn.file.startswith("src/cli/") or fn.kind == "closure":
            continue
        strs = [i for i in range(1, fn.argc + 1) if fn.local_ty(i).s in ("&str", "&'a str", "&'_ str") or fn.local_ty(i).s.replace("'_ ", "").replace("'a ", "") == "&str"]
        if not strs:
            continue
        for body in F.with_closures(fn):
            for bi, t in body.calls():
                d_ = callee_def(t) or ""
                if not d_.startswith(("cli::", "frontend::", "exec::", "linter::")):
                    continue
                for a in t["args"]:
                    al = op_local(a)
                    if al is None or body.local_ty(al).s.replace("'_ ", "").replace("'a ", "") != "&str":
                        continue
                    deep = kind_deep(body, a)
                    if body is fn and any(dd[0] == "param" and dd[1] in strs for dd, _ in deep):
                        n_hand += 1
                        names = {body.term(dd[1])["callee"].get("name") or "?" for dd, _ in deep if dd[0] == "call"}
                        bad = sorted(x for x in names if x not in BORROW)
                        rep.ob(rule, "text-unchanged::%s->%s" % (fn.path, d_.rsplit("::", 2)[-2] + "::" + d_.rsplit("::", 1)[-1]), not bad,
                               "" if not bad else "%s applies %s to the source text before handing it to %s: the binary parses a different text from the one the library is given" % (fn.path, bad, d_),
                               body.loc(t["line"]), how="the text is the parameter itself")
    rep.floor(rule + ".hand", n_hand, 3, "places where src/cli hands the source text on")
    # diagnostics
    n_acc = 0
    for fn, bi, kind, st in common.field_accesses(F, "linter::LinterResult", "diags"):
        if not fn.file.startswith("src/cli/"):
            continue
        n_acc += 1
        ok = kind == "read"
        rep.ob(rule, "diags-unchanged::%s::%s" % (common.top_fn(F, fn).path, kind), ok,
               "" if ok else "%s takes LinterResult.diags mutably (%s): what is printed is no longer what the library reported" % (common.top_fn(F, fn).path, kind), fn.loc(st.get("line")), how="read only")
    bo = F.fn("cli::linter::build_output")
    if bo is not None:
        rep.analysed(bo)
        ALLOWED = ("into_iter", "iter", "map", "flatten", "flat_map", "chain", "collect", "is_empty", "len", "new", "one", "deref", "green", "normal", "bold", "yellow")
        names = {t["callee"].get("name") for body in F.with_closures(bo) for bi, t in body.calls() if "indirect" not in t["callee"] and not t["callee"].get("local")}
        bad = sorted(x for x in names if x in ("filter", "filter_map", "skip", "take", "rev", "dedup", "dedup_by", "dedup_by_key", "retain", "sort", "sort_by", "sort_by_key", "truncate", "step_by", "skip_while", "take_while", "unique", "last", "nth", "pop", "remove", "drain"))
        rep.ob(rule, "diags-unchanged::build_output", not bad, "" if not bad else "build_output applies %s to the diagnostics: the binary prints fewer / other diagnostics than the library returns" % bad, bo.loc(), how="maps and flattens only")
    rep.floor(rule, n_acc, 1, "accesses of LinterResult.diags under src/cli")
