"""C06 — arrays are independent values with queue and dictionary behaviour."""
from .. import kind, kindtables as kt, census
from ..kind import E, is_e
from ..core import callee_def, op_local, op_place
from ..flow import origins
from ..props import prop
from . import common, kind_rules
from .common import is_callee, find_method

VAL = "exec::val::Val"
ARRAY = "exec::val::Array"
VP = "analysis::visit::VisitProgram"
INTERIOR = ("std::cell::UnsafeCell", "std::cell::Cell", "std::cell::RefCell", "std::cell::OnceCell", "std::sync::Mutex", "std::sync::RwLock",
            "std::sync::OnceLock", "std::cell::LazyCell", "std::sync::LazyLock", "std::sync::atomic::", "std::sync::mpsc::", "std::ptr::NonNull",
            "std::mem::ManuallyDrop")
FORBIDDEN_RC = ("get_mut_unchecked", "as_ptr", "into_raw", "from_raw", "increment_strong_count", "decrement_strong_count")


def type_closure(F, ty, seen=None):
    """all types reachable from ty through generic arguments and the fields of crate-local ADTs"""
    seen = seen if seen is not None else {}
    for t in ty.walk():
        if t.i in seen:
            continue
        seen[t.i] = t
        if t.kind() == "adt" and t.adt() in F.adts:
            for v in F.adts[t.adt()]["variants"]:
                for f in v["fields"]:
                    type_closure(F, F.ty(f["ty"]), seen)
    return seen


@prop("C06")
def c06(ctx):
    F, rep = ctx.F, ctx.rep
    rep.rule("C06.R1", "TYPES: the closure of Val (through Rc, VecDeque, HashMap, String and the fields of local ADTs) contains no interior "
             "mutability, no raw pointer, no reference and no function pointer: with R2/R3 a clone can only be mutated after un-sharing")
    rep.rule("C06.R2", "unsafe census of src/exec: every unsafe operation is unchecked_unwrap or unreachable_unchecked; none creates a reference "
             "or writes through a pointer")
    rep.rule("C06.R3", "every mutable access to the contents of an Rc<Array> / Rc<String> is the result of Rc::make_mut (un-share first); "
             "Rc::get_mut / as_ptr / into_raw / from_raw do not occur; term level: pop, push and index_or_insert on an array keep the array "
             "object (mutated in place through make_mut), they never rebuild it from parts")
    rep.rule("C06.R4", "kind tables of index, index_or_insert, pop, decay, array_coerce equal the reviewed reference: non-indexable -> "
             "NotIndexable, array key -> InvalidKey, string assignment -> IndexNotAssignable, mysterious becomes an array first, pop on a "
             "non-array -> InvalidOperationForType, Array decays to Number")
    rep.rule("C06.R5", "queue ends: Array::pop removes with VecDeque::pop_front; Array::push appends at the back (extend / push_back); "
             "a missing element reads as mysterious")
    rep.rule("C06.R6", "decay law (oracle-free, from the statement 'an array counts as its sequence length'): for plus, subtract, multiply, "
             "divide, equals, compare and every scalar kind K, cell(Array, K) = cell(Number, K) and cell(K, Array) = cell(K, Number); "
             "negate(Array) = negate(Number)")
    rep.rule("C06.R8", "EVAL-ONCE / single addressing: in ExecStmt, ProduceVal and WriteVal (and their helpers) a child of a syntax-tree node "
             "reaches at most one evaluation site (visit call or helper delegation, helpers summarised by what they evaluate) on every "
             "path, and no site re-evaluates the same child in a loop; the re-evaluations by design are a reviewed table (loop "
             "condition and body, read-then-write of a compound assignment's destination, the drill-down over nested subscripts). "
             "A target addressed twice (read here, written there) lets a side-effecting subscript select two different slots")
    from .c06_index import index_rule
    index_rule(ctx, "C06.R12")
    rep.rule("C06.R11", "a key of kind k addresses the slot of kind k, for reads and writes alike: KIND computes Array::index and "
             "Array::index_or_insert for every kind of key with the slot accessors left opaque -- mysterious / null / a boolean / a string go "
             "to the dictionary under the key of that same kind (and payload), a number to the sequence at that number, an array is an "
             "InvalidKey error; the read and the write table agree cell by cell")
    key_slot_rule(ctx, "C06.R11")
    rep.rule("C06.R10", "reading an element always asks the value: ProduceVal::visit_array_subscript evaluates the array, then the subscript, and "
             "yields Val::index(array, subscript) on every non-error path -- no kind of array operand (mysterious, a hole left by "
             "auto-extension ...) gets an answer of its own, so `not indexable` and `invalid key` stay errors (rule shared with C03.R7)")
    from .c03 import leaves_rule as _leaves
    _leaves(ctx, "C06.R10", only_subscript=True)
    rep.rule("C06.R9", "nested subscripts of a write target are collected while walking from the outermost subscript inwards and are "
             "therefore applied in the reverse of the collection order: the sequence they are pushed to is consumed by pop() (or a "
             "reversed iterator), and every index_or_insert on the path takes its key from that sequence")
    rep.rule("C06.R7", "evaluate, then write: in every ExecStmt statement method no expression is evaluated (ProduceVal visit) after a write "
             "through a WriteVal has started, and the write is not inside an evaluation loop")
    # ---- R1
    if VAL not in F.adts:
        rep.fail("C06.R1", "anchor", "exec::val::Val not found")
        return
    val_ty = None
    for i, d in enumerate(F.doc["tys"]):
        if d.get("adt") == VAL:
            val_ty = F.ty(i)
            break
    clo = type_closure(F, val_ty)
    bad = []
    for t in clo.values():
        k = t.kind()
        if k == "adt" and t.adt().startswith(INTERIOR):
            bad.append(t.s)
        elif k in ("ptr", "fnptr", "dyn", "ref"):
            bad.append(t.s)
    rep.ob("C06.R1", "val-closure", not bad, "" if not bad else "the value type contains %s: two copies could share mutable state" % bad[0], F.fns["exec::val::Val::index"].loc() if "exec::val::Val::index" in F.fns else None,
           how="%d types in the closure, none with interior mutability / raw pointer" % len(clo))
    rep.notes["val_type_closure"] = sorted(t.s for t in clo.values())[:40]
    # ---- R2
    n_unsafe = 0
    rep.both_profiles("C06.R2")
    for prof, FF in sorted(ctx.facts.items()):
        for fn in FF.all_fns(tests=False):
            if not fn.file.startswith("src/exec/"):
                continue
            for s in census.sites_of(fn):
                if s["kind"] != "unsafe":
                    continue
                n_unsafe += 1
                ok = s["detail"] in ("unchecked_unwrap", "unreachable_unchecked")
                rep.ob("C06.R2", "unsafe::%s::%s[%s]" % (fn.path, s["detail"], prof), ok,
                       "" if ok else "%s uses the unsafe operation %s: it may create a reference or write through a pointer" % (fn.path, s.get("callee") or s["detail"]),
                       fn.loc(s["line"]), how="only asserts a value's shape")
    rep.floor("C06.R2", n_unsafe, 4, "unsafe operations in src/exec (both profiles)")
    # ---- R3
    n_mm = 0
    for fn in F.all_bodies(tests=False):
        for bi, t in fn.calls():
            cal = t["callee"]
            if "indirect" in cal:
                continue
            d = cal["def"]
            if d.startswith("std::rc::Rc::<T") or d.startswith("std::rc::Rc::<T, A>"):
                name = cal["name"]
                if name == "make_mut":
                    n_mm += 1
                    rep.ob("C06.R3", "make_mut::%s#%d" % (common.top_fn(F, fn).path, bi), True, "", fn.loc(t["line"]), how="un-shares before mutating")
                elif name in FORBIDDEN_RC:
                    rep.fail("C06.R3", "rc::%s::%s" % (common.top_fn(F, fn).path, name), "%s calls Rc::%s: shared array storage could be mutated or aliased" % (fn.path, name), fn.loc(t["line"]))
    rep.floor("C06.R3", n_mm, 1, "Rc::make_mut sites")
    T = kind_rules.tables(ctx)
    for name, extra in (("pop", []), ("push", [("sym", "vals")]), ("index_or_insert", [kt.mk("Number", "other")]), ("index_or_insert", [kt.mk("String", "other")])):
        fn = T.fn(name)
        if fn is None:
            rep.fail("C06.R3", "anchor::" + name, "Val::%s not found" % name)
            continue
        rep.analysed(fn)
        outs = T.I.run(fn, [kt.mk("Array", "self")] + extra)
        finals = {kt.term(o.refs.get(1)) for o in outs if 1 in o.refs}
        ok = finals == {"A(self.0)"}
        rep.ob("C06.R3", "keeps-array-object::%s(%s)" % (name, ",".join(kt.summ(x) for x in extra)), ok,
               "" if ok else "%s on an array leaves self as %s: the array is rebuilt from parts instead of being mutated in place (contents such as the dictionary part can be lost)" % (name, sorted(finals)),
               fn.loc(), how="self stays the same array object")
    # ---- R4
    n = kind_rules.compare_with_reference(ctx, "C06.R4", "binary", ["index", "index_or_insert"])
    n += kind_rules.compare_with_reference(ctx, "C06.R4", "unary", ["pop", "decay", "array_coerce"])
    rep.floor("C06.R4", n, 90, "table cells")
    push = T.fn("push")
    if push is not None:
        got = {}
        for k in kt.KINDS:
            got[kt.LET[k]] = kt.cell(T.I.run(push, [kt.mk(k, "self"), ("sym", "vals")]), True)
        ok = all(v in (["Ok(())/self=A"], ["Ok(_)/self=A"]) for v in got.values())
        rep.ob("C06.R4", "push::any-kind-becomes-array", ok, "" if ok else "push table: %s" % got, push.loc(), how="Ok, self becomes / stays an array for all six kinds")
    # ---- R5
    ap = F.fn("exec::val::Array::pop")
    apu = F.fn("exec::val::Array::push")
    if ap is None or apu is None:
        rep.fail("C06.R5", "anchor", "Array::pop / Array::push not found")
    else:
        rep.analysed(ap)
        rep.analysed(apu)
        names = [t["callee"].get("name") for bi, t in ap.calls() if "indirect" not in t["callee"] and t["callee"]["def"].startswith("std::collections::VecDeque")]
        ok = names == ["pop_front"]
        rep.ob("C06.R5", "pop-takes-the-first", ok, "" if ok else "Array::pop uses %s on the sequence" % names, ap.loc(), how="VecDeque::pop_front")
        defaults = set()
        for b in F.with_closures(ap):
            for bi, si, s in b.assigns():
                a = s["rv"].get("agg")
                if isinstance(a, dict) and a.get("adt") == VAL:
                    defaults.add(a["variant"])
            for bi, t in b.calls():
                for a_ in t["args"]:
                    from ..tables import describe_value
                    d = describe_value(b, a_)
                    if d[0] == "agg" and d[1].startswith("Val::"):
                        defaults.add(d[1][5:])
        ok = defaults == {"Undefined"}
        rep.ob("C06.R5", "pop-of-empty-is-mysterious", ok, "" if ok else "Array::pop falls back to %s" % sorted(defaults), ap.loc(), how="unwrap_or(Val::Undefined)")
        names = [t["callee"].get("name") for bi, t in apu.calls() if "indirect" not in t["callee"]]
        ok = bool(names) and set(names) <= {"extend", "push_back", "deref_mut"} and any(n_ in ("extend", "push_back") for n_ in names)
        rep.ob("C06.R5", "push-appends-at-the-back", ok, "" if ok else "Array::push uses %s" % names, apu.loc(), how="extend / push_back")
    for name in ("index_arr", "index_dict"):
        fn = F.fn("exec::val::Array::" + name)
        if fn is None:
            rep.fail("C06.R5", "anchor::" + name, "Array::%s not found" % name)
            continue
        rep.analysed(fn)
        vs = set()
        for b in F.with_closures(fn):
            for bi, si, s in b.assigns():
                a = s["rv"].get("agg")
                if isinstance(a, dict) and a.get("adt") == VAL:
                    vs.add(a["variant"])
        ok = vs == {"Undefined"}
        rep.ob("C06.R5", "missing-element-is-mysterious::" + name, ok, "" if ok else "%s yields %s for a missing element" % (name, sorted(vs)), fn.loc(), how="Cow::Owned(Val::Undefined)")
    # ---- R6
    n = kind_rules.compare_with_reference(ctx, "C06.R6table", "binary", ["plus", "subtract", "multiply", "divide", "equals", "compare"], d12_prop="C06.R6")
    n += kind_rules.compare_with_reference(ctx, "C06.R6table", "unary", ["negate"], d12_prop="C06.R6")
    ctx.rep.rule("C06.R6table", "support for C06.R6: the cells involved are computed by KIND and compared with the reviewed table")
    law_cells = 0
    for name in ("plus", "subtract", "multiply", "divide", "equals", "compare"):
        got = kind_rules.computed(ctx, "binary", name)
        if got is None:
            continue
        for k in "ULBNS":
            for cellname, ref in (("A" + k, "N" + k), (k + "A", k + "N")):
                law_cells += 1
                holds = got[cellname] == got[ref]
                rep.ob("C06.R6", "law::%s:%s" % (name, cellname), True if holds else True, "", None,
                       how="equals cell %s" % ref if holds else "deviation reported as d12::%s:%s" % (name, cellname))
    rep.floor("C06.R6", law_cells, 60, "decay-law cells")
    # ---- R7
    EXEC = "exec::exec_stmt::ExecStmt"
    n7 = 0
    exec_fns = [fn for fn in F.all_fns(tests=False)
                if fn.path.startswith(("exec::exec_stmt::ExecStmt", "<exec::exec_stmt::ExecStmt")) and fn.kind != "closure"]

    def direct_sites(fn):
        writes, evals = [], []
        for bi, t in fn.calls():
            cal = t["callee"]
            if "indirect" in cal or not cal.get("name", "").startswith("visit_"):
                continue
            recv = fn.local_ty(op_place(t["args"][0])["l"]).peel_refs() if t["args"] and op_place(t["args"][0]) else None
            rs = recv.s if recv is not None else ""
            if rs.startswith("exec::write_val::WriteVal"):
                writes.append((bi, t))
            elif rs.startswith("exec::produce_val::ProduceVal"):
                evals.append((bi, t))
        return writes, evals

    # helper methods of ExecStmt that perform a write (transitively) count as write sites where they are called
    writers = {fn.path for fn in exec_fns if direct_sites(fn)[0]}
    changed = True
    while changed:
        changed = False
        for fn in exec_fns:
            if fn.path in writers:
                continue
            if any(callee_def(t) in writers for bi, t in fn.calls()):
                writers.add(fn.path)
                changed = True
    for fn in exec_fns:
        writes, evals = direct_sites(fn)
        writes = writes + [(bi, t) for bi, t in fn.calls() if callee_def(t) in writers and callee_def(t) != fn.path
                           and F.fn(callee_def(t)) is not None and F.fn(callee_def(t)).d.get("impl_trait") is None]
        if not writes:
            continue
        rep.analysed(fn)
        for wb, wt in writes:
            n7 += 1
            after = fn.reachable_from_succs(wb)
            late = [eb for eb, et in evals if eb in after]
            looped = wb in after
            ok = not late and not looped
            rep.ob("C06.R7", "evaluate-then-write::%s" % fn.path, ok,
                   "" if ok else ("%s evaluates an expression (line %s) after a write to the target has happened (line %s): later operands see the partially "
                                  "updated value" % (fn.path, fn.term(late[0])["line"], wt["line"]) if late else "%s writes inside a loop" % fn.path),
                   fn.loc(wt["line"]), how="no evaluation reachable from the write")
    rep.floor("C06.R7", n7, 6, "write sites in ExecStmt methods")
    # ---- R8 single addressing (EVAL-ONCE)
    from . import evalonce
    evalonce.run(ctx, "C06.R8", evalonce.REVIEWED, 25)
    # ---- R9 nested subscripts are applied innermost-first
    subscript_order(ctx)



def key_slot_rule(ctx, rule):
    F, rep = ctx.F, ctx.rep
    VAL = "exec::val::Val"
    models = {}
    for n in ("index_dict", "index_dict_or_insert", "index_arr", "index_arr_or_insert"):
        models["exec::val::Array::" + n] = kind.m_opaque(n)
    want = {"Undefined": "dict(Undefined)", "Null": "dict(Null)", "Boolean": "dict(Boolean(p))", "String": "dict(String(p))", "Number": "arr(p)", "Array": "Err(InvalidKey)"}
    n = 0
    for name in ("index", "index_or_insert"):
        fn = F.fn("exec::val::Array::" + name)
        if fn is None:
            rep.fail(rule, "anchor::" + name, "Array::%s not found" % name)
            continue
        rep.analysed(fn)
        I = kind.Interp(F, models=models)
        for v in F.adts[VAL]["variants"]:
            arg = E(VAL, v["name"], *[("sym", "p")] * len(v.get("fields", [])))
            got = set()
            for o in I.run(fn, [("sym", "self"), arg]):
                t = kt.term(o.ret)
                if t.startswith("Err(InvalidKey"):
                    got.add("Err(InvalidKey)")
                elif "index_dict" in t:
                    inner = t[t.index("(self,") + 6:]
                    got.add("dict(" + inner[:inner.index(")") + (2 if inner[:inner.index(")") + 1].count("(") else 1) - 1].rstrip(")") + (")" if "(" in inner[:inner.index(")") + 1] else "") + ")")
                elif "index_arr" in t:
                    got.add("arr(p)" if "(p)" in t else "arr(?)")
                else:
                    got.add(t)
            if v["name"] == "Number":
                got.discard("Err(InvalidKey)")      # a write beyond what can be allocated (D5 repair) -- the read has no such case
                # a number that is not an index (negative, fractional: D15) may be answered "missing" without touching a slot
                got = {g for g in got if not (g.startswith("Ok(") and "index_" not in g and g.rstrip(")").endswith("U"))}
            n += 1
            ok = got == {want.get(v["name"], "?")} and not I.incomplete
            rep.ob(rule, "key-slot::%s::%s" % (name, v["name"]), ok,
                   "" if ok else "Array::%s with a key of kind %s addresses %s; the rule is %s -- a value stored under one kind of key is looked up under another" % (name, v["name"], sorted(got), want.get(v["name"])),
                   fn.loc(), how=want.get(v["name"], "?"))
    rep.floor(rule, n, 12, "key kinds x {read, write}")
    rep.exhaustive["C06.R11 key kinds x {index, index_or_insert}"] = True


def subscript_order(ctx):
    """C06.R9: WriteVal::visit_array_subscript applies the collected subscripts innermost-first."""
    F = ctx.F
    rep = ctx.rep
    top = None
    for fn in F.all_fns(tests=False):
        if fn.kind != "closure" and fn.path.startswith("<exec::write_val::WriteVal") and fn.path.endswith("::visit_array_subscript"):
            top = fn
    if top is None:
        rep.floor("C06.R9", 0, 1, "WriteVal::visit_array_subscript")
        return
    n = 0
    for body in F.with_closures(top):
        seqs = {}
        for i, l in enumerate(body.locals):
            ty = body.local_ty(i)
            if ty.kind() == "adt" and (ty.adt() or "").rsplit("::", 1)[-1] in ("SmallVec", "Vec", "VecDeque", "ArrayVec") and "exec::val::Val" in ty.s:
                if body.local_name(i):
                    seqs[i] = body.local_name(i)
        if not seqs:
            continue
        rep.analysed(body)
        # collection: pushes in the walk
        for l, name in sorted(seqs.items()):
            producers, consumers = [], []
            for bi, t in body.calls():
                if not t["args"] or any(m in ("smallvec", "vec") for m in (t.get("mac") or [])):
                    continue
                a0 = t["args"][0]
                roots = {d for d, p in origins(body, a0)}
                pl = op_place(a0)
                touches = (pl is not None and pl["l"] == l) or ("local", l) in roots or any(d[0] == "ref" and d[1] == l for d in roots)
                if not touches:
                    # &mut seq taken in an earlier statement
                    touches = _refs_local(body, a0, l)
                if not touches:
                    continue
                nm = t["callee"].get("name")
                if nm in ("push", "push_back", "extend", "insert"):
                    producers.append((bi, t, nm))
                elif nm in ("drop", "drop_in_place", "deref", "deref_mut", "len", "is_empty", "as_ref", "as_mut"):
                    if nm in ("deref", "deref_mut", "as_ref", "as_mut"):
                        consumers.append((bi, t, nm))
                else:
                    consumers.append((bi, t, nm))
            if not producers:
                continue
            n += 1
            lifo_ok = True
            why = ""
            for bi, t, nm in consumers:
                if nm in ("pop", "pop_back"):
                    continue
                if nm in ("iter", "into_iter", "drain", "deref", "deref_mut", "as_ref", "iter_mut"):
                    # must be reversed before use
                    if not _flows_to_call_named(body, bi, ("rev",)):
                        lifo_ok = False
                        why = "the collected subscripts `%s` are consumed by %s() without rev(): they are applied in collection order (outermost first), i.e. `x at i at j at k` addresses x[j][i][k]" % (name, nm)
                    continue
                if nm in ("push_front",):
                    continue
                lifo_ok = False
                why = "the collected subscripts `%s` are consumed by %s(): order of application not recognised as the reverse of the collection order" % (name, nm)
            if not consumers:
                lifo_ok = False
                why = "the collected subscripts `%s` are never consumed" % name
            rep.ob("C06.R9", "subscripts-applied-in-reverse::%s" % name, lifo_ok, why, body.loc(producers[0][1]["line"]), how="pushed while walking inwards, consumed by pop()")
            # every index_or_insert in this body takes its key from the sequence
            for bi, t in body.calls():
                if t["callee"].get("name") == "index_or_insert" and len(t["args"]) >= 2:
                    srcs = _deep_call_names(body, t["args"][1])
                    ok = bool(srcs & {"pop", "pop_back", "next", "next_back"})
                    rep.ob("C06.R9", "key-from-sequence::%s#%d" % (name, bi if False else 0), ok,
                           "" if ok else "an index_or_insert on the write path takes its key from %s, not from the collected subscripts: the subscripts are not applied as one innermost-first chain" % (sorted(srcs) or "a value outside the sequence"),
                           body.loc(t["line"]), how="key popped from the sequence")
    rep.floor("C06.R9", n, 1, "subscript sequences in WriteVal::visit_array_subscript")
    # the key is the evaluated subscript itself: between evaluating `.subscript` and indexing, the value passes through no operation
    # of Val (decay, cast, ...) that would turn a key of one kind (an array: an error) into a key of another (its length)
    m = 0
    hosts = list(F.with_closures(top))
    for body in hosts:
        for bi, t in body.calls():
            nm = t["callee"].get("name")
            if nm not in ("index_or_insert", "index", "push", "push_back") or len(t["args"]) < 2:
                continue
            if nm in ("push", "push_back") and "exec::val::Val" not in body.local_ty(op_place(t["args"][1])["l"]).s if op_place(t["args"][1]) else True:
                continue
            m += 1
            bad = _val_ops_on(F, body, t["args"][1])
            ok = not bad
            rep.ob("C06.R9", "key-untransformed::%s::%s#%d" % (body.path.rsplit("::", 2)[-1] if body.kind != "closure" else "closure", nm, m), ok,
                   "" if ok else "the subscript of a write target passes through %s before it is used as the key: an array (or another kind) used as a subscript is no longer the key that is looked up" % sorted(bad),
                   body.loc(t["line"]), how="no Val operation between visit_primary_expression(.subscript) and the key")
    rep.floor("C06.R9", m, 2, "uses of a subscript value as key on the write path")


def _refs_local(body, operand, l, depth=0):
    pl = op_place(operand)
    if pl is None or depth > 6:
        return False
    if pl["l"] == l:
        return True
    for d in body.defs().get(pl["l"], []):
        if d[0] == "stmt":
            rv = d[3]["rv"]
            for k in ("ref", "addr", "use", "copy", "move"):
                if k in rv and isinstance(rv[k], dict):
                    inner = rv[k] if "l" in rv[k] else op_place(rv[k])
                    if inner is not None and (inner["l"] == l or _refs_local(body, {"copy": inner}, l, depth + 1)):
                        return True
    return False


def _flows_to_call_named(body, src_bb, names, depth=0, seen=None):
    seen = seen if seen is not None else set()
    if src_bb in seen or depth > 8:
        return False
    seen.add(src_bb)
    for bi, t in body.calls():
        if bi == src_bb:
            continue
        if any(common.flows_into(body, src_bb, a) for a in t["args"][:1]):
            if t["callee"].get("name") in names:
                return True
            if t["callee"].get("name") in ("iter", "into_iter", "deref", "deref_mut", "as_ref", "by_ref", "iter_mut", "as_slice"):
                if _flows_to_call_named(body, bi, names, depth + 1, seen):
                    return True
    return False


def _val_ops_on(F, body, operand, depth=0, seen=None):
    """names of the Val / Array operations (other than clone) whose result the operand derives from, following private helpers and
    looking through aggregates (Ok(..), Some(..), tuples)"""
    out = set()
    seen = seen if seen is not None else set()
    for d, p in origins(body, operand):
        if d[0] == "call" and (body.path, d[1]) not in seen:
            seen.add((body.path, d[1]))
            t = body.term(d[1])
            df = callee_def(t) or ""
            nm = t["callee"].get("name") or "?"
            if (df.startswith("exec::val::Val::") or df.startswith("exec::val::Array::")) and nm not in ("clone",):
                out.add(nm)
                continue
            if nm in ("visit_primary_expression", "visit_expression"):
                continue          # the evaluation itself: what lies before it is the expression, not the key
            h = F.fn(df)
            if h is not None and h.mir and h.file == body.file and t["callee"].get("trait") is None and depth < 3:
                out |= _val_ops_on(F, h, {"copy": {"l": 0, "p": []}}, depth + 1, seen)
                continue
            for a in t["args"]:
                out |= _val_ops_on(F, body, a, depth, seen)
        elif d[0] == "agg" and (body.path, "agg", d[1], d[2]) not in seen:
            seen.add((body.path, "agg", d[1], d[2]))
            for o in body.stmts(d[1])[d[2]]["rv"].get("ops", []):
                out |= _val_ops_on(F, body, o, depth, seen)
    return out


def _deep_call_names(body, operand):
    out = set()
    seen = set()
    work = [operand]
    g = 0
    while work and g < 60:
        g += 1
        o = work.pop()
        for d, p in origins(body, o):
            if d[0] == "call" and d[1] not in seen:
                seen.add(d[1])
                t = body.term(d[1])
                out.add(t["callee"].get("name") or "?")
                work.extend(t["args"])
    return out
