"""Fact generation: runs the rustc_private driver over the repository's current working tree.

Facts are cached by a hash of the repository sources and the driver source, so the 19
per-property commands share one extraction.  Nothing here executes rrss code: the driver
runs inside `cargo +nightly check` (type checking + MIR construction only).
"""
import fcntl
import hashlib
import json
import os
import shutil
import subprocess
import sys
import time

VERIF = os.path.dirname(os.path.dirname(os.path.abspath(__file__)))
CACHE = os.path.join(VERIF, ".cache")
DRIVER_DIR = os.path.join(VERIF, "driver")
DRIVER_BIN = os.path.join(DRIVER_DIR, "target", "debug", "rrss-factgen")


def repo_dir():
    return os.environ.get("VERIF_REPO", "/repo")


def _sha_file(h, path):
    with open(path, "rb") as f:
        h.update(f.read())


def source_hash(repo=None):
    repo = repo or repo_dir()
    h = hashlib.sha256()
    files = []
    for name in ("Cargo.toml", "Cargo.lock"):
        p = os.path.join(repo, name)
        if os.path.exists(p):
            files.append(p)
    for root, dirs, fs in os.walk(os.path.join(repo, "src")):
        dirs.sort()
        for f in sorted(fs):
            files.append(os.path.join(root, f))
    for p in sorted(files):
        h.update(os.path.relpath(p, repo).encode())
        h.update(b"\0")
        _sha_file(h, p)
    _sha_file(h, os.path.join(DRIVER_DIR, "src", "main.rs"))
    return h.hexdigest()[:24]


def nightly_sysroot():
    return subprocess.check_output(["rustc", "+nightly", "--print", "sysroot"], text=True).strip()


def build_driver(quiet=True):
    env = dict(os.environ)
    env["CARGO_NET_OFFLINE"] = "true"
    r = subprocess.run(
        ["cargo", "build", "--offline"], cwd=DRIVER_DIR, env=env,
        stdout=subprocess.PIPE, stderr=subprocess.STDOUT, text=True,
    )
    if r.returncode != 0:
        sys.stderr.write(r.stdout)
        raise SystemExit("factgen: building the driver failed")
    if not quiet:
        sys.stderr.write(r.stdout)


def _run_profile(repo, profile, outdir):
    env = dict(os.environ)
    env["CARGO_NET_OFFLINE"] = "true"
    env["LD_LIBRARY_PATH"] = os.path.join(nightly_sysroot(), "lib") + ":" + env.get("LD_LIBRARY_PATH", "")
    env["RUSTFLAGS"] = "-Zmir-opt-level=0 -Awarnings"
    env["RUSTC_WORKSPACE_WRAPPER"] = DRIVER_BIN
    target = os.path.join(CACHE, "target")
    env["CARGO_TARGET_DIR"] = target
    env["RRSS_FACTS_DIR"] = outdir
    env["RRSS_PROFILE"] = profile
    env.pop("RUSTC_WRAPPER", None)
    sub = "debug" if profile == "dev" else "release"
    # cargo's freshness cache would skip the wrapper: drop the member's fingerprints
    fp = os.path.join(target, sub, ".fingerprint")
    if os.path.isdir(fp):
        for d in os.listdir(fp):
            if d.startswith("rrss-"):
                shutil.rmtree(os.path.join(fp, d), ignore_errors=True)
    cmd = ["cargo", "+nightly", "check", "--offline", "--lib", "--bins"]
    if profile == "rel":
        cmd.append("--release")
    t0 = time.time()
    r = subprocess.run(cmd, cwd=repo, env=env, stdout=subprocess.PIPE, stderr=subprocess.STDOUT, text=True)
    if r.returncode != 0:
        sys.stderr.write(r.stdout[-6000:])
        raise SystemExit("factgen: `cargo +nightly check` of the repository failed (profile %s)" % profile)
    for kind in ("lib", "bin"):
        p = os.path.join(outdir, "rrss-%s-%s.json" % (kind, profile))
        if not os.path.exists(p) or os.path.getmtime(p) < t0 - 1:
            raise SystemExit("factgen: fact file %s was not (re)written" % p)
    return time.time() - t0


def ensure_facts(profiles=("dev",), repo=None):
    """Returns the directory holding the fact files for the current tree."""
    repo = repo or repo_dir()
    os.makedirs(CACHE, exist_ok=True)
    lock = open(os.path.join(CACHE, "lock"), "w")
    fcntl.flock(lock, fcntl.LOCK_EX)
    try:
        if not os.path.exists(DRIVER_BIN) or os.path.getmtime(DRIVER_BIN) < os.path.getmtime(
            os.path.join(DRIVER_DIR, "src", "main.rs")
        ):
            build_driver()
        h = source_hash(repo)
        outdir = os.path.join(CACHE, "facts", h)
        os.makedirs(outdir, exist_ok=True)
        for profile in profiles:
            done = os.path.join(outdir, "done-" + profile)
            if os.path.exists(done):
                continue
            wall = _run_profile(repo, profile, outdir)
            with open(done, "w") as f:
                json.dump({"wall_s": wall, "src_hash": h, "repo": repo}, f)
        # prune old fact directories (keep the 12 most recent, and anything used in the last thirty minutes)
        root = os.path.join(CACHE, "facts")
        ds = sorted(
            (d for d in os.listdir(root) if os.path.isdir(os.path.join(root, d))),
            key=lambda d: os.path.getmtime(os.path.join(root, d)),
        )
        now = time.time()
        for d in ds[:-12]:
            if d != h and now - os.path.getmtime(os.path.join(root, d)) > 1800:
                shutil.rmtree(os.path.join(root, d), ignore_errors=True)
        os.utime(outdir, None)
        return outdir, h
    finally:
        fcntl.flock(lock, fcntl.LOCK_UN)
        lock.close()


if __name__ == "__main__":
    profs = tuple(sys.argv[1:]) or ("dev", "rel")
    t = time.time()
    d, h = ensure_facts(profs)
    print("facts:", d, "hash", h, "%.1fs" % (time.time() - t))
