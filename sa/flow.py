"""Intra-procedural value flow over MIR facts: backward origin tracing and a forward label
propagation that follows values into the closures of a function."""
from collections import defaultdict

from .core import op_place, op_local, callee_name, callee_def


def fieldpath(pl, only_adts=None, owners=False):
    """tuple of 'Variant.field' / 'field' labels for the field projections of a place
    (with owners=True: tuples (owner ADT, label))"""
    out = []
    for e in pl["p"]:
        if isinstance(e, dict) and "f" in e:
            of = e.get("of")
            if only_adts is not None and not only_adts(of):
                continue
            name = e.get("name", str(e["f"]))
            lab = "%s.%s" % (e["v"], name) if e.get("v") else name
            out.append((of, lab) if owners else lab)
    return tuple(out)


def rvalue_operands(rv):
    """operands (as operand dicts) and places read by an rvalue"""
    ops = []
    if "use" in rv:
        ops.append(rv["use"])
    elif "repeat" in rv:
        ops.append(rv["repeat"])
    elif "ref" in rv:
        ops.append({"copy": rv["ref"]})
    elif "rawptr" in rv:
        ops.append({"copy": rv["rawptr"]})
    elif "cast" in rv:
        ops.append(rv["a"])
    elif "bin" in rv:
        ops.extend([rv["a"], rv["b"]])
    elif "un" in rv:
        ops.append(rv["a"])
    elif "discr" in rv:
        ops.append({"copy": rv["discr"]})
    elif "agg" in rv:
        ops.extend(rv["ops"])
    return ops


# ------------------------------------------------------------------------------------------
# backward tracing


def origins(fn, operand_or_local, depth=0, seen=None):
    """Set of source descriptors a value may come from, following moves, copies, references,
    dereferences and casts backwards (flow-insensitive over the definitions of each local).
      ('param', n, path)        n-th parameter (1-based local index), with field path
      ('call', bb)              result of the call terminating block bb (path kept separately)
      ('const', printed)
      ('agg', bb, si)           aggregate built at that statement
      ('op', bb, si)            arithmetic / comparison result
      ('unknown', local)
    Each descriptor is returned with the field path read off it: (desc, path)."""
    if seen is None:
        seen = set()
    if isinstance(operand_or_local, int):
        pl = {"l": operand_or_local, "p": []}
    else:
        c = operand_or_local.get("const")
        if c is not None:
            if "promoted" in c:
                return {(("promoted", c["promoted"]), ())}
            return {(("const", c.get("str", c.get("char", c.get("int", c["v"])))), ())}
        pl = op_place(operand_or_local)
        if pl is None:
            return {(("unknown", -1), ())}
    l = pl["l"]
    path = fieldpath(pl)
    key = (l, path)
    if key in seen or depth > 40:
        return set()
    seen.add(key)
    out = set()
    if 1 <= l <= fn.argc:
        out.add((("param", l), path))
    for d in fn.defs().get(l, []):
        if d[0] == "call":
            out.add((("call", d[1]), path))
        else:
            _, bb, si, s = d
            rv = s["rv"]
            if "use" in rv or "ref" in rv or "rawptr" in rv or ("cast" in rv):
                src = rv.get("use") or ({"copy": rv["ref"]} if "ref" in rv else None) or ({"copy": rv["rawptr"]} if "rawptr" in rv else None) or rv.get("a")
                for desc, p in origins(fn, src, depth + 1, seen):
                    out.add((desc, p + path))
            elif "agg" in rv:
                # a field read off a tuple (or positional) aggregate: continue with the operand that was put there
                a = rv["agg"]
                descended = False
                if path and isinstance(path[0], str) and path[0].isdigit() and (a == "tuple" or (isinstance(a, dict) and "closure" not in a)):
                    idx = int(path[0])
                    if a == "tuple" and idx < len(rv["ops"]):
                        for desc, p in origins(fn, rv["ops"][idx], depth + 1, seen):
                            out.add((desc, p + path[1:]))
                        descended = True
                if not descended:
                    out.add((("agg", bb, si), path))
            elif "discr" in rv:
                out.add((("discr", bb, si), path))
            else:
                out.add((("op", bb, si), path))
    if not out:
        out.add((("unknown", l), path))
    return out


def comes_from_param(fn, operand, n):
    return any(d[0] == "param" and d[1] == n for d, _ in origins(fn, operand))


def call_origins(fn, operand):
    return [d[1] for d, _ in origins(fn, operand) if d[0] == "call"]


# ------------------------------------------------------------------------------------------
# forward label propagation through a function and its closures


class Labels:
    """Flow-insensitive forward propagation of labels.  Seeds: {(fn path, local): {labels}}.
    A label is an opaque hashable; reading a place extends every label of the base local with the
    field path of the place when `extend` is given (it receives (label, place) and returns the
    new label)."""

    def __init__(self, facts, root_fn, seeds, extend=None, through_calls=True, through_mut=False):
        self.facts = facts
        self.fns = {f.path: f for f in facts.with_closures(root_fn)}
        self.extend = extend
        self.through_calls = through_calls
        self.through_mut = through_mut   # a call handing `&mut x` to a callee stores the labels of its other arguments in x
        self.lab = defaultdict(set)  # (fn path, local) -> labels
        self.upv = defaultdict(set)  # (closure path, upvar index) -> labels
        for (p, l), ls in seeds.items():
            self.lab[(p, l)] |= set(ls)
        self._run()

    def place_labels(self, fn, pl):
        l = pl["l"]
        base = set(self.lab.get((fn.path, l), ()))
        # closure environment: _1 (deref)? .field i
        if fn.kind == "closure" and l == 1:
            for e in pl["p"]:
                if isinstance(e, dict) and "f" in e and e.get("of") == "closure":
                    base |= self.upv.get((fn.path, e["f"]), set())
                    break
        if self.extend is None:
            return base
        return {self.extend(x, pl) for x in base}

    def op_labels(self, fn, o):
        pl = op_place(o)
        if pl is None:
            return set()
        return self.place_labels(fn, pl)

    def _add(self, key, labels):
        cur = self.lab[key]
        n = len(cur)
        cur |= labels
        return len(cur) != n

    def _closure_of_ty(self, ty):
        t = ty
        while t.kind() in ("ref", "ptr"):
            t = t.inner()
        if t.kind() == "closure" and t.d["closure"] in self.fns:
            return t.d["closure"]
        return None

    def _pointer_bases(self, fn, l, depth=0, seen=None):
        seen = seen if seen is not None else set()
        out = set()
        if depth > 4 or l in seen:
            return out
        seen.add(l)
        for d in fn.defs().get(l, []):
            if d[0] != "stmt":
                continue
            rv = d[3]["rv"]
            src = None
            if "cast" in rv:
                src = op_place(rv["a"])
            elif "use" in rv:
                src = op_place(rv["use"])
            elif "ref" in rv:
                src = rv["ref"]
            elif "rawptr" in rv:
                src = rv["rawptr"] if isinstance(rv["rawptr"], dict) and "l" in rv["rawptr"] else None
            if src is not None and src["l"] != l:
                out.add(src["l"])
                out |= self._pointer_bases(fn, src["l"], depth + 1, seen)
        return out

    def _run(self):
        changed = True
        guard = 0
        while changed and guard < 50:
            guard += 1
            changed = False
            for fn in self.fns.values():
                for bi, b in enumerate(fn.blocks):
                    for s in b["stmts"]:
                        if s["k"] != "assign":
                            continue
                        rv = s["rv"]
                        labels = set()
                        for o in rvalue_operands(rv):
                            labels |= self.op_labels(fn, o)
                        agg = rv.get("agg")
                        if isinstance(agg, dict) and "closure" in agg and agg["closure"] in self.fns:
                            for i, o in enumerate(rv["ops"]):
                                ls = self.op_labels(fn, o)
                                k = (agg["closure"], i)
                                if not ls <= self.upv[k]:
                                    self.upv[k] |= ls
                                    changed = True
                        if labels and self._add((fn.path, s["pl"]["l"]), labels):
                            changed = True
                        if labels and self.through_mut and s["pl"]["p"] and s["pl"]["p"][0] == "deref":
                            # a store through a pointer: what the pointer was made from holds the value too (vec![..] writes its
                            # elements through a pointer cast from the box it then turns into the Vec)
                            for base in self._pointer_bases(fn, s["pl"]["l"]):
                                if self._add((fn.path, base), labels):
                                    changed = True
                    t = b["term"]
                    if t["k"] == "call":
                        arg_labels = [self.op_labels(fn, a) for a in t["args"]]
                        allv = set().union(*arg_labels) if arg_labels else set()
                        # closures among the arguments receive the labels of the other arguments
                        for i, a in enumerate(t["args"]):
                            pl = op_place(a)
                            if pl is None:
                                continue
                            cl = self._closure_of_ty(fn.local_ty(pl["l"])) if not pl["p"] else None
                            if cl is None:
                                continue
                            others = set()
                            for j, ls in enumerate(arg_labels):
                                if j != i:
                                    others |= ls
                            cf = self.fns[cl]
                            for p in range(2, cf.argc + 1):
                                if others and self._add((cl, p), others):
                                    changed = True
                            # what the closure returns may be (part of) what the call yields
                            rl = self.lab.get((cl, 0))
                            if rl and self.through_calls and self._add((fn.path, t["dest"]["l"]), set(rl)):
                                changed = True
                        # closure called directly through Fn*/call*: args tuple -> params
                        name = callee_def(t) or ""
                        if self.through_calls and allv:
                            if self._add((fn.path, t["dest"]["l"]), allv):
                                changed = True
                        if self.through_mut and allv:
                            for i, a in enumerate(t["args"]):
                                pl = op_place(a)
                                if pl is None or pl["p"]:
                                    continue
                                for d in fn.defs().get(pl["l"], []):
                                    if d[0] == "stmt" and "ref" in d[3]["rv"] and d[3]["rv"].get("mut"):
                                        tgt = d[3]["rv"]["ref"]["l"]
                                        others = set()
                                        for j, ls in enumerate(arg_labels):
                                            if j != i:
                                                others |= ls
                                        if others and self._add((fn.path, tgt), others):
                                            changed = True
        return self
