"""Positive controls of the thorough tier: the checker is run on scratch copies of /repo's *current working tree* with one
independently produced breaking change applied (seeded/<id>/patch.diff), and must report a violation the unpatched tree does
not have.  This is the "fires on a variant with one instance broken" half of testing the checker; it is a self-test of the
analysis' sensitivity, not part of the verdict about /repo: a missed control is printed (CONTROL-MISSED) and recorded in the
evidence, a control whose patch no longer applies to the current tree is recorded as not applicable.  Nothing is executed:
the scratch copy is only type-checked by the fact extractor, exactly like /repo itself.  Scratch copies live in a fresh
temporary directory that is removed before the check returns."""
import json
import os
import shutil
import subprocess
import tempfile

from . import factgen, core, report

VERIF = os.path.dirname(os.path.dirname(os.path.abspath(__file__)))


def seeds_for(prop):
    """(seed id, dir, expected to be detected by `prop`?)"""
    out = []
    root = os.path.join(VERIF, "seeded")
    if not os.path.isdir(root):
        return out
    for sid in sorted(os.listdir(root)):
        d = os.path.join(root, sid)
        mp = os.path.join(d, "meta.json")
        if not os.path.exists(mp) or not os.path.exists(os.path.join(d, "patch.diff")):
            continue
        with open(mp) as f:
            meta = json.load(f)
        detected = {x["check"] for x in meta.get("detected_by", [])}
        if meta.get("breaks_property") == prop or prop in detected:
            out.append((sid, d, prop in detected, meta.get("breaks_property")))
    return out


def copy_tree(dst):
    repo = factgen.repo_dir()
    os.makedirs(dst, exist_ok=True)
    for name in os.listdir(repo):
        if name in (".git", "target"):
            continue
        s = os.path.join(repo, name)
        d = os.path.join(dst, name)
        if os.path.isdir(s):
            shutil.copytree(s, d, symlinks=True)
        else:
            shutil.copy2(s, d)


def run_controls(prop, run_rules, base_keys, profiles):
    """run_rules(facts, bins, rep) applies the property's rules; returns a list of control records"""
    records = []
    seeds = seeds_for(prop)
    if not seeds:
        return records
    base = tempfile.mkdtemp(prefix="rrss-controls-")
    try:
        for sid, d, expected, own in seeds:
            rec = {"seed": sid, "breaks_property": own, "expected_to_fire": expected}
            scratch = os.path.join(base, sid)
            try:
                copy_tree(scratch)
                patch = os.path.join(d, "patch.diff")
                r = subprocess.run(["git", "apply", "--check", patch], cwd=scratch, stdout=subprocess.PIPE, stderr=subprocess.STDOUT, text=True)
                if r.returncode != 0:
                    rec["status"] = "not applicable: the change no longer applies to the current tree"
                    records.append(rec)
                    continue
                subprocess.run(["git", "apply", patch], cwd=scratch, check=True)
                try:
                    outdir, h = factgen.ensure_facts(profiles, repo=scratch)
                except SystemExit as e:
                    rec["status"] = "not applicable: the changed tree does not compile any more (%s)" % (e,)
                    records.append(rec)
                    continue
                facts = {p: core.load_facts(outdir, p, "lib") for p in profiles}
                bins = {p: core.load_facts(outdir, p, "bin") for p in profiles}
                rep = report.Report(prop, "control")
                try:
                    run_rules(facts, bins, rep)
                    new = sorted({"%s::%s" % (o["rule"], o["key"]) for o in rep.obligations if not o["ok"]} - base_keys)
                except Exception as e:  # an analysis that cannot cope with the variant has not shown anything
                    new = ["analysis error: %r" % (e,)]
                rec["fired"] = bool(new)
                rec["violations"] = new[:4]
                rec["status"] = "fired" if new else ("missed" if expected else "not detected by this property's rules (as recorded)")
                records.append(rec)
            finally:
                shutil.rmtree(scratch, ignore_errors=True)
    finally:
        shutil.rmtree(base, ignore_errors=True)
    return records
