"""Debug helper: pretty-print the MIR facts of functions whose path contains a substring."""
import sys
import os

sys.path.insert(0, os.path.dirname(os.path.dirname(os.path.abspath(__file__))))
from sa import factgen, core


def opstr(fn, o):
    if "const" in o:
        c = o["const"]
        if "fn" in c:
            return "fn:" + c["fn"]
        return c.get("str") and repr(c["str"]) or c["v"]
    p = core.op_place(o)
    if p is None:
        return str(o)
    return ("move " if "move" in o else "") + core.place_str(fn, p)


def rvstr(fn, rv):
    if "use" in rv:
        return opstr(fn, rv["use"])
    if "ref" in rv:
        return ("&mut " if rv["mut"] else "&") + core.place_str(fn, rv["ref"])
    if "bin" in rv:
        return "%s%s(%s, %s)" % (rv["bin"], "?" if rv["checked"] else "", opstr(fn, rv["a"]), opstr(fn, rv["b"]))
    if "un" in rv:
        return "%s(%s)" % (rv["un"], opstr(fn, rv["a"]))
    if "cast" in rv:
        return "%s as %s [%s]" % (opstr(fn, rv["a"]), fn.facts.ty(rv["to"]).s, rv["cast"])
    if "discr" in rv:
        return "discriminant(%s)" % core.place_str(fn, rv["discr"])
    if "agg" in rv:
        a = rv["agg"]
        if isinstance(a, dict) and "adt" in a:
            n = "%s::%s" % (a["adt"].rsplit("::", 1)[-1], a["variant"])
        elif isinstance(a, dict) and "closure" in a:
            n = "closure:" + a["closure"].rsplit("::", 2)[-2] + "::" + a["closure"].rsplit("::", 1)[-1]
        elif isinstance(a, dict):
            n = "array"
        else:
            n = a
        return "%s(%s)" % (n, ", ".join(opstr(fn, x) for x in rv["ops"]))
    if "rawptr" in rv:
        return "&raw " + core.place_str(fn, rv["rawptr"])
    return str(rv)


def show(fn, out=sys.stdout):
    w = out.write
    w("fn %s  [%s:%s] argc=%d\n" % (fn.path, fn.file, fn.d.get("lo") if not fn.promoted_of else "", fn.argc))
    for i, l in enumerate(fn.locals):
        w("   _%d: %s %s\n" % (i, fn.facts.ty(l["ty"]).s, l.get("name", "")))
    for bi, b in enumerate(fn.blocks):
        w(" bb%d%s:\n" % (bi, " (cleanup)" if b["cleanup"] else ""))
        for s in b["stmts"]:
            if s["k"] == "assign":
                w("    %s = %s   // L%s %s\n" % (core.place_str(fn, s["pl"]), rvstr(fn, s["rv"]), s["line"], ",".join(s.get("mac", []))))
            elif s["k"] == "setdiscr":
                w("    discriminant(%s) = %s\n" % (core.place_str(fn, s["pl"]), s["variant"]))
        t = b["term"]
        k = t["k"]
        if k == "call":
            c = t["callee"]
            name = c.get("resolved") or c.get("def") or "indirect"
            w("    %s = call %s(%s) -> bb%s unwind %s  // L%s %s\n" % (
                core.place_str(fn, t["dest"]), name, ", ".join(opstr(fn, a) for a in t["args"]), t["t"], t.get("unwind"), t["line"], ",".join(t.get("mac", []))))
        elif k == "switch":
            w("    switch %s -> %s otherwise bb%s\n" % (opstr(fn, t["on"]), ", ".join("%s:bb%s" % (a, b) for a, b in t["targets"]), t["otherwise"]))
        elif k == "assert":
            w("    assert(%s == %s, %s) -> bb%s  // L%s\n" % (opstr(fn, t["cond"]), t["expected"], t["msg"], t["t"], t["line"]))
        elif k == "drop":
            w("    drop(%s) -> bb%s\n" % (core.place_str(fn, t["pl"]), t["t"]))
        elif k == "goto":
            w("    goto bb%s\n" % t["t"])
        else:
            w("    %s\n" % k)
    for p in fn.promoteds():
        show(p, out)


if __name__ == "__main__":
    prof = "dev"
    args = sys.argv[1:]
    if args and args[0] in ("dev", "rel"):
        prof = args.pop(0)
    outdir, h = factgen.ensure_facts((prof,))
    facts = core.load_facts(outdir, prof)
    for sub in args:
        for p, fn in facts.fns.items():
            if sub in p:
                show(fn)
