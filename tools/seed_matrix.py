#!/usr/bin/env python3
"""Development-time helper: for every seeded change, apply it to a scratch copy of /repo (outside /repo and /verif),
run every claimed check against that copy (VERIF_REPO, evidence redirected) and record which checks report a violation
that the unchanged tree does not have.  Updates seeded/<id>/meta.json (detected_by) and prints a table.
usage: tools/seed_matrix.py [seed id ...]"""
import glob, json, os, shutil, subprocess, sys, tempfile
VERIF = os.path.dirname(os.path.dirname(os.path.abspath(__file__)))

def keys(evdir, p):
    out = set()
    for f in glob.glob(os.path.join(evdir, "replay", p + "-*.json")):
        out.add(json.load(open(f))["full_key"])
    return out

def run_checks(repo, evdir, props):
    env = dict(os.environ, VERIF_REPO=repo, VERIF_EVIDENCE_DIR=evdir)
    res = {}
    for p in props:
        r = subprocess.run([os.path.join(VERIF, "check"), p], cwd=VERIF, env=env, stdout=subprocess.PIPE, stderr=subprocess.STDOUT, text=True)
        res[p] = (r.returncode, keys(evdir, p), r.stdout[-400:] if r.returncode > 1 else "")
    return res

def main():
    props = [c["property_id"] for c in json.load(open(os.path.join(VERIF, "MANIFEST.json")))["checks"]]
    seeds = sys.argv[1:] or sorted(os.listdir(os.path.join(VERIF, "seeded")))
    base_dir = tempfile.mkdtemp(prefix="seedmx-", dir="/tmp")
    try:
        evbase = os.path.join(base_dir, "ev-base")
        base = run_checks("/repo", evbase, props)
        for sid in seeds:
            sd = os.path.join(VERIF, "seeded", sid)
            patch = os.path.join(sd, "patch.diff")
            if not os.path.exists(patch):
                continue
            scratch = os.path.join(base_dir, "repo-" + sid)
            subprocess.run(["git", "-C", "/repo", "worktree", "add", "-q", "--detach", scratch, "HEAD"], check=True)
            try:
                r = subprocess.run("git apply %s || git apply --3way %s" % (patch, patch), shell=True, cwd=scratch, stdout=subprocess.PIPE, stderr=subprocess.STDOUT, text=True)
                if r.returncode != 0:
                    print("%-12s PATCH DOES NOT APPLY: %s" % (sid, r.stdout[-200:].replace("\n", " ")))
                    continue
                ev = os.path.join(base_dir, "ev-" + sid)
                got = run_checks(scratch, ev, props)
                fired = {}
                errors = []
                for p in props:
                    rc, ks, tail = got[p]
                    if rc > 1:
                        errors.append(p)
                    new = sorted(ks - base[p][1])
                    if new:
                        fired[p] = new[:3]
                meta_p = os.path.join(sd, "meta.json")
                meta = json.load(open(meta_p))
                meta["detected_by"] = [{"check": p, "violations": v} for p, v in sorted(fired.items())]
                meta["matrix_repo_head"] = subprocess.check_output(["git", "-C", "/repo", "rev-parse", "--short", "HEAD"], text=True).strip()
                json.dump(meta, open(meta_p, "w"), indent=1)
                own = meta.get("breaks_property")
                print("%-12s own=%s %-8s fired=%s%s" % (sid, own, "HIT" if own in fired else ("other" if fired else "MISS"), sorted(fired), (" ERRORS=%s" % errors) if errors else ""))
            finally:
                subprocess.run(["git", "-C", "/repo", "worktree", "remove", "--force", scratch])
    finally:
        shutil.rmtree(base_dir, ignore_errors=True)
        subprocess.run(["git", "-C", "/repo", "worktree", "prune"])

if __name__ == "__main__":
    main()
