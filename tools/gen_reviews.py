#!/usr/bin/env python3
"""Development-time helper: (re)writes spec/reviewed_sites.json.

The reviewed table is explicit - one entry per site key - and is what the checks read.  This script only expands
the grouped arguments below over the site keys currently enumerated by the census (dev + release profile), so that
the table can be regenerated after a reviewed refactoring.  A site no pattern matches stays unreviewed and is
reported by the census.  Patterns are anchored regular expressions on the site key (no line numbers).

usage: tools/gen_reviews.py            (prints unmatched site keys)
"""
import json
import os
import re
import sys

VERIF = os.path.dirname(os.path.dirname(os.path.abspath(__file__)))
sys.path.insert(0, VERIF)
from sa import factgen, core, census  # noqa: E402

A_4GIB = "source text < 4 GiB (assumption recorded in the evidence)"
OFFS = "byte offsets into the source buffer are <= isize::MAX, so offset + small constant / offset + length of a piece of the same buffer cannot overflow usize"

# (pattern, reason, guard or None)
RULES = [
    # ---------------- lexer
    (r"<frontend::lexer::KEYWORDS as std::ops::Deref>::deref::__static_ref_initialize::extern::with_capacity#0",
     "HashMap::with_capacity(128): a constant", None),
    (r"frontend::lexer::match_keyword::extern::lazy-deref#0",
     "the lazy_static initialiser only allocates and inserts constants (its own sites are in this census), so the Once cannot be poisoned", None),
    (r"frontend::lexer::LexResult::<'a>::extended_to::assert::overflow_add\(self\.newlines,other\.newlines\)#0",
     "newline counts of two tokens of one text: bounded by the text length; " + A_4GIB, None),
    (r"frontend::lexer::Lexer::<'a>::(char_token|two_char_token|make_token_from|scan_delimited|scan_for_text::\{closure#0\})::assert::overflow_add\((start|open|map\(\)|arg1\.1),(1|2|len|len\(\))\)#0",
     OFFS, None),
    (r"frontend::lexer::Lexer::<'a>::scan_delimited::assert::overflow_add\(self\.line,0\)#0",
     "line + newlines inside one token: bounded by the text length; " + A_4GIB, None),
    (r"frontend::lexer::Lexer::<'a>::scan_delimited::\{closure#0\}::assert::overflow_add\(arg1\.0,1\)#0",
     "newlines += 1 per '\\n' of the text: bounded by the text length; " + A_4GIB, None),
    (r"frontend::lexer::Lexer::<'a>::scan_delimited::\{closure#0\}::assert::overflow_add\(arg2\.0,1\)#0", OFFS, None),
    (r"frontend::lexer::Lexer::<'a>::match_loop::assert::overflow_add\(self\.line,phi\)#0",
     "self.line += newlines: bounded by the number of '\\n' in the text; " + A_4GIB, None),
    (r"frontend::lexer::Lexer::<'a>::maybe_followed_by_apostrophe_suffix::assert::overflow_add\(self\.line,result\.newlines\)#0",
     "line + newline count of the token just scanned: bounded by the number of '\\n' in the text; " + A_4GIB, None),
    (r"frontend::lexer::Lexer::<'a>::scan_word::\{closure#2\}::assert::overflow_sub\(arg1\.2,arg1\.1\)#0",
     "end - start where end = find_next_word_end(), which searches from the iterator position already past the character at `start`: end > start", None),
    (r"frontend::lexer::Lexer::<'a>::current_loc::assert::overflow_sub\(current_idx\(\),self\.line_start\)#0",
     "line_start is the offset just after a newline that was already consumed, current_idx() is the offset of the next unread character or staged token: line_start <= current_idx()", None),
    (r"frontend::lexer::Lexer::<'a>::current_idx::\{closure#0\}::extern::unwrap#0",
     "a staged token is built by make_token_from / Token::new from substr() of this lexer's buffer, so get_start_index_of finds its spelling inside the buffer", None),
    (r"frontend::lexer::Lexer::<'a>::get_index_of::\{closure#0\}::unsafe::offset_from#0",
     "offset_from needs both pointers in one allocation: the closure only runs under bool::then of `range.contains(&cursor) || range.end == cursor`", "offset-from-guarded"),
    (r"frontend::lexer::Lexer::<'a>::get_literal_text_after::\{closure#0\}::extern::index<str,std::ops::RangeFrom<usize>>#0",
     "s is the start offset of a token spelling inside buf (Some only then): a char boundary <= len", None),
    (r"frontend::lexer::Lexer::<'a>::make_error_token::assert::overflow_sub\(find_next_word_end\(\),start\)#0",
     "find_next_word_end() searches from the iterator position, which is already past the character at `start`: the result is > start (or buf.len() > start)", None),
    (r"frontend::lexer::Lexer::<'a>::make_loc_from::extern::unwrap#0",
     "offset >= line_start (positions located are at or after the start of the current token, which lies at or after the start of the current line; for the end of a multi-line token the line start inside that token is used); " + A_4GIB, None),
    (r"frontend::lexer::Lexer::<'a>::(make_range::panic::debug_assert! assertion failed: self\.buf\.get\(start\.\.end\)\.is_some\(\)|advance_to::panic::debug_assert! assertion failed: self\.buf\.is_char_boundary\(idx\)|substr::extern::index<str,I>|substr::unsafe::get_unchecked)#0",
     "validity of every (start, end) / idx reaching this function is decided by C01.R2 (UNITS: offsets vs lengths, provenance from the buffer) together with the per-caller arguments: start comes from find_word_start / CharIndices, end from find_next_index (> start, a char boundary or buf.len()) or start + byte length of the ASCII text matched on that path", "units-clean"),
    (r"frontend::lexer::Lexer::<'a>::find_word_type::panic::debug_assert! assertion failed: !word\.is_empty\(\)#0",
     "the word starts with the alphabetic character that selected this arm of match_loop; suffix stripping removes only a trailing apostrophe group, which starts with an apostrophe, so that first character stays", None),
    (r"frontend::lexer::Lexer::<'a>::scan_for_text::panic::debug_assert! assertion failed: (!text\.contains\('\\n'\)|text\.is_ascii\(\))#0",
     "every caller passes a string literal that is ASCII and has no line break", "scan-for-text-literals"),
    (r"frontend::lexer::Lexer::<'a>::tokenize_word::\{closure#4\}::assert::overflow_sub\(arg1\.1,arg2\.1\)#0",
     "end - len with len in {2, 3}: the pair comes from a successful strip_suffix of a 2- or 3-byte suffix of the word ending at `end`, so end - len >= start", None),
    (r"frontend::lexer::Token::<'a>::is_ispelled::panic::assert! assertion failed: text\.chars\(\)\.all\(\|c\| c\.is_lowercase\(\)\)#0",
     "every caller passes (directly or through expect_token_ispelled) a lower-case string literal", "is-ispelled-literals"),
    # ---------------- parser
    (r"frontend::parser::AccumulatedRange::extract_unchecked::(panic::debug_assert! assertion failed: self\.0\.is_some\(\)|unsafe::unreachable_unchecked)#0",
     "precondition of this unsafe fn (a range was accumulated); established at its only call site, itself a census site", None),
    (r"frontend::parser::take_first::(panic::debug_assert! assertion failed: !vec\.is_empty\(\)|unsafe::unchecked_unwrap)#0",
     "precondition of this unsafe fn (non-empty vector); established at its only call site, itself a census site", None),
    (r"frontend::parser::Parser::<'a>::consume::(panic::debug_assert! .*|extern::unwrap)#0",
     "every caller runs in a parse_statement dispatch arm for a kind in the consumed set, or right after current_matches(K) with the same K: the current token exists and matches (agreement re-checked by C02.R2c)", "consume-callers"),
    (r"frontend::parser::Parser::<'a>::is_current_negative_number::(panic::debug_assert! .*|unsafe::unchecked_unwrap)#0",
     "the only caller evaluates `current_or_error()?` first (left operand of ||), so a current token exists", "negative-number-caller"),
    (r"frontend::parser::Parser::<'a>::parameter_seps::extern::collect#0", "3 array elements into ArrayVec<_, 4>", "parameter-seps-capacity"),
    (r"frontend::parser::Parser::<'a>::parameter_seps::unsafe::push_unchecked#0", "length is 3 < capacity 4 when the fourth separator is pushed, once", "parameter-seps-capacity"),
    (r"frontend::parser::Parser::<'a>::parse_array_push_rhs::\{closure#0\}::unsafe::unreachable_unchecked#0",
     "the token was matched against [With, Like] and both kinds have an arm", "push-rhs-arms"),
    (r"frontend::parser::Parser::<'a>::(parse_binary_expression_loop::\{closure#0\}|parse_fancy_comparison_expression::\{closure#0\}|parse_fancy_comparison_expression::\{closure#1\}::\{closure#0\}|parse_let_assignment::\{closure#0\}|parse_unary_expression::\{closure#0\}|parse_mutation)::extern::unwrap#0",
     "the token kind was just matched against a set that lies inside the Some-domain of the operator table function (agreement re-checked by the guard)", "operator-table-total"),
    (r"frontend::parser::Parser::<'a>::parse_build_knock_helper::assert::overflow_add\((c,1|1,phi)\)#0",
     "counts `up`/`down` tokens of one statement: bounded by the token count of the text", None),
    (r"frontend::parser::Parser::<'a>::parse_capitalized_identifier::extern::unwrap#0",
     "match_and_consume_while only fails with an error of its callback, and this callback never constructs Err", "capitalized-callback-infallible"),
    (r"frontend::parser::Parser::<'a>::parse_capitalized_identifier::unsafe::take_first#0", "called in the `names.len() == 1` arm", "take-first-len-1"),
    (r"frontend::parser::Parser::<'a>::parse_capitalized_identifier::\{closure#0\}::extern::unwrap#0",
     "Word tokens have a non-empty spelling (the lexer builds them from at least the alphabetic start character, see find_word_type)", None),
    (r"frontend::parser::Parser::<'a>::parse_capitalized_identifier::\{closure#2\}::unsafe::extract_unchecked#0",
     "the closure runs only for Some(name), i.e. names.len() >= 1, and the callback accumulates a range for every name it collects", None),
    (r"frontend::parser::Parser::<'a>::parse_poetic_string_assignment_rhs::extern::unwrap#0",
     "both tokens are slices of this lexer's buffer and the end-of-line token starts after the says token: get_literal_text_between / _after return Some", None),
    (r"frontend::parser::Parser::<'a>::parse_poetic_string_assignment_rhs::extern::unwrap#1",
     "the literal text starts at the says token, so it has that token's spelling as prefix", None),
    # ---------------- parser display
    (r"frontend::parser::display::<impl std::fmt::Display for frontend::parser::ParseError<'_>>::fmt::extern::unwrap#0",
     "UnexpectedToken is only ever constructed together with a Token location, and `tok` is Some exactly for Token locations", "unexpected-token-has-token"),
    (r"frontend::parser::display::expected_id_description::panic::unreachable! .*#0",
     "MutationOperandMustBeIdentifier is constructed only on the branch where the operand is not an Identifier", "mutation-operand-not-identifier"),
    (r"frontend::parser::display::write_list::extern::len#[01]", "called on slice::Iter, whose ExactSizeIterator::len is exact (no assertion in that impl)", None),
    (r"frontend::parser::display::write_list::panic::assert! assertion failed: iter\.len\(\) != 0#0",
     "ExpectedOneOfTokens payloads are non-empty: expect_any is only called with non-empty array literals, parse_rounding builds vec![Up, Down, Round]", "expected-one-of-nonempty"),
    (r"frontend::parser::display::write_list::panic::unreachable! .*#0", "follows assert!(len != 0) in the `0` arm", None),
    (r"frontend::parser::display::write_list::extern::unwrap#[0-4]", "each arm takes exactly as many elements as iter.len() announced (1, 2, n-1 then 1) from an exact-size slice iterator", None),
    (r"frontend::parser::display::write_list::assert::overflow_sub\(len\(\),1\)#0", "n - 1 in the arm for n >= 3", None),
    # ---------------- ast
    (r"frontend::ast::ExpressionList::len::assert::overflow_add\(1,len\(\)\)#0", "1 + Vec::len(): a Vec of non-zero-sized elements holds < isize::MAX of them", None),
    (r"frontend::ast::position_or_end::assert::overflow_add\(n,1\)#0", "counts elements of a Vec: bounded by its length", None),
    (r"frontend::ast::PoeticNumberLiteral::compute_value::assert::overflow_sub\(position_or_end\(\),1\)#0",
     "`count as i32 - 1` with count <= number of words of one literal: far below 2^31 within any realistic text (a literal of 2^31 words needs > 4 GiB of source)", None),
    (r"frontend::ast::PoeticNumberLiteral::compute_value::\{closure#2\}::assert::overflow_sub\(arg1\.0,arg2\.0\)#0",
     "exponent - idx with both bounded by the number of words of one literal (< 2^31, see above)", None),
    (r"frontend::ast::PoeticNumberLiteral::compute_value::\{closure#2\}::\{closure#1\}::assert::overflow_add\(a,b\)#0", "sum of character counts of words of the text: bounded by the text length", None),
    (r"frontend::ast::PoeticNumberLiteral::compute_value::\{closure#2\}::unsafe::unreachable_unchecked#0",
     "the iterator feeding this closure is filtered with `*e != Dot` two adaptors earlier", "compute-value-no-dot"),
    (r"frontend::ast::PoeticNumberLiteralIterator::<'a, T>::greedily_match_suffixes::extern::unwrap#[01]",
     "only called when peek() just showed a WordSuffix element: next() is Some and extract_suffix of it is Some", "greedy-suffix-peeked"),
    # ---------------- exec
    (r"<exec::exec_stmt::ExecStmt<'a, I, O> as analysis::visit::VisitProgram>::(visit_array_pop|visit_array_push|visit_assignment|visit_input|visit_poetic_number_assignment|visit_poetic_string_assignment|visit_rounding)::extern::unwrap#0",
     "unwrap of a WriteVal visit result: the visitor's error type is () and no method reachable on a WriteVal ever constructs Err(())", "writeval-never-errs"),
    (r"exec::exec_stmt::ExecStmt::<'a, I, O>::(array_push_helper|mutation_helper|visit_inc_dec)::extern::unwrap#[01]",
     "unwrap of a WriteVal visit result: the visitor's error type is () and no method reachable on a WriteVal ever constructs Err(())", "writeval-never-errs"),
    (r"<exec::produce_val::ProduceVal<'a, I, O> as analysis::visit::VisitExpr>::visit_array_pop_expr::extern::unwrap#0",
     "unwrap of a WriteVal visit result: the visitor's error type is () and no method reachable on a WriteVal ever constructs Err(())", "writeval-never-errs"),
    (r"<exec::produce_val::ProduceVal<'a, I, O> as analysis::visit::VisitExpr>::visit_array_pop_expr::unsafe::unchecked_unwrap#0",
     "reached only after `.0?` succeeded: a WriteVal visit yields Ok(()) only from a call of the write closure, which sets `back = Some(..)` before returning Ok", "pop-expr-back-set"),
    (r"<exec::exec_stmt::ExecStmt<'a, I, O> as analysis::visit::VisitProgram>::visit_array_push::extern::with_capacity#0",
     "capacity = number of expressions in one list of the program text", None),
    (r"<exec::exec_stmt::ExecStmt<'a, I, O> as analysis::visit::VisitProgram>::visit_dec::assert::overflow_neg\(d\.amount\)#0",
     "amount = 1 + number of extra `down` tokens, built by the parser as a positive isize", None),
    (r"exec::environment::Environment::<I, O>::(create_func|create_var)::extern::unwrap#0",
     "the scope stack is never empty: it starts with one table and pushes/pops are paired (C05.R1 PAIR)", None),
    (r"exec::environment::Environment::<I, O>::pop_scope::panic::debug_assert! .*#0",
     "the scope stack starts with one table; every pop_scope is preceded by a push in the same function (C05.R1 PAIR, depth dataflow)", None),
    (r"exec::sym_table::SymTable::emplace_var_impl::unsafe::unchecked_unwrap#0",
     "the entry just emplaced was built by SymTableEntry::from(Val), i.e. the Var variant, so as_var_mut() is Some", "emplace-var-entry"),
    (r"exec::val::Val::(array_coerce|push)::unsafe::unreachable_unchecked#0",
     "self was replaced by / coerced to an array immediately before the match", "array-after-coerce"),
    (r"exec::val::Val::inc::unsafe::unreachable_unchecked#0", "a Null self was replaced by Number(0.0) immediately before the match", "inc-null-replaced"),
    (r"exec::val::Val::join::\{closure#0\}::unsafe::unreachable_unchecked#0",
     "the loop just before returned an error for every element that is not a string, over the same unmodified array and the same iteration", "join-elements-checked"),
    (r"exec::val::Val::compare::\{closure#0\}::panic::inner!#[01]",
     "the discriminants of a and b were just compared equal and this arm matched a as Number / String", "compare-same-kind"),
    (r"exec::val::Val::to_string_for_output::panic::unreachable! .*#0", "decay() never returns an array (Array -> Number)", "decay-no-array"),
    (r"exec::val::Val::multiply::extern::repeat_n#0",
     "the count drives time and memory proportional to the result; outside the property's resource budget when huge (not a panic for budgeted programs)", None),
    (r"exec::val::Array::index_arr_or_insert::assert::overflow_sub\(branch\(\),len\(\)\)#0",
     "new_len - len under `i >= len` with new_len = i + 1 (checked_add succeeded): the difference is >= 1", "reserve-diff-nonneg"),
    (r"exec::val::Array::index_arr_or_insert::extern::resize_with#0",
     "the extension was reserved with try_reserve and its failure returned None (reported as InvalidKey): resize_with does not allocate beyond what was reserved", "resize-after-try-reserve"),
    (r"exec::val::Val::cast::extern::from_str_radix#0",
     "the radix went through Option::filter(|r| (2..=36).contains(r)) and `?`", "radix-range-checked"),
    (r"linter::passes::boring_assignment::PoeticNumberLiteralTemplate::from_value::\{closure#0\}::extern::to_digit#0", "to_digit(10): constant radix", "to-digit-radix-const"),
    # ---------------- linter
    (r"<linter::ListBuilder<T> as analysis::visit::Combine>::combine::unsafe::unreachable_unchecked#[01]",
     "both early returns on is_empty() precede the matches, so neither operand is Empty", "listbuilder-nonempty"),
    (r"<linter::passes::missed_pronoun::MissedPronounPassImpl as analysis::visit::VisitExpr>::visit_function_call::panic::debug_assert! .*#0",
     "in_function_call is cleared again before the arguments (the only place a nested call can occur) are visited", "in-function-call-cleared"),
    (r"<analysis::tools::NumericConstant as analysis::visit::Combine>::combine::panic::unimplemented! .*#0",
     "reachable in the graph only through the inherited visit_function_call -> combine_all, whose first element is the callee name: all identifier methods of the folder return Err, so try_fold stops before combine", "folder-identifiers-err"),
    (r"linter::passes::boring_assignment::PoeticNumberLiteralTemplate::as_text::extern::with_capacity#0", "capacity = estimated text size: about 11 bytes per character of one f64 rendering", None),
    (r"linter::passes::boring_assignment::PoeticNumberLiteralTemplate::as_text::extern::repeat_n#0", "count = mod10(len) <= 10", None),
    (r"linter::passes::boring_assignment::PoeticNumberLiteralTemplate::as_text::unsafe::from_utf8_unchecked#0", "every byte pushed is one of the ASCII constants ' ', '*', '.'", "as-text-ascii"),
    (r"linter::passes::boring_assignment::PoeticNumberLiteralTemplate::estimate_text_size::\{closure#0\}::assert::overflow_add\(mod10\(\),1\)#0", "mod10(len) + 1 with len a decimal digit", None),
    (r"linter::passes::boring_assignment::PoeticNumberLiteralTemplate::estimate_text_size::extern::sum#0", "total of at most 11 per item over the items of one template: one item per character of one f64 rendering (a few hundred characters at most)", None),
]


def main():
    outdir, h = factgen.ensure_facts(("dev", "rel"))
    keys = set()
    sigs = {}
    for prof in ("dev", "rel"):
        F = core.load_facts(outdir, prof)
        for fn in F.all_fns(tests=False):
            for b in [fn] + fn.promoteds():
                for s in census.sites_of(b):
                    keys.add(s["key"])
                    if s.get("sig"):
                        sigs.setdefault(s["key"], s["sig"])
    out = {}
    unmatched = []
    compiled = [(re.compile("^(?:" + p + ")$"), r, g) for p, r, g in RULES]
    hit = set()
    for k in sorted(keys):
        for i, (rx, reason, g) in enumerate(compiled):
            if rx.match(k):
                e = {"reason": reason}
                if g:
                    e["guard"] = g
                if k in sigs:
                    e["sig"] = sigs[k]   # what the operation is applied to (recognises the site again after a move inside its function)
                out[k] = e
                hit.add(i)
                break
        else:
            unmatched.append(k)
    with open(os.path.join(VERIF, "spec", "reviewed_sites.json"), "w") as f:
        json.dump({"comment": "one entry per reviewed census site; generated by tools/gen_reviews.py from grouped arguments, read by sa/census.py",
                   "sites": out}, f, indent=1, sort_keys=True)
    print("reviewed:", len(out), "of", len(keys))
    for i, (p, r, g) in enumerate(RULES):
        if i not in hit:
            print("UNUSED PATTERN:", p[:100])
    print("unmatched (in any body, reachable or not):")
    for k in unmatched:
        print("  ", k)


if __name__ == "__main__":
    main()
