#!/usr/bin/env python3
"""Development-time helper: apply a seeded patch to /repo, run checks, undo the patch.

  tools/try_seed.py <seed id or patch file> [--tier quick|thorough] [prop ...]

Prints, per property, whether the check fired, and the first violation lines."""
import json
import os
import subprocess
import sys

VERIF = os.path.dirname(os.path.dirname(os.path.abspath(__file__)))


def main():
    args = sys.argv[1:]
    tier = "quick"
    if "--tier" in args:
        i = args.index("--tier")
        tier = args[i + 1]
        del args[i:i + 2]
    seed = args[0]
    props = args[1:]
    patch = seed if os.path.isfile(seed) else os.path.join(VERIF, "seeded", seed, "patch.diff")
    if not props:
        m = json.load(open(os.path.join(VERIF, "MANIFEST.json")))
        props = [c["property_id"] for c in m["checks"]]
    st = subprocess.run("git -C /repo status --porcelain", shell=True, stdout=subprocess.PIPE, text=True).stdout.strip()
    if st:
        print("refusing: /repo has local changes:\n" + st)
        return 2
    r = subprocess.run("git -C /repo apply %s" % patch, shell=True, stdout=subprocess.PIPE, stderr=subprocess.STDOUT, text=True)
    if r.returncode != 0:
        r = subprocess.run("git -C /repo apply --3way %s" % patch, shell=True, stdout=subprocess.PIPE, stderr=subprocess.STDOUT, text=True)
        if r.returncode != 0:
            print("patch does not apply:", r.stdout)
            subprocess.run("git -C /repo checkout -- . ; git -C /repo reset -q", shell=True)
            return 2
    fired = []
    import glob

    def keys_of(p):
        out = {}
        for f in glob.glob(os.path.join(VERIF, "evidence", "replay", p + "-*.json")):
            d = json.load(open(f))
            out[d["full_key"]] = d
        return out

    try:
        for p in props:
            # baseline violations of this check on the tree without the patch (cached facts; stash the patch briefly)
            subprocess.run("git -C /repo stash -q", shell=True)
            subprocess.run([os.path.join(VERIF, "check"), p, "--tier", tier], cwd=VERIF, stdout=subprocess.PIPE, stderr=subprocess.STDOUT, text=True)
            base = keys_of(p)
            subprocess.run("git -C /repo stash pop -q", shell=True)
            r = subprocess.run([os.path.join(VERIF, "check"), p, "--tier", tier], cwd=VERIF, stdout=subprocess.PIPE, stderr=subprocess.STDOUT, text=True)
            lines = [l for l in r.stdout.splitlines() if l.strip()]
            now = keys_of(p)
            new = {k: v for k, v in now.items() if k not in base}
            status = "FIRED (new)" if new else ("silent" if r.returncode in (0, 1) else "ERROR rc=%d" % r.returncode)
            print("%s: %s" % (p, status))
            if r.returncode not in (0, 1):
                print("\n".join(lines[-15:]))
            for k, v in list(new.items())[:4]:
                print("   %s @ %s: %s" % (k[:160], v["where"], (v["detail"] or "")[:300]))
            if new:
                fired.append(p)
    finally:
        subprocess.run("git -C /repo reset -q; git -C /repo checkout -- .", shell=True)
    print("fired:", fired)
    return 0


if __name__ == "__main__":
    sys.exit(main())
