"""development helper: `VERIF_REPO=<tree> python3 -i tools/dbg.py` gives F (dev lib facts) and helpers for poking at rules"""
import sys, os, time
sys.path.insert(0, os.path.dirname(os.path.dirname(os.path.abspath(__file__))))
from sa import factgen, core, report, props  # noqa
import sa.rules  # noqa
from sa.flow import origins  # noqa
from sa.core import callee_def, op_place, op_local  # noqa
from sa.rules import common  # noqa
outdir, h = factgen.ensure_facts(("dev", "rel"))
facts = {p: core.load_facts(outdir, p, "lib") for p in ("dev", "rel")}
bins = {p: core.load_facts(outdir, p, "bin") for p in ("dev", "rel")}
rep = report.Report("DBG", "quick", 0, time.time())
ctx = props.Ctx(facts, bins, "quick", rep)
F = ctx.F
