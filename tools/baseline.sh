#!/bin/bash
# runs the repository's own suite and compares with the pinned baseline (217 pass, the same 10 fail)
cd /repo && cargo test --workspace --no-fail-fast --offline 2>&1 | python3 -c "
import sys,re
out=sys.stdin.read()
passed=len(re.findall(r'^test .* \.\.\. ok$',out,re.M))
failed=sorted(set(re.findall(r'^test (\S+) \.\.\. FAILED$',out,re.M)))
base=sorted(['simple_conditionals','truthiness_test','indented_else','fibonacci','hello_world','ninety_nine_beers','function_calls','poetic_numbers','and_test','push'])
print('passed',passed,'failed',len(failed))
ok = passed==217 and failed==base
print('BASELINE OK' if ok else 'BASELINE DIFFERS: '+str(failed))
sys.exit(0 if ok else 1)
"
