#!/usr/bin/env python3
"""Regenerates MANIFEST.json from the rule registry and the per-property texts below."""
import json
import os
import sys

VERIF = os.path.dirname(os.path.dirname(os.path.abspath(__file__)))
sys.path.insert(0, VERIF)
from sa import props  # noqa: E402

TEXT = {
    "C01": ("CENSUS + UNITS + PROGRESS", "Absence by enumeration: every panic/UB-capable construct in the bodies reachable (monomorphic call graph) from parse and error rendering is enumerated in both profiles and must be discharged by an automatic rule or a one-site reviewed argument; offset arithmetic in the lexer is dimensionally consistent; every lexer/parser loop and recursion cycle consumes input; the lexer does not recurse. Decides those clauses, not stack depth or allocation."),
    "C02": ('TABLE extraction and cross-comparison + KIND table', "Decides the grammar's tables only: alias map, token production/consumption agreement, token->operator maps (KIND over all token kinds), precedence ladder down to `at` binding to every primary, literal-word agreement, poetic words recognised by spelling only, the list flag reset on every return, contractions after numbers, strings and comments, one white-space classifier throughout the lexer, and the is_function_terminator table over all statement kinds. Does not decide that two concrete spellings give equal trees."),
    "C03": ('KIND tables + dispatch/operand-order/short-circuit structure', 'Decides operator dispatch, operand order, short-circuit control dependence, fold direction, that every binary expression goes through the fold, one-step inc/dec, the kind-level result tables (36 cells per binary operation) with term anchors and that no float-to-integer cast becomes text. Numeric results and string contents are not decided.'),
    "C04": ('control-flow state machine shape (FIELDS, KIND, ERRFLOW)', 'Decides who writes the control-flow state, that it is inspected between two executed statements, the 4-row loop table, loop re-evaluation, one-branch if, statement dispatch completeness, the truthiness terms that decide conditions and that no runtime error is swallowed. Does not decide the trace of a concrete program.'),
    "C05": ("PAIR + FIELDS + event order", "Decides scope push/pop pairing per activation on every non-error path, innermost-first lookup, pronoun-referent writers, the call protocol order, the return-value writers (the expression is evaluated on every path), that every opened scope is a fresh table and who may obtain a mutable variable cell (the write visitor only). Dynamic shadowing on concrete programs is not decided."),
    "C06": ('TYPES + unsafe census + make_mut discipline + KIND tables + EVAL-ONCE', 'Independence of copies is decided by construction (no interior mutability or raw pointer in Val, every mutable access to shared array storage through Rc::make_mut, no unsafe write path); kind-level error tables, queue ends and the decay law are decided on the extracted tables; every child expression is evaluated at most once per statement (reviewed re-evaluations excepted), nested subscripts are applied innermost-first, the key is the evaluated subscript itself, and a key of kind k addresses the slot of kind k for reads and writes alike (KIND table). Exact extension length and dictionary contents are not decided.'),
    "C07": ("FIELDS protocol + KIND tables + CENSUS", "Decides the into-vs-in-place protocol, operator->transformation dispatch, wrong-kind => error tables that no panicking callee precondition is left open, that no integer `as` cast can wrap around, where floats may be converted to integers at all, that the radix parse is i64::from_str_radix of the string itself, that a string is read as a number by str::parse::<f64> of the string itself, and that the rounding writer only dispatches. The exact pieces of a split, radix arithmetic and rounding of halves are not decided."),
    "C08": ('FIELDS + ERRFLOW + must-pass-through + type-level pass-through + KIND fault table', "Decides: exactly one complete write per say and one read per listen before the destination branch, on every path; I/O errors converted and propagated; a failed stream operation <=> Err for every kind of fault and buffer state (KIND table of Environment::output/input); nobody else touches the streams; no layer is put between the caller's streams and the interpreter. Byte-exact content is not decided."),
    "C09": ("CENSUS + BORROW", "Absence by enumeration of panic/UB-capable constructs reachable from execution and error rendering in both profiles; RefCell borrow overlap; unimplemented visitor paths unreachable. Stack depth and memory exhaustion are outside the property's budget and not decided."),
    "C10": ("ORDER taint + TYPES", "Every source of nondeterminism (hash iteration, addresses, time, randomness, threads, environment) is enumerated over the whole library and must reach an order-insensitive consumer; lint-pass state does not survive from one run to the next; the I/O shape does not depend on how the streams deliver bytes; equality and hash of dictionary keys agree. Assumes std and the dependencies are deterministic."),
    "C12": ('UNITS + freshness of line state + ORDERINGS', 'Decides that position arithmetic is dimensionally consistent (byte offsets, lengths, lines, columns), that the line state is never read stale and who writes it, that a merged token keeps its line information, that the buffer is the text the caller passed and that the spelling of a token is the slice its range covers, and -- exhaustively over the order configurations of lines and columns -- that range construction and concatenation normalise lexicographically. Does not decide that a reported column equals the true column of a concrete text.'),
    "C13": ('PROGRESS + ERRFLOW + TABLE', "Decides end-of-statement enforcement on every path, that parse errors are never swallowed, that Ok(Program) is only returned at end of input, that 'no statement here' token kinds are all handled, that a token is never taken from the stream before it was accepted when an error located at the current token can follow, which words may be left out, that a matched `into` is followed by a required parser and build/knock demand their suffix, and that the printed line of a token location is the start line of its range. That the lexer's line for a concrete text is right is C12's business."),
    "C14": ('KIND truth tables and symmetry', 'Decides the mirror laws of the derived comparison operators and of and/or/nor as exhaustive finite truth tables, symmetry of the coercion table over all 36 kind pairs, that equality and ordering share one coercion, that `not` is !is_truthy of the operand itself, that a compound assignment reaches its write only through the binary operator fold and that `let x be <op> e` is always parsed as the compound form. NaN/-0 instances and the build/knock round trip are not decided.'),
    "C15": ('sanitizer-before-sink (FIELDS) + TABLE + who-may-compare (monomorphic call graph)', "Decides that every symbol-table key operation and the keyword lookup are case-folded first, that the fold covers every string field of every name kind, that table keys are lower-case, that only Unicode case functions are used on characters (never on bytes) and that nothing but the folded symbol-table lookups (and the linter's spelling rule) compares names. The relation between two runs is not decided."),
    "C16": ('COVER (type-derived child coverage) + bridge + short-circuit + order', 'Decides that every visitable child of every AST node (derived from the ADT definitions of the analysed tree) is visited exactly once on every non-error path by the default traversal and the runner, in field order, results combined in the order produced, that the bridge forwards every method, that the first error ends the walk (checked results, short-circuiting consumers of lazily mapped visits) and no error is rewritten or dropped.'),
    "C17": ("agreement between two evaluators (KIND/TABLE)", "Decides that folder and interpreter agree on operator->arithmetic mapping, operand order, fold direction and poetic-literal evaluation, and that every non-constant node kind yields Err in both folders. Equality of numeric results on a concrete expression is not decided."),
    "C18": ('KIND + CENSUS + dataflow', 'Decides which statements are inspected and skipped, that the linter path is panic-free, that suggestion bytes are ASCII, that suggestions are guarded, that the whole right-hand side is judged, that no float-to-integer conversion produces text and that the text of a constant is the plain Display of the f64. That the words spell the value digit by digit is not decided.'),
    "C19": ('CENSUS + TYPES + FIELDS + KIND', 'Decides linter panic-freedom, that the program cannot be modified (type-level), stable sort and merge in pass order, the match_or_update table and that pass state does not survive from one run to the next. Exactness of the repeated-identifier rule on concrete programs is not decided.'),
    "C20": ('CLI wiring (FIELDS, TABLE, ERRFLOW, dataflow)', 'Decides that the CLI uses the same library entry points, that `parse` prints the tree on every path, that diagnostic and error texts are printed as the library produced them, which stream each arm writes, the error prefixes, the exit-code table, error propagation, and that a rendered diagnostic depends on all its fields and terminates its own line. Byte equality of binary and library output is not decided.'),
}

NA = {
    "C11": "The statement is about the number a word sequence denotes and the exact text after `says`: run-time values computed by iterator arithmetic that no shape or dataflow argument bounds; pinning the constants would be a frozen-fragment rule. Its two structural clauses are decided under C02 (literal-word switch, admitted-token table) and C09 (suffix-first crash). See DESIGN.md 4.11.",
}


def main():
    checks = []
    na = []
    for i in range(1, 21):
        pid = "C%02d" % i
        if pid in NA:
            na.append({"property_id": pid, "reason": NA[pid]})
            continue
        if pid not in props.PROPS:
            na.append({"property_id": pid, "reason": "check not built yet in this revision (planned: see DESIGN.md section 4); not claimed until it exists"})
            continue
        tech, text = TEXT[pid]
        checks.append({
            "property_id": pid,
            "quick_cmd": "./check %s --tier quick" % pid,
            "thorough_cmd": "./check %s --tier thorough" % pid,
            "evidence_file": "/verif/evidence/%s.json" % pid,
            "replay_cmd_template": "./check --replay {path}",
            "engine": "sa",
            "level_claimed": {
                "category": "other",
                "text": "Static analysis over the type-checked MIR of the real build (no execution, no solver). " + text,
                "design_ref": "DESIGN.md section 4.%d" % i,
            },
            "level_note": "Trusted base: rustc nightly MIR construction and callee resolution; the fact extractor (driver/); the Python rule engine (sa/); the reviewed tables under spec/. External crates are trusted through documented behaviour.",
            "technique": "static analysis: " + tech,
        })
    m = {
        "version": 1,
        "setup_cmd": "python3 sa/factgen.py dev rel",
        "hooks": {
            "guard": "kepler_5_rrss_verif",
            "enable": "none needed: the analysis reads the real build of /repo's working tree through a rustc wrapper (RUSTC_WORKSPACE_WRAPPER) under cargo +nightly check",
            "baseline_off_cmd": "cd /repo && cargo test --workspace --no-fail-fast --offline",
            "source_commits": [],
            "add_only": True,
        },
        "engines": [
            {"name": "factgen", "path": "driver/", "serves_properties": [c["property_id"] for c in checks],
             "kind_free_text": "rustc_private driver dumping items, ADTs, traits, impls, MIR with resolved callees and a monomorphic call graph, for the dev and release profiles"},
            {"name": "sa", "path": "sa/", "serves_properties": [c["property_id"] for c in checks],
             "kind_free_text": "Python rule engine over the fact files: CFG/dominators, value-flow labels, census, tables, pairing, error-flow, coverage"},
        ],
        "checks": checks,
        "not_applicable": na,
        "notes": "Static analysis only. Every check re-extracts facts from /repo's current working tree (cached by source hash). Known findings: known_findings.json.",
    }
    with open(os.path.join(VERIF, "MANIFEST.json"), "w") as f:
        json.dump(m, f, indent=1)
    print("claimed:", [c["property_id"] for c in checks])
    print("not applicable / not yet:", [n["property_id"] for n in na])


if __name__ == "__main__":
    main()
