#!/bin/sh
# development helper: tools/seed_debug.sh <seed id | patch file> <prop> [tier] -- run one check on a scratch worktree with the change
set -e
D=$(mktemp -d /tmp/seeddbg-XXXX)
P=$1; [ -f "$P" ] || P=/verif/seeded/$1/patch.diff
trap 'git -C /repo worktree remove --force "$D/repo" 2>/dev/null; rm -rf "$D"; git -C /repo worktree prune' EXIT
git -C /repo worktree add -q --detach "$D/repo" HEAD
(cd "$D/repo" && (git apply "$P" 2>/dev/null || git apply --3way "$P"))
cd /verif && VERIF_REPO="$D/repo" VERIF_EVIDENCE_DIR="$D/ev" ./check $2 ${3:+--tier $3}
