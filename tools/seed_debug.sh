#!/bin/sh
# development helper: tools/seed_debug.sh <seed id> <prop> -- run one check on a scratch copy with the seeded change, verbosely
set -e
D=$(mktemp -d /tmp/seeddbg-XXXX)
trap 'rm -rf "$D"' EXIT
mkdir -p "$D/repo" && cd /repo && cp -r Cargo.toml Cargo.lock src "$D/repo/" && cd "$D/repo" && git apply /verif/seeded/$1/patch.diff
cd /verif && VERIF_REPO="$D/repo" VERIF_EVIDENCE_DIR="$D/ev" ./check $2 ${3:+--tier $3}
