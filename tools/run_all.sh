#!/bin/bash
# development helper: run every claimed check at the given tier and print one line each
tier=${1:-quick}
cd /verif
for p in $(python3 -c "import json; print(' '.join(c['property_id'] for c in json.load(open('MANIFEST.json'))['checks']))"); do
  out=$(./check $p --tier $tier 2>&1); rc=$?
  v=$(echo "$out" | grep -c '^VIOLATION'); k=$(echo "$out" | grep -c '^KNOWN-FINDING')
  w=$(python3 -c "import json; e=json.load(open('evidence/$p.json')); print(e['coverage']['obligations'], e['wall_s'])")
  echo "$p rc=$rc violations=$v known=$k obligations/wall=$w"
  if [ $rc -gt 1 ]; then echo "$out" | tail -5; fi
done
